"""Engine F: algebraic normal forms by symbolic forward substitution (DESIGN 4.5).

A symbolic interpreter for the kernel-style Python of this repository: scalars and
array cells addressed by loop indices are sympy expressions; `x op= e` updates the
cell; if/else becomes ITE(guard, a, b); an accumulation loop becomes Sum; calls to
spline evaluators / f_eq / sqrt ... are uninterpreted functions; `% (2 pi)` is an
idempotent wrap operator.  Nothing is executed: loops are not iterated, the loop
variable is a symbol.  Equality of two extracted expressions is polynomial identity
after cross-multiplication (sympy expand), conditionals are compared by a truth table
over their (canonicalised) atomic comparisons.

AUDIT (soundness of the facts this engine hands to the property files).  The engine itself never
reports a violation: it hands out FORMULAS (`SymExec.ret`, `.env`, array cells) and VERDICTS of
comparisons (`alg_equal`, `sym_equal`, `consistent`), which the property files turn into
HOLDS / VIOLATED.  A formula is a fact about the code only if every construct met on the way
was modelled; the rule of this file is therefore: a construct that is not modelled raises
`Undecided` AT THE POINT WHERE IT IS MET (no default branch guesses), and a comparison answers
False only when the difference is established (see `alg_equal`), None / Undecided otherwise.
Every site is marked `# AUDIT:` with the assumption and how it is checked.
"""
from __future__ import annotations

import ast
import itertools
import re

import sympy as sp
from sympy import Function, Symbol, Integer, Rational
from sympy.logic.boolalg import Boolean, BooleanFunction
from sympy.core.function import AppliedUndef

from .core import src, AnalysisError


class Undecided(Exception):
    pass


class Wrap(Function):
    """x mod 2*pi; idempotent"""
    nargs = 1

    @classmethod
    def eval(cls, x):
        if isinstance(x, Wrap):
            return x

    def _eval_is_extended_real(self):
        return True


class ITE(Function):
    """if-then-else kept as an uninterpreted ternary; simplifies when both arms agree"""
    nargs = 3

    @classmethod
    def eval(cls, c, a, b):
        if c is sp.true or c == True:  # noqa: E712
            return a
        if c is sp.false or c == False:  # noqa: E712
            return b
        if a == b:
            return a

    def _eval_is_extended_real(self):
        return True

    def _eval_is_real(self):
        return True

    def _eval_is_commutative(self):
        return True


class WhileShift(Function):
    """WhileShift(v, cond_kind, bound, step): result of `while v <cond> bound: v += step`"""
    nargs = 4

    def _eval_is_extended_real(self):
        return True


PI = Symbol("pi", positive=True)

PURE_FUNCS = {"sqrt": sp.sqrt, "exp": sp.exp, "tanh": sp.tanh, "cos": sp.cos, "sin": sp.sin, "floor": sp.floor,
              "real": lambda x: x, "float": lambda x: x, "int": lambda x: Function("toint")(x)}

FMOD = Function("fmod")      # C remainder (sign of the dividend): NOT the `%` of Python


def num(c):
    if isinstance(c, bool):
        return sp.true if c else sp.false
    if isinstance(c, int):
        return Integer(c)
    if isinstance(c, float):
        return Rational(repr(c)) if c == c else sp.nan
    raise Undecided(f"constant {c!r}")


def _is_bool(x):
    """certainly a truth value (a Symbol may be either: it is not counted here)"""
    return isinstance(x, (BooleanFunction, sp.Rel, sp.logic.boolalg.BooleanAtom))


def _is_scalar(x):
    """a sympy NUMBER-valued expression (not a truth value, not an array, not a tuple)"""
    return isinstance(x, sp.Expr)


class Poison:
    """a name whose value the engine does not know (bound differently on the arms of a conditional ...): reading it is Undecided"""

    def __init__(self, why):
        self.why = why


class Arr:
    """symbolic array: written cells keyed by index tuple; reads of unwritten cells are
    an uninterpreted function of the indices (or `generic(idx)` when defined).
    `rank` (number of axes) and `length` (extent of axis 0) are None when not known."""

    def __init__(self, name, generic=None, rank=None):
        self.name = name
        self.cells: dict[tuple, sp.Expr] = {}
        self.generic = generic
        self.fn = Function(name)
        self.rank = rank
        self.length = None
        self.selfupd = set()      # keys of cells whose last store was written as an update of the cell itself (x[k] += e, x[k] = x[k] + e)

    def dim(self, k):
        if k == 0 and getattr(self, "length", None) is not None:
            return self.length
        return Symbol(f"n{k}_{self.name}", integer=True, positive=True)

    def _norm(self, idx):
        """AUDIT: an index is a tuple of integer-valued scalars, one per axis.  Checked: every component is a sympy number
        expression (an array / tuple / truth value used as an index is fancy indexing: Undecided); the count equals the rank when
        the rank is known (fewer = a row view, not an element); a NEGATIVE LITERAL counts from the end: mapped through the
        extent of its axis (`length` / the symbol n<k>_<name> that `shape` and `len` use)."""
        idx = tuple(idx)
        rank = getattr(self, "rank", None)
        if rank is not None and len(idx) != rank:
            raise Undecided(f"{self.name} has {rank} axes and is indexed with {len(idx)} indices")
        out = []
        for k, i in enumerate(idx):
            if not _is_scalar(i):
                raise Undecided(f"index {i!r} of {self.name} is not a scalar")
            if i.is_Integer and i < 0:
                i = self.dim(k) + i
            out.append(i)
        return tuple(out)

    def initial(self, idx):
        return self.generic(idx) if self.generic is not None else self.fn(*idx)

    def read(self, idx):
        idx = self._norm(idx)
        if idx in self.cells:
            return self.cells[idx]
        # a written cell with a different symbolic key might alias: require syntactic disjointness knowledge
        for k in self.cells:
            if len(k) == len(idx) and not _provably_distinct(k, idx):
                raise Undecided(f"read of {self.name}{list(idx)} may alias written cell {list(k)}")
        if self.generic is not None:
            return self.generic(idx)
        return self.fn(*idx)

    def write(self, idx, val):
        idx = self._norm(idx)
        if not isinstance(val, sp.Basic):
            raise Undecided(f"store of a non-scalar into {self.name}{list(idx)}")
        for k in list(self.cells):
            if k != idx and len(k) == len(idx) and not _provably_distinct(k, idx):
                raise Undecided(f"write of {self.name}{list(idx)} may alias written cell {list(k)}")
        self.cells[idx] = val

    def set_all(self, gen):
        """the whole array is overwritten: element idx becomes gen(idx)"""
        self.cells = {}
        self.generic = gen
        self.selfupd = set()

    def copy(self):
        a = Arr(self.name, self.generic, getattr(self, "rank", None))
        a.cells = dict(self.cells)
        a.fn = self.fn
        a.length = getattr(self, "length", None)
        a.selfupd = set(getattr(self, "selfupd", ()))
        return a


LOOP_BOUNDS: list = []      # [(symbol, lower bound)] of the loops being executed (set by SymExec)


def _provably_distinct(k1, k2):
    for a, b in zip(k1, k2):
        d = sp.simplify(a - b)
        if d.is_number and d != 0:
            return True
        if LOOP_BOUNDS and not d.is_number:
            sub = {}
            for v, lo in LOOP_BOUNDS:
                if v in d.free_symbols:
                    sub[v] = lo + Symbol("_t_" + str(v), nonnegative=True, integer=True)
            if sub:
                dd = sp.simplify(d.subs(sub))
                if dd.is_positive or dd.is_negative:
                    return True
    return False


class Vec:
    """element-wise lifted whole-array expression: f(index tuple) -> element.
    rank: number of axes when known (None: not known, the operands are then read with the index as given, and an operand of
    known rank refuses an index of another length).  frozen(): the same value with every array operand read NOW (a Vec made by
    arithmetic is a fresh array and is frozen when it is made; a Vec made by slicing is a VIEW and reads its base when it is read)."""

    def __init__(self, f, rank=None, refreeze=None):
        self.f = f
        self.rank = rank
        self._refreeze = refreeze

    def frozen(self):
        return self._refreeze() if self._refreeze is not None else self


def _elem(v, ix):
    if isinstance(v, Arr):
        return v.read(list(ix))
    if isinstance(v, Vec):
        return v.f(tuple(ix))
    return v


def _is_arr(v):
    return isinstance(v, (Arr, Vec))


def _frozen(v):
    """value of an array operand at this point of the execution (whole-array arithmetic makes a new array: later stores into the
    operands do not change it)"""
    if isinstance(v, Arr):
        return v.copy()
    if isinstance(v, Vec):
        return v.frozen()
    return v


def lift(fn, *ops, what="expression"):
    """fn applied element-wise.
    AUDIT: numpy aligns the TRAILING axes of operands of different rank.  When the ranks of all array operands are known the
    operand of rank r is read at the last r indices; when one is not known all operands are read at the same index (operands
    whose rank is known then check the number of indices themselves, see Arr._norm).  Extents of 1 are not modelled (kernels do
    not use them).  Operands that are neither scalars nor arrays (tuples, functions) are Undecided."""
    if not any(_is_arr(o) for o in ops):
        for o in ops:
            if not isinstance(o, sp.Basic):
                raise Undecided(f"{what} on a value that is neither a scalar nor an array")
        try:
            return fn(*ops)
        except (TypeError, AttributeError, ValueError) as e:
            raise Undecided(f"{what}: {type(e).__name__}: {e}")
    for o in ops:
        if not (_is_arr(o) or isinstance(o, sp.Basic)):
            raise Undecided(f"{what} on a value that is neither a scalar nor an array")
    ops = [_frozen(o) for o in ops]
    ranks = [getattr(o, "rank", None) for o in ops if _is_arr(o)]
    if all(r is not None for r in ranks):
        R = max(ranks)

        def f(ix, ops=ops, R=R):
            if len(ix) != R:
                raise Undecided(f"{what} of {R} axes read with {len(ix)} indices")
            vals = [_elem(o, ix[len(ix) - o.rank:]) if _is_arr(o) else o for o in ops]
            try:
                return fn(*vals)
            except (TypeError, AttributeError, ValueError) as e:
                raise Undecided(f"{what}: {type(e).__name__}: {e}")
        return Vec(f, R)

    def g(ix, ops=ops):
        vals = [_elem(o, ix) for o in ops]
        try:
            return fn(*vals)
        except (TypeError, AttributeError, ValueError) as e:
            raise Undecided(f"{what}: {type(e).__name__}: {e}")
    return Vec(g, None)


class ShapeOf:
    def __init__(self, arrname, arr=None):
        self.name = arrname
        self.arr = arr

    def dim(self, k):
        if self.arr is not None:
            rank = getattr(self.arr, "rank", None)
            if rank is not None and not (-rank <= k < rank):
                raise Undecided(f"axis {k} of {self.name}, which has {rank} axes")
            if k < 0:
                if rank is None:
                    raise Undecided(f"axis {k} of {self.name} counted from the end")
                k += rank
            return self.arr.dim(k)
        return Symbol(f"n{k}_{self.name}", integer=True, positive=True)


_FRESH = itertools.count(1)


def _bound_vars(e):
    out = set()
    if isinstance(e, sp.Basic):
        for s_ in e.atoms(sp.Sum):
            for lim in s_.limits:
                out.add(lim[0])
    return out


def _rename_bound(e, clash):
    """`e` with every summation variable that is in `clash` renamed to a fresh one"""
    if not isinstance(e, sp.Basic) or not e.has(sp.Sum):
        return e
    if not (_bound_vars(e) & set(clash)):
        return e

    def ren(x):
        if isinstance(x, sp.Sum):
            fnc = ren(x.function)
            lims = []
            for lim in x.limits:
                v = lim[0]
                rest = tuple(ren(b) for b in lim[1:])
                if v in clash:
                    nv = Symbol(f"{v.name}_s{next(_FRESH)}", integer=True)
                    fnc = fnc.xreplace({v: nv})
                    v = nv
                lims.append((v,) + rest)
            return sp.Sum(fnc, *lims)
        if not x.args:
            return x
        return x.func(*[ren(a) for a in x.args])
    return ren(e)


def safe_subs(expr, mapping):
    """capture-avoiding substitution: AUDIT: a summation variable of `expr` with the name of a symbol that occurs in the
    substituted values (a later loop counter of the same name) would capture it; such dummies are renamed first"""
    if not isinstance(expr, sp.Basic):
        return expr
    free_new = set()
    for v in mapping.values():
        if isinstance(v, sp.Basic):
            free_new |= v.free_symbols
    expr = _rename_bound(expr, free_new)
    return expr.subs(mapping, simultaneous=True)


def make_sum(d, v, lo, hi):
    """Sum(d, (v, lo, hi - 1)) with inner summation variables of the same name as v renamed"""
    d = _rename_bound(d, {v})
    return sp.Sum(d, (v, lo, hi - 1))


_MODULE_RECEIVERS = ("np", "numpy", "math", "cmath", "mt", "m")


class SymExec:
    """symbolic execution of one function body under the pointwise discipline"""

    def __init__(self, fn: ast.FunctionDef, args: dict, calls: dict | None = None, consts: dict | None = None):
        self.fn = fn
        self.env: dict[str, object] = dict(args)
        self.calls = calls or {}           # name -> handler(self, call_node, argvals) -> value
        self.consts = consts or {}
        self.ret = None
        self.path = sp.true
        self.loop_vars: list[tuple] = []   # (symbol, lo, hi)
        self.module_funcs: dict = {}       # name -> FunctionDef of functions that may be inlined
        self.depth = 0

    # ------------------------------------------------------------ expressions
    def ev(self, e):
        if isinstance(e, ast.Constant):
            return num(e.value)
        if isinstance(e, ast.Name):
            if e.id in self.env:
                v = self.env[e.id]
                if isinstance(v, Poison):
                    raise Undecided(f"`{e.id}`: {v.why}")
                return v
            if e.id == "pi":
                return PI
            if e.id in self.consts:
                return self.consts[e.id]
            raise Undecided(f"unknown name `{e.id}`")
        if isinstance(e, ast.BinOp):
            if not isinstance(e.op, (ast.Add, ast.Sub, ast.Mult, ast.Div, ast.Pow, ast.Mod, ast.FloorDiv, ast.BitAnd, ast.BitOr)):
                # AUDIT: @ is not element-wise; shifts and ^ are not modelled (refused here, not when an element is read)
                raise Undecided(f"operator in `{src(e)[:50]}`")
            a, b = self.ev(e.left), self.ev(e.right)
            node = e
            return lift(lambda x, y: self.binop(node.op, x, y, node), a, b, what=f"`{src(e)[:40]}`")
        if isinstance(e, ast.UnaryOp):
            v = self.ev(e.operand)
            if isinstance(e.op, ast.USub):
                return lift(lambda x: self._arith(lambda: -x, e), v, what=f"`{src(e)[:40]}`")
            if isinstance(e.op, ast.UAdd):
                return lift(lambda x: self._arith(lambda: +x, e), v, what=f"`{src(e)[:40]}`")
            if isinstance(e.op, ast.Not):
                return lift(lambda x: sp.Not(self.truth(x, e)), v, what=f"`{src(e)[:40]}`")
            # AUDIT: `~x` (bitwise) is not modelled
            raise Undecided(f"operator in `{src(e)[:50]}`")
        if isinstance(e, ast.Compare):
            vals = [self.ev(e.left)] + [self.ev(c) for c in e.comparators]
            ops = list(e.ops)

            def cmp(*xs):
                parts = [self.rel(op, xs[k], xs[k + 1]) for k, op in enumerate(ops)]
                return sp.And(*parts) if len(parts) > 1 else parts[0]
            return lift(cmp, *vals, what=f"`{src(e)[:40]}`")
        if isinstance(e, ast.BoolOp):
            vals = [self.ev(v) for v in e.values]
            is_and = isinstance(e.op, ast.And)
            # AUDIT: `a and b` is the conjunction only for truth values (on numbers it returns one of the operands)
            return lift(lambda *xs: (sp.And if is_and else sp.Or)(*[self.truth(x, e, strict=True) for x in xs]), *vals,
                        what=f"`{src(e)[:40]}`")
        if isinstance(e, ast.Subscript):
            return self.subscript(e)
        if isinstance(e, ast.Attribute):
            base = e.value
            if isinstance(base, ast.Name) and base.id in self.env and isinstance(self.env[base.id], Arr) and e.attr == "shape":
                a = self.env[base.id]
                return ShapeOf(a.name, a)
            if isinstance(base, ast.Name) and base.id in self.env and isinstance(self.env[base.id], Arr) and e.attr == "size" \
                    and getattr(self.env[base.id], "rank", None) == 1:
                return self.env[base.id].dim(0)
            if isinstance(base, ast.Name) and base.id in ("np", "numpy", "math") and base.id not in self.env and e.attr == "pi":
                return PI
            raise Undecided(f"attribute `{src(e)[:50]}`")
        if isinstance(e, ast.Call):
            return self.call(e)
        if isinstance(e, ast.Tuple):
            if any(isinstance(x, ast.Starred) for x in e.elts):
                raise Undecided(f"starred element in `{src(e)[:40]}`")
            return tuple(self.ev(x) for x in e.elts)
        if isinstance(e, ast.IfExp):
            c, a, b = self.ev(e.test), self.ev(e.body), self.ev(e.orelse)
            return lift(lambda c_, a_, b_: ITE(self.truth(c_, e), a_, b_), c, a, b, what=f"`{src(e)[:40]}`")
        # AUDIT: lambda, comprehensions, generators, walrus, starred, f-strings, dict/set/list displays, await/yield: not modelled
        raise Undecided(f"expression kind `{src(e)[:50]}`")

    def truth(self, x, e=None, strict=False):
        """x as a condition.  AUDIT: a truth value or a Boolean-armed conditional is itself; a Symbol is a flag (its truth value is
        one free atom, the same wherever the symbol occurs); a NUMBER expression used as a condition means `!= 0` (not for the
        operands of and/or, whose VALUE is an operand); arrays / tuples: Undecided"""
        if _is_bool(x) or isinstance(x, Symbol):
            return x
        if isinstance(x, ITE) and _boolean_ite(x):
            return x
        if isinstance(x, sp.Expr) and not strict:
            return sp.Ne(x, 0)
        raise Undecided(f"`{src(e)[:40] if e is not None else x}` used as a truth value")

    def _arith(self, thunk, e):
        try:
            return thunk()
        except (TypeError, AttributeError, ValueError) as ex_:
            raise Undecided(f"arithmetic in `{src(e)[:40]}`: {type(ex_).__name__}")

    def subscript(self, e):
        base = self.ev(e.value)
        if isinstance(base, Arr):
            items = e.slice.elts if isinstance(e.slice, ast.Tuple) else [e.slice]
            if any(isinstance(x, ast.Slice) for x in items):
                rank = getattr(base, "rank", None)
                if rank is not None and len(items) != rank:
                    raise Undecided(f"`{src(e)[:40]}`: {len(items)} subscripts for {rank} axes")
                lows = []
                for ax, x in enumerate(items):
                    if isinstance(x, ast.Slice):
                        if x.step is not None:
                            raise Undecided("strided slice")
                        lo = self.ev(x.lower) if x.lower is not None else Integer(0)
                        if not _is_scalar(lo):
                            raise Undecided(f"slice bound in `{src(e)[:40]}`")
                        if lo.is_Integer and lo < 0:
                            lo = base.dim(ax) + lo      # AUDIT: a negative literal bound counts from the end
                        # AUDIT: the upper bound only limits the extent, which this model does not track
                        lows.append(("s", lo))
                    else:
                        v = self.ev(x)
                        if not _is_scalar(v):
                            raise Undecided(f"index in `{src(e)[:40]}`")
                        lows.append(("i", v))
                nsl = sum(1 for k_, _ in lows if k_ == "s")

                def build(b, lows=lows, nsl=nsl):
                    def f(ix, b=b):
                        if len(ix) != nsl:
                            raise Undecided(f"view of {nsl} axes read with {len(ix)} indices")
                        out, k = [], 0
                        for kind, lo in lows:
                            if kind == "s":
                                out.append(lo + ix[k])
                                k += 1
                            else:
                                out.append(lo)
                        return b.read(out)
                    return f
                # a VIEW: reads the base when it is read; frozen() reads a copy of the base taken at that moment
                return Vec(build(base), nsl, refreeze=lambda base=base, build=build, nsl=nsl: Vec(build(base.copy()), nsl))
            idx = self.index(e.slice)
            return base.read(idx)
        if isinstance(base, (tuple, list)):
            i = self.ev(e.slice) if not isinstance(e.slice, (ast.Slice, ast.Tuple)) else None
            if isinstance(i, sp.Basic) and i.is_Integer and -len(base) <= int(i) < len(base):
                return base[int(i)]
        if isinstance(base, ShapeOf):
            i = self.ev(e.slice) if not isinstance(e.slice, (ast.Slice, ast.Tuple)) else None
            if isinstance(i, sp.Basic) and i.is_Integer:
                return base.dim(int(i))
        if isinstance(base, Vec):
            if isinstance(e.slice, ast.Slice) or (isinstance(e.slice, ast.Tuple) and any(isinstance(x, ast.Slice) for x in e.slice.elts)):
                raise Undecided(f"slice of a whole-array value `{src(e)[:40]}`")
            idx = tuple(self.index(e.slice))
            if base.rank is not None and len(idx) != base.rank:
                raise Undecided(f"`{src(e)[:40]}`: {len(idx)} indices for {base.rank} axes")
            return base.f(idx)
        raise Undecided(f"subscript `{src(e)[:50]}`")

    def binop(self, op, a, b, e):
        # AUDIT: arithmetic is defined on number expressions only (truth values, tuples, arrays: Undecided; arrays are lifted by ev)
        if not (isinstance(a, sp.Basic) and isinstance(b, sp.Basic)):
            raise Undecided(f"operands of `{src(e)[:50]}`")
        if isinstance(op, (ast.BitAnd, ast.BitOr)) and (_is_bool(a) or _is_bool(b)):
            if (_is_bool(a) or isinstance(a, Symbol)) and (_is_bool(b) or isinstance(b, Symbol)):
                return (sp.And if isinstance(op, ast.BitAnd) else sp.Or)(a, b)
            raise Undecided(f"operator in `{src(e)[:50]}`")
        if _is_bool(a) or _is_bool(b):
            raise Undecided(f"arithmetic on a truth value in `{src(e)[:50]}`")
        try:
            if isinstance(op, ast.Add):
                return a + b
            if isinstance(op, ast.Sub):
                return a - b
            if isinstance(op, ast.Mult):
                return a * b
            if isinstance(op, ast.Div):
                return a / b
            if isinstance(op, ast.Pow):
                return a ** b
            if isinstance(op, ast.Mod):
                if sp.simplify(b - 2 * PI) == 0:
                    return Wrap(a)
                return Function("mod")(a, b)
            if isinstance(op, ast.FloorDiv):
                return sp.floor(a / b)
        except (TypeError, AttributeError, ValueError) as ex_:
            raise Undecided(f"arithmetic in `{src(e)[:40]}`: {type(ex_).__name__}")
        # AUDIT: @, <<, >>, ^, & and | on numbers are not modelled
        raise Undecided(f"operator in `{src(e)[:50]}`")

    def rel(self, op, a, b):
        if not (_is_scalar(a) and _is_scalar(b)):
            # == / != of truth values: not a comparison of numbers
            raise Undecided("comparison of values that are not numbers")
        if isinstance(op, ast.Lt):
            return sp.Lt(a, b)
        if isinstance(op, ast.LtE):
            return sp.Le(a, b)
        if isinstance(op, ast.Gt):
            return sp.Gt(a, b)
        if isinstance(op, ast.GtE):
            return sp.Ge(a, b)
        if isinstance(op, ast.Eq):
            return sp.Eq(a, b)
        if isinstance(op, ast.NotEq):
            return sp.Ne(a, b)
        raise Undecided("comparison operator")

    def index(self, s):
        items = s.elts if isinstance(s, ast.Tuple) else [s]
        out = []
        for x in items:
            if isinstance(x, (ast.Slice, ast.Starred)):
                raise Undecided("slice where an index is expected")
            v = self.ev(x)
            if not _is_scalar(v):
                # AUDIT: an array / tuple / truth value as an index is fancy indexing, not an element
                raise Undecided(f"index `{src(x)[:30]}` is not a scalar")
            out.append(v)
        return out

    # ------------------------------------------------------------ calls
    def _plain_args(self, e, n=None, lo=None):
        """positional actuals of a call without keywords / star-expansion"""
        if e.keywords or any(isinstance(a, ast.Starred) for a in e.args):
            raise Undecided(f"keyword or star-expanded arguments in `{src(e)[:60]}`")
        if n is not None and len(e.args) != n:
            raise Undecided(f"`{src(e)[:60]}`: {len(e.args)} arguments")
        if lo is not None and len(e.args) < lo:
            raise Undecided(f"`{src(e)[:60]}`: {len(e.args)} arguments")
        return [self.ev(a) for a in e.args]

    def _library_callee(self, f):
        """AUDIT: a call is read as the library function of that NAME only when it is written `name(...)` or `<module>.name(...)`
        with a receiver that is not a local value (a method of an object or of an array is another function)"""
        if isinstance(f, ast.Name):
            return f.id not in self.env
        if isinstance(f, ast.Attribute) and isinstance(f.value, ast.Name):
            return f.value.id not in self.env
        return False

    def inline(self, callee, e):
        """AUDIT (binding of actuals to formals, as Python does it): positional actuals to the positional formals in order, keywords
        to the formal of that NAME (a keyword that is not a formal, a formal bound twice, a missing formal, *args / **kwargs on either
        side: Undecided); defaults are evaluated only when they are literals (a default is evaluated in the callee's module)"""
        A = callee.args
        if A.vararg is not None or A.kwarg is not None:
            raise Undecided(f"`{callee.name}` takes *args / **kwargs")
        if any(isinstance(a_, ast.Starred) for a_ in e.args) or any(k_.arg is None for k_ in e.keywords):
            raise Undecided(f"star-expanded arguments in `{src(e)[:60]}`")
        pos = [a.arg for a in list(getattr(A, "posonlyargs", [])) + list(A.args)]
        posonly = {a.arg for a in getattr(A, "posonlyargs", [])}
        kwonly = [a.arg for a in A.kwonlyargs]
        if len(e.args) > len(pos):
            raise Undecided(f"`{src(e)[:60]}`: {len(e.args)} positional arguments for {len(pos)} parameters")
        bound = {}
        for p_, a_ in zip(pos, e.args):
            bound[p_] = self.ev(a_)
        for k_ in e.keywords:
            if k_.arg in bound or k_.arg in posonly or k_.arg not in pos + kwonly:
                raise Undecided(f"`{src(e)[:60]}`: keyword `{k_.arg}` does not name a free parameter of `{callee.name}`")
            bound[k_.arg] = self.ev(k_.value)
        defaults = dict(zip(pos[len(pos) - len(A.defaults):], A.defaults))
        defaults.update({n_: d_ for n_, d_ in zip(kwonly, A.kw_defaults) if d_ is not None})
        for p_ in pos + kwonly:
            if p_ in bound:
                continue
            d_ = defaults.get(p_)
            if d_ is None:
                raise Undecided(f"`{src(e)[:60]}`: no argument for `{p_}`")
            if isinstance(d_, ast.Constant) and not isinstance(d_.value, (str, bytes, type(None), type(Ellipsis))):
                bound[p_] = num(d_.value)
            elif isinstance(d_, ast.UnaryOp) and isinstance(d_.op, ast.USub) and isinstance(d_.operand, ast.Constant) \
                    and isinstance(d_.operand.value, (int, float)):
                bound[p_] = -num(d_.operand.value)
            else:
                raise Undecided(f"default of `{p_}` of `{callee.name}` is not a number literal")
        sub = SymExec(callee, bound, self.calls, self.consts)
        sub.module_funcs = self.module_funcs
        sub.depth = self.depth + 1
        sub.run()
        return sub.ret if sub.ret is not None else sp.S.NaN

    def call(self, e: ast.Call):
        f = e.func
        name = f.id if isinstance(f, ast.Name) else f.attr if isinstance(f, ast.Attribute) else None
        if name in self.calls:
            return self.calls[name](self, e)
        # function-valued parameter bound in env
        if isinstance(f, ast.Name) and f.id in self.env and callable(self.env[f.id]):
            return self.env[f.id](self, e)
        if isinstance(f, ast.Name) and f.id in self.module_funcs:
            if self.depth >= 4:
                raise Undecided(f"call `{src(e)[:60]}`: helper functions nested too deeply")
            return self.inline(self.module_funcs[f.id], e)
        # methods of an array value
        if isinstance(f, ast.Attribute) and isinstance(f.value, ast.Name) and isinstance(self.env.get(f.value.id), Arr):
            arr = self.env[f.value.id]
            if f.attr == "fill":
                (c,) = self._plain_args(e, n=1)
                if not _is_scalar(c):
                    raise Undecided(f"call `{src(e)[:60]}`")
                arr.set_all(lambda ix, c=c: c)
                return sp.S.NaN
            if f.attr == "copy" and not e.args and not e.keywords:
                return arr.copy()
            raise Undecided(f"method call `{src(e)[:60]}`")
        if not self._library_callee(f):
            raise Undecided(f"call `{src(e)[:60]}`")
        if name in PURE_FUNCS:
            args = self._plain_args(e, n=1)
            return lift(PURE_FUNCS[name], *args, what=f"`{src(e)[:40]}`")
        if name in ("abs", "np_abs", "fabs", "absolute"):
            args = self._plain_args(e, n=1)
            return lift(sp.Abs, *args, what=f"`{src(e)[:40]}`")
        if name == "len":
            (a,) = self._plain_args(e, n=1)
            if isinstance(a, Arr):
                return a.dim(0)
            if isinstance(a, (tuple, list)):
                return Integer(len(a))
            raise Undecided(f"call `{src(e)[:60]}`")
        if name in ("empty", "zeros", "ones", "full", "empty_like", "zeros_like", "ones_like", "full_like"):
            return self.alloc(name, e)
        if name in ("max", "min", "maximum", "minimum", "fmax", "fmin"):
            # AUDIT: builtin max/min fold any number of SCALAR operands; numpy's take exactly two (a third positional is `out`); one
            # operand is a reduction over an iterable: not modelled.  max(a, b) = b if b > a else a (the convention of C12)
            builtin = name in ("max", "min")
            args = self._plain_args(e, lo=2)
            if len(args) > 2 and not builtin:
                raise Undecided(f"call `{src(e)[:60]}`")
            if builtin and any(_is_arr(a) for a in args):
                raise Undecided(f"call `{src(e)[:60]}` on arrays")
            gt = name in ("max", "maximum", "fmax")

            def fold(*xs):
                out = xs[0]
                for b in xs[1:]:
                    if not (_is_scalar(b) and _is_scalar(out)):
                        raise Undecided("max/min of values that are not numbers")
                    out = ITE(sp.Gt(b, out) if gt else sp.Lt(b, out), b, out)
                return out
            return lift(fold, *args, what=f"`{src(e)[:40]}`")
        if name in ("mod", "remainder"):
            a, b = self._plain_args(e, n=2)
            return lift(lambda x, y: self.binop(ast.Mod(), x, y, e), a, b, what=f"`{src(e)[:40]}`")
        if name == "fmod":
            a, b = self._plain_args(e, n=2)
            return lift(lambda x, y: FMOD(x, y), a, b, what=f"`{src(e)[:40]}`")
        # AUDIT: every other call (tensordot, dot, sum, prod, where, roll, print, methods ...) may compute or modify anything
        raise Undecided(f"call `{src(e)[:60]}`")

    def alloc(self, name, e):
        """AUDIT: np.zeros / ones / full make an array of KNOWN content, empty / empty_like of unknown content; the rank is the
        length of the shape tuple (1 for a scalar shape), for *_like that of the model array; dtype / order keywords do not change
        the values"""
        if any(isinstance(a, ast.Starred) for a in e.args) or any(k.arg not in ("dtype", "order", "shape", "fill_value") for k in e.keywords):
            raise Undecided(f"call `{src(e)[:60]}`")
        kw = {k.arg: k.value for k in e.keywords}
        pos = list(e.args)
        a_ = Arr(f"tmp{e.lineno}")
        like = name.endswith("_like")
        if like:
            if not pos:
                raise Undecided(f"call `{src(e)[:60]}`")
            m = self.ev(pos[0])
            if isinstance(m, Arr):
                a_.rank, a_.length = getattr(m, "rank", None), getattr(m, "length", None)
                if a_.length is None:
                    a_.length = m.dim(0)
            elif isinstance(m, Vec):
                a_.rank = m.rank
            else:
                raise Undecided(f"call `{src(e)[:60]}`")
            rest = pos[1:]
        else:
            shp = pos[0] if pos else kw.get("shape")
            if shp is None:
                raise Undecided(f"call `{src(e)[:60]}`")
            # a one-dimensional scratch array of known length: enumerate()/len() use that length
            try:
                n_ = self.ev(shp)
            except Undecided:
                n_ = None
            if isinstance(n_, ShapeOf) and n_.arr is not None:
                a_.rank = getattr(n_.arr, "rank", None)
                a_.length = n_.arr.dim(0)
            elif isinstance(n_, (tuple, list)):
                a_.rank = len(n_)
                if n_ and _is_scalar(n_[0]):
                    a_.length = n_[0]
            elif _is_scalar(n_):
                a_.rank = 1
                a_.length = n_
            rest = pos[1:]
        base = name[:-5] if like else name
        if base == "zeros":
            a_.generic = lambda ix: Integer(0)
        elif base == "ones":
            a_.generic = lambda ix: Integer(1)
        elif base == "full":
            fv = rest[0] if rest else kw.get("fill_value")
            if fv is None:
                raise Undecided(f"call `{src(e)[:60]}`")
            c = self.ev(fv)
            if not _is_scalar(c):
                raise Undecided(f"call `{src(e)[:60]}`")
            a_.generic = lambda ix, c=c: c
            rest = rest[1:]
        if rest and not all(isinstance(r_, (ast.Name, ast.Attribute, ast.Constant)) for r_ in rest):
            raise Undecided(f"call `{src(e)[:60]}`")
        return a_

    # ------------------------------------------------------------ statements
    def run(self):
        self.block(self.fn.body)
        return self

    def block(self, stmts):
        for st in stmts:
            if self.ret is not None:
                break
            self.stmt(st)

    def stmt(self, st):
        if isinstance(st, ast.Expr):
            v = st.value
            if isinstance(v, (ast.Constant, ast.Name, ast.Attribute)):
                return                   # docstring / a bare name: no effect
            if isinstance(v, ast.Call):
                self.call(v)
                return
            # AUDIT: yield / await / walrus as a statement have effects: not modelled
            raise Undecided(f"expression statement `{src(st)[:50]}`")
        if isinstance(st, (ast.Import, ast.ImportFrom, ast.Pass)):
            if isinstance(st, ast.ImportFrom):
                for a in st.names:
                    if a.name == "pi":
                        self.env[a.asname or a.name] = PI
            return
        if isinstance(st, ast.Assign):
            val = self.ev(st.value)
            for t in st.targets:
                self.assign(t, val, value_node=st.value)
            return
        if isinstance(st, ast.AnnAssign):
            if st.value is None:
                return
            if not isinstance(st.target, ast.Name):
                raise Undecided(f"annotated assignment `{src(st)[:50]}`")
            self.assign(st.target, self.ev(st.value), value_node=st.value)
            return
        if isinstance(st, ast.AugAssign):
            cur = self.ev(st.target)
            v = self.ev(st.value)
            if not isinstance(st.op, (ast.Add, ast.Sub, ast.Mult, ast.Div)):
                raise Undecided(f"augmented operator in `{src(st)[:50]}`")
            new = lift(lambda x, y: self.binop(st.op, x, y, st), cur, v, what=f"`{src(st)[:40]}`")
            if isinstance(st.target, ast.Name) and isinstance(cur, Arr):
                # AUDIT: `a += b` on an array updates the array IN PLACE (every alias sees it)
                if not isinstance(new, Vec):
                    raise Undecided(f"`{src(st)[:50]}`")
                cur.set_all(lambda ix, new=new: _elem(new, ix))
                return
            if isinstance(st.target, ast.Name) and isinstance(cur, Vec):
                raise Undecided(f"in-place update of a view `{src(st)[:50]}`")
            self.assign(st.target, new, self_update=True)
            return
        if isinstance(st, ast.If):
            c = self.ev(st.test)
            if _is_arr(c) or not isinstance(c, sp.Basic):
                raise Undecided(f"condition `{src(st.test)[:40]}` is not a scalar")
            c = self.truth(c, st.test)
            if c is sp.true or c == True:  # noqa: E712
                self.block(st.body)
                return
            if c is sp.false or c == False:  # noqa: E712
                self.block(st.orelse)
                return
            snap = self.snapshot()
            self.block(st.body)
            a = self.snapshot()
            ra = self.ret
            self.restore(snap)
            self.ret = None
            self.block(st.orelse)
            b = self.snapshot()
            rb = self.ret
            self.merge(c, a, b)
            if ra is not None or rb is not None:
                if ra is None or rb is None:
                    raise Undecided("return on one arm of a conditional only")
                def _tup(x):
                    return isinstance(x, (tuple, sp.Tuple)) and all(isinstance(y, sp.Basic) for y in x)
                if not (isinstance(ra, sp.Basic) and isinstance(rb, sp.Basic)):
                    if ra is rb:
                        self.ret = ra
                    elif (_tup(ra) or isinstance(ra, sp.Basic)) and (_tup(rb) or isinstance(rb, sp.Basic)) \
                            and (not (_tup(ra) and _tup(rb)) or len(ra) == len(rb)):
                        # several values returned together: one conditional over the tuple (as the callers read it)
                        self.ret = ITE(c, sp.Tuple(*ra) if isinstance(ra, tuple) else ra, sp.Tuple(*rb) if isinstance(rb, tuple) else rb)
                    else:
                        raise Undecided("conditional return of values that are not scalars")
                else:
                    self.ret = ITE(c, ra, rb)
            return
        if isinstance(st, ast.For):
            if st.orelse:
                # AUDIT: the else suite runs when the loop was not left by break: not modelled
                raise Undecided(f"for/else at line {st.lineno}")
            self.loop(st)
            self.generalise()
            return
        if isinstance(st, ast.While):
            if st.orelse:
                raise Undecided(f"while/else at line {st.lineno}")
            self.while_(st)
            return
        if isinstance(st, ast.Return):
            if self.loop_vars:
                # AUDIT: a return inside a loop ends the loop early (a search): the iterations are not independent
                raise Undecided(f"return inside a loop at line {st.lineno}")
            self.ret = self.ev(st.value) if st.value is not None else sp.S.NaN
            return
        if isinstance(st, ast.Assert):
            return
        # AUDIT: break / continue outside the lowered forms, with, try, raise, del, global, nonlocal, match, nested def / class
        raise Undecided(f"statement kind `{src(st)[:50]}`")

    def assign(self, t, val, value_node=None, self_update=False):
        if isinstance(t, ast.Name):
            if isinstance(val, Vec):
                pass        # a view stays a view; an arithmetic result is already frozen
            self.env[t.id] = val
        elif isinstance(t, ast.Subscript):
            base = self.ev(t.value)
            if not isinstance(base, Arr):
                raise Undecided(f"store into `{src(t)[:40]}`")
            items = t.slice.elts if isinstance(t.slice, ast.Tuple) else [t.slice]
            full = all(isinstance(x, ast.Slice) and x.lower is None and x.upper is None and x.step is None for x in items)
            if full:
                rank = getattr(base, "rank", None)
                if rank is not None and len(items) != rank:
                    raise Undecided(f"`{src(t)[:40]}`: {len(items)} subscripts for {rank} axes")
                if isinstance(val, (Vec, Arr)):
                    # AUDIT: the right-hand side is COPIED now: later stores into its operands do not change the target
                    v = _frozen(val)
                    vr = getattr(v, "rank", None)
                    n = len(items)

                    def gen(ix, v=v, vr=vr, n=n):
                        # a source of lower (known) rank is broadcast along the leading axes
                        if vr is not None and len(ix) >= vr:
                            return _elem(v, ix[len(ix) - vr:])
                        return _elem(v, ix)
                    base.set_all(gen)
                    return
                if _is_scalar(val):
                    # A[:, :] = c
                    base.set_all(lambda ix, c=val: c)
                    return
                raise Undecided(f"slice store `{src(t)[:40]}`")
            if any(isinstance(x, ast.Slice) for x in items):
                raise Undecided(f"slice store `{src(t)[:40]}`")
            idx = self.index(t.slice)
            if not isinstance(val, sp.Basic):
                raise Undecided(f"store of a non-scalar into `{src(t)[:40]}`")
            base.write(idx, val)
            key = base._norm(idx)
            if self_update or (value_node is not None and any(isinstance(n_, ast.Subscript) and src(n_) == src(t)
                                                              for n_ in ast.walk(value_node))):
                base.selfupd.add(key)
            else:
                base.selfupd.discard(key)
        elif isinstance(t, (ast.Tuple, ast.List)):
            if any(isinstance(x, ast.Starred) for x in t.elts):
                raise Undecided("starred assignment target")
            if isinstance(val, ShapeOf):
                rank = getattr(val.arr, "rank", None) if val.arr is not None else None
                if rank is not None and rank != len(t.elts):
                    raise Undecided("tuple assignment of a shape of another rank")
                val = tuple(val.dim(k) for k in range(len(t.elts)))
            if not isinstance(val, (tuple, list)) or len(val) != len(t.elts):
                raise Undecided("tuple assignment")
            for e, v in zip(t.elts, val):
                self.assign(e, v)
        else:
            # AUDIT: attribute targets, starred targets: not modelled
            raise Undecided(f"assignment target `{src(t)[:40]}`")

    def snapshot(self):
        env, memo = {}, {}
        for k, v in self.env.items():
            if isinstance(v, Arr):
                # two names of one array stay two names of one array
                if id(v) not in memo:
                    memo[id(v)] = v.copy()
                env[k] = memo[id(v)]
            else:
                env[k] = v
        return env

    def restore(self, snap):
        self.env, memo = {}, {}
        for k, v in snap.items():
            if isinstance(v, Arr):
                if id(v) not in memo:
                    memo[id(v)] = v.copy()
                self.env[k] = memo[id(v)]
            else:
                self.env[k] = v

    def merge(self, c, a, b):
        out = {}
        done = {}
        for k in set(a) | set(b):
            va, vb = a.get(k), b.get(k)
            if isinstance(va, Arr) or isinstance(vb, Arr):
                if not (isinstance(va, Arr) and isinstance(vb, Arr)):
                    if va is None or vb is None:
                        out[k] = va if isinstance(va, Arr) else vb       # defined on one arm only
                    else:
                        # AUDIT: an array on one arm and another kind of value on the other
                        out[k] = Poison("bound to an array on one arm of a conditional and to something else on the other")
                    continue
                if (id(va), id(vb)) in done:
                    out[k] = done[(id(va), id(vb))]
                    continue
                m = va.copy()
                if va.generic is not vb.generic:
                    ga = va.generic or (lambda ix, f=va.fn: f(*ix))
                    gb = vb.generic or (lambda ix, f=vb.fn: f(*ix))

                    def gen(ix, ga=ga, gb=gb, c=c):
                        return ITE(c, ga(ix), gb(ix))
                    m.generic = gen
                if getattr(va, "rank", None) != getattr(vb, "rank", None):
                    m.rank = None
                if getattr(va, "length", None) != getattr(vb, "length", None):
                    m.length = None
                for idx in set(va.cells) | set(vb.cells):
                    xa = va.cells[idx] if idx in va.cells else (va.generic(idx) if va.generic else va.fn(*idx))
                    xb = vb.cells[idx] if idx in vb.cells else (vb.generic(idx) if vb.generic else vb.fn(*idx))
                    m.cells[idx] = ITE(c, xa, xb)
                m.selfupd = set(getattr(va, "selfupd", ())) | set(getattr(vb, "selfupd", ()))
                done[(id(va), id(vb))] = m
                out[k] = m
            elif va is None or vb is None:
                out[k] = va if vb is None else vb        # defined on one arm only
            elif va is vb:
                out[k] = va
            elif isinstance(va, sp.Basic) and isinstance(vb, sp.Basic):
                out[k] = ITE(c, va, vb) if va != vb else va
            elif isinstance(va, (tuple, list)) and isinstance(vb, (tuple, list)) and len(va) == len(vb) \
                    and all(isinstance(x, sp.Basic) for x in list(va) + list(vb)):
                out[k] = tuple(ITE(c, x, y) if x != y else x for x, y in zip(va, vb))
            elif isinstance(va, Vec) and isinstance(vb, Vec):
                out[k] = lift(lambda x, y, c=c: ITE(c, x, y), va, vb, what="conditional whole-array value")
            else:
                # AUDIT: functions, tuples of other things, a scalar against an array: which one is bound depends on the condition
                out[k] = Poison("bound to different kinds of values on the two arms of a conditional")
        self.env = out

    # ------------------------------------------------------------ loops
    def _range_bounds(self, it, st):
        """AUDIT: range(n), range(a, b), range(a, b, 1) visit lo .. hi-1; range(a, b, -1) visits the SAME counters as
        range(b + 1, a + 1) in the opposite order - the execution below treats the iterations as an unordered set (point-wise stores
        and additive accumulations; everything carried from one iteration to the next is refused), so the order is immaterial.
        Any other step, keyword or star-expanded arguments: Undecided."""
        if it.keywords or any(isinstance(a, ast.Starred) for a in it.args) or not (1 <= len(it.args) <= 3):
            raise Undecided(f"`{src(it)[:40]}`: arguments of the range")
        args = [self.ev(a) for a in it.args]
        if not all(_is_scalar(a) for a in args):
            raise Undecided(f"`{src(it)[:40]}`: bounds of the range are not scalars")
        if len(args) == 1:
            return Integer(0), args[0]
        if len(args) == 2:
            return args[0], args[1]
        step = args[2]
        if step == 1:
            return args[0], args[1]
        if step == -1:
            return args[1] + 1, args[0] + 1
        raise Undecided(f"`{src(it)[:40]}`: a range with a step")

    def _iter_elems(self, node, v, st):
        """value of the element number v of an iterable in a loop header, and its length (None: not known)"""
        if isinstance(node, ast.Call) and isinstance(node.func, ast.Name) and node.func.id == "zip" and node.func.id not in self.env:
            if node.keywords or not node.args or any(isinstance(a, ast.Starred) for a in node.args):
                raise Undecided(f"loop over `{src(node)[:40]}`")
            parts = [self._iter_elems(a, v, st) for a in node.args]
            lens = [n for _, n in parts]
            # AUDIT: zip stops at the SHORTEST operand: the common length is known only when all lengths are the same expression
            if any(n is None for n in lens) or any(sp.simplify(n - lens[0]) != 0 for n in lens[1:]):
                raise Undecided(f"loop over `{src(node)[:40]}`: the operands are not known to have the same length")
            return tuple(x for x, _ in parts), lens[0]
        arr = self.ev(node)
        if isinstance(arr, Arr):
            rank = getattr(arr, "rank", None)
            if rank not in (None, 1):
                raise Undecided(f"loop over the rows of `{src(node)[:40]}`")
            return arr.read([v]), arr.dim(0)
        if isinstance(arr, Vec) and arr.rank == 1:
            return arr.f((v,)), None
        raise Undecided(f"loop over `{src(node)[:40]}`")

    def _bind_target(self, t, val, names):
        if isinstance(t, ast.Name):
            self.env[t.id] = val
            names.add(t.id)
            return
        if isinstance(t, (ast.Tuple, ast.List)) and isinstance(val, tuple) and len(val) == len(t.elts) \
                and not any(isinstance(x, ast.Starred) for x in t.elts):
            for x, y in zip(t.elts, val):
                self._bind_target(x, y, names)
            return
        raise Undecided("loop target")

    def loop(self, st: ast.For):
        it = st.iter
        # range(n) / range(a, b) / enumerate(arr)
        if isinstance(it, ast.Call) and isinstance(it.func, ast.Name) and it.func.id in ("range", "prange") and it.func.id not in self.env:
            lo, hi = self._range_bounds(it, st)
            if not isinstance(st.target, ast.Name):
                raise Undecided("loop target")
            v = Symbol(st.target.id, integer=True)
            self.env[st.target.id] = v
            self.body_once(st, v, lo, hi, {st.target.id})
            return
        if isinstance(it, ast.Call) and isinstance(it.func, ast.Name) and it.func.id == "enumerate" and "enumerate" not in self.env:
            if not it.args or len(it.args) > 2 or any(isinstance(a, ast.Starred) for a in it.args) \
                    or any(k.arg != "start" for k in it.keywords) or (len(it.args) == 2 and it.keywords):
                raise Undecided(f"loop over `{src(it)[:40]}`")
            start_node = it.args[1] if len(it.args) == 2 else (it.keywords[0].value if it.keywords else None)
            start = self.ev(start_node) if start_node is not None else Integer(0)
            if not _is_scalar(start) or not isinstance(st.target, ast.Tuple) or len(st.target.elts) != 2 \
                    or not isinstance(st.target.elts[0], ast.Name):
                raise Undecided("enumerate over non-array")
            iv, xv = st.target.elts
            v = Symbol(iv.id, integer=True)            # the COUNTER (starts at `start`)
            elem, n = self._iter_elems(it.args[0], v - start, st)
            if n is None:
                raise Undecided("enumerate over a value of unknown length")
            names = {iv.id}
            self.env[iv.id] = v
            self._bind_target(xv, elem, names)
            self.body_once(st, v, start, start + n, names)
            return
        if (isinstance(it, ast.Call) and isinstance(it.func, ast.Name) and it.func.id == "zip") or isinstance(it, (ast.Name, ast.Subscript)):
            # for x in arr / for x, y in zip(a, b): an index of its own
            nm = f"_k{st.lineno}"
            while nm in self.env:
                nm += "_"
            v = Symbol(nm, integer=True)
            elem, n = self._iter_elems(it, v, st)
            if n is None:
                raise Undecided(f"loop over `{src(it)[:40]}`: unknown length")
            names = set()
            self._bind_target(st.target, elem, names)
            self.body_once(st, v, Integer(0), n, names)
            return
        # AUDIT: any other iterable (np.ndindex, itertools.product, reversed, a list, a generator ...)
        raise Undecided(f"loop over `{src(it)[:40]}`")

    def body_once(self, st, v, lo, hi, bound_names=frozenset()):
        """execute the body once with the loop variable symbolic; cells whose key does not
        involve v and that are updated additively become sums.
        AUDIT: the iterations are treated as an unordered set.  This is sound when nothing is carried from one iteration to the next
        except additive accumulators: every scalar the body assigns is replaced on entry by a placeholder C; after the body its
        value must be C (untouched), C + d with d free of C (an accumulator: old + Sum d), or free of C (re-assigned in every
        iteration: the value of the last iteration); any other occurrence of C (in the scalar, in another value, in a cell: the
        scalar was read before it was written in the same iteration) is Undecided."""
        body = lower_continue(list(st.body))
        stored, inner_targets = set(), set()
        for s_ in body:
            for n_ in ast.walk(s_):
                if isinstance(n_, ast.Name) and isinstance(n_.ctx, ast.Store):
                    stored.add(n_.id)
                if isinstance(n_, ast.For):
                    inner_targets |= {x.id for x in ast.walk(n_.target) if isinstance(x, ast.Name)}
        stored -= inner_targets
        # reads of cells `name[...]` whose subscript does not mention the loop counter (see the cells section)
        fixed_reads = {n_.value.id for s_ in body for n_ in ast.walk(s_)
                       if isinstance(n_, ast.Subscript) and isinstance(n_.ctx, ast.Load) and isinstance(n_.value, ast.Name)
                       and not any(isinstance(x, ast.Name) and x.id in bound_names for x in ast.walk(n_.slice))}
        carries = {}
        for k in sorted(stored):
            if k in bound_names or k == str(v):
                continue
            old = self.env.get(k)
            if isinstance(old, sp.Basic):
                if _is_bool(old):
                    C = Symbol(f"_carry{next(_FRESH)}_{k}")
                else:
                    C = Symbol(f"_carry{next(_FRESH)}_{k}", integer=True) if old.is_integer else Symbol(f"_carry{next(_FRESH)}_{k}", real=True)
                carries[k] = (C, old)
                self.env[k] = C
        before = self.snapshot()
        self.loop_vars.append((v, lo, hi))
        LOOP_BOUNDS.append((v, lo))
        self.all_loop_syms = getattr(self, "all_loop_syms", set()) | {v}
        try:
            self.block(body)
        finally:
            self.loop_vars.pop()
            LOOP_BOUNDS.pop()
        if self.ret is not None:
            raise Undecided(f"return inside the loop at line {st.lineno}")
        after = self.env
        nonempty = sp.Lt(lo, hi)
        if (hi - lo).is_positive:
            nonempty = sp.true
        elif (hi - lo).is_nonpositive:
            nonempty = sp.false

        def last(expr, old):
            """value after the loop of something re-assigned (not accumulated) in every iteration"""
            lastv = safe_subs(expr, {v: hi - 1}) if v in expr.free_symbols else expr
            return ITE(nonempty, lastv, old)
        # ---- scalars
        csyms = {C for C, _ in carries.values()}
        for k, (C, old) in carries.items():
            val = after.get(k)
            if val is C or val == C:
                after[k] = old
                continue
            if not isinstance(val, sp.Basic):
                raise Undecided(f"`{k}` is a scalar before the loop at line {st.lineno} and another kind of value after it")
            if C not in val.free_symbols:
                if val.free_symbols & (csyms - {C}):
                    raise Undecided(f"`{k}` is computed from a scalar carried through the loop at line {st.lineno}")
                after[k] = last(val, old)
                continue
            if _is_bool(old) or _is_bool(val):
                raise Undecided(f"flag `{k}` is carried from one iteration to the next (loop at line {st.lineno})")
            d = _minus_carry(val, C)
            if d is None or d.free_symbols & csyms:
                raise Undecided(f"non-additive loop-carried scalar `{k}`")
            after[k] = old + make_sum(d, v, lo, hi)
        if csyms:
            def has_carry(x):
                return isinstance(x, sp.Basic) and bool(x.free_symbols & csyms)
            for k, val in after.items():
                bad = False
                if isinstance(val, sp.Basic):
                    bad = has_carry(val)
                elif isinstance(val, (tuple, list)):
                    bad = any(has_carry(x) for x in val)
                elif isinstance(val, Arr):
                    bad = any(has_carry(x) for key, x in val.cells.items() for x in list(key) + [x])
                    b = before.get(k)
                    if not bad and val.generic is not None and (not isinstance(b, Arr) or val.generic is not b.generic):
                        g = val.generic

                        def checked(ix, g=g, csyms=frozenset(csyms), name=val.name):
                            r = g(ix)
                            if isinstance(r, sp.Basic) and r.free_symbols & csyms:
                                raise Undecided(f"{name} holds a scalar carried from one loop iteration to the next")
                            return r
                        val.generic = checked
                if bad:
                    raise Undecided(f"a scalar of the loop at line {st.lineno} is read before it is written in the same iteration "
                                    f"(it reaches `{k}`): carried from one iteration to the next")
        # ---- cells
        # AUDIT: a cell written point-wise in this loop (key involves the counter) and the INITIAL content of another cell of the same
        # array, at a position that also moves with the counter, read in the loop: y[i] = y[i - 1] + x[i] is a recurrence (which
        # content is read depends on the order of the iterations), not a point-wise formula
        for k, val in list(after.items()):
            b = before.get(k)
            if isinstance(val, Arr) and isinstance(b, Arr) and b.generic is None:
                keys_v = [idx for idx in val.cells if idx not in b.cells and any(v in i.free_symbols for i in idx)]
                if not keys_v:
                    continue
                exprs = []
                for val2 in after.values():
                    if isinstance(val2, sp.Basic):
                        exprs.append(val2)
                    elif isinstance(val2, Arr):
                        for key2, x2 in val2.cells.items():
                            exprs.extend(list(key2) + [x2])
                for x2 in exprs:
                    if not x2.has(val.fn):
                        continue
                    for a_ in x2.atoms(AppliedUndef):
                        if a_.func == val.fn and v in a_.free_symbols and tuple(a_.args) not in keys_v:
                            raise Undecided(f"`{k}` is written at {list(keys_v[0])} in the loop at line {st.lineno} and its old content at "
                                            f"{list(a_.args)} is read there: a recurrence, not a point-wise formula")
        for k, val in list(after.items()):
            if isinstance(val, Arr):
                b = before.get(k)
                if isinstance(b, Arr) and val.generic is not b.generic and val.generic is not None:
                    # fully re-initialised inside the body: a per-iteration scratch array
                    stale = [idx for idx, expr in val.cells.items()
                             if not any(v in i.free_symbols for i in idx) and v in expr.free_symbols]
                    if stale:
                        fresh = Function(f"scratch_{val.name}_{st.lineno}")
                        val.cells = {}
                        val.generic = (lambda ix, fresh=fresh: fresh(*ix))
                        continue
                for idx, expr in list(val.cells.items()):
                    if any(v in i.free_symbols for i in idx):
                        continue       # pointwise cell
                    old = b.cells.get(idx) if isinstance(b, Arr) and idx in b.cells else None
                    if old is not None and old == expr:
                        continue
                    created = old is None
                    if old is None:
                        if v in expr.free_symbols:
                            # accumulation onto the cell's initial content (never initialised in this function)
                            if isinstance(b, Arr):
                                old = b.generic(idx) if b.generic is not None else b.fn(*idx)
                            else:
                                raise Undecided(f"cell {k}{list(idx)} written in a loop over {v} without being indexed by it")
                        else:
                            continue
                    if old.is_number and idx not in getattr(val, "selfupd", ()):
                        # AUDIT: with a NUMBER as the old content `expr - old` cannot tell `c = c + x` from `c = x`; the store was
                        # not written as an update of the cell itself: a plain store, the last iteration's value stays - unless
                        # the body reads cells of this array at positions fixed over the loop (the old content may reach the
                        # store through a local)
                        aliases = {n2 for n2, v2 in after.items() if v2 is val}
                        if aliases & fixed_reads:
                            raise Undecided(f"cell {k}{list(idx)} is stored in the loop at line {st.lineno} and cells of `{k}` at fixed "
                                            "positions are read there: accumulation or plain store is not told apart")
                        val.cells[idx] = last(expr, old)
                        continue
                    # the increment, with the subtraction pushed into the arms of conditionals (an update under a test)
                    d = _minus_ite(expr, old)
                    if old.free_symbols & d.free_symbols and _depends_on_expr(d, old):
                        raise Undecided(f"non-additive accumulation into {k}{list(idx)}")
                    val.cells[idx] = old + make_sum(d, v, lo, hi)

    def generalise(self):
        """after an outermost loop: an array whose only written cell is keyed by distinct loop
        symbols is written point-wise over its whole extent -> make that cell the generic one.
        AUDIT: 'its whole extent' is an assumption about the loop bounds (callers compare the generic cell with a specification of
        the cells the loops visit); the ranges are kept in `gen_domain` for callers that need them."""
        if self.loop_vars:
            return
        syms = getattr(self, "all_loop_syms", set())
        for k, val in self.env.items():
            if isinstance(val, Arr) and len(val.cells) == 1:
                (idx, expr), = val.cells.items()
                if all(isinstance(i, Symbol) and i in syms for i in idx) and len(set(idx)) == len(idx):
                    keys = tuple(idx)

                    def gen(ix, expr=expr, keys=keys):
                        return safe_subs(expr, dict(zip(keys, ix)))
                    val.generic = gen
                    val.cells = {}
                    getattr(val, "selfupd", set()).clear()

    def while_(self, st: ast.While):
        # idiom: while v < bound: v += step   /   while v > bound: v -= step
        # AUDIT: conditions of the form `a and b`, bodies of several statements, a bound or step that involves v: not this idiom
        if len(st.body) == 1 and isinstance(st.body[0], ast.AugAssign) and isinstance(st.body[0].target, ast.Name) \
                and isinstance(st.test, ast.Compare) and len(st.test.ops) == 1 and isinstance(st.test.left, ast.Name) \
                and st.test.left.id == st.body[0].target.id and isinstance(st.body[0].op, (ast.Add, ast.Sub)):
            name = st.test.left.id
            v = self.ev(st.test.left)
            bound = self.ev(st.test.comparators[0])
            step = self.ev(st.body[0].value)
            if not (_is_scalar(v) and _is_scalar(bound) and _is_scalar(step)):
                raise Undecided("while loop on values that are not scalars")
            if any(isinstance(n_, ast.Name) and n_.id == name for x in (st.test.comparators[0], st.body[0].value) for n_ in ast.walk(x)):
                raise Undecided(f"while loop `{src(st.test)[:40]}`: the bound or the step depends on the shifted variable")
            if isinstance(st.body[0].op, ast.Sub):
                step = -step
            kind = {ast.Lt: 1, ast.LtE: 2, ast.Gt: 3, ast.GtE: 4}.get(type(st.test.ops[0]))
            if kind is None:
                raise Undecided("while condition")
            self.env[name] = WhileShift(v, Integer(kind), bound, step)
            return
        raise Undecided(f"while loop `{src(st.test)[:40]}` is not a recognised idiom")


def _depends_on_expr(d, old):
    """does d still contain `old` as a subexpression (non-additive update)?"""
    if old.is_Number:
        return False
    return d.has(old) if not old.is_Add else False


def _minus_ite(val, old):
    """val - old, pushed into the arms of conditionals whose condition does not involve `old`"""
    if isinstance(val, ITE) and not _is_bool(val.args[1]) and not _is_bool(val.args[2]) and (old.is_number or not val.args[0].has(old)):
        return ITE(val.args[0], _minus_ite(val.args[1], old), _minus_ite(val.args[2], old))
    return sp.expand(val - old)


def _minus_carry(val, C):
    """val - C with the subtraction pushed into the arms of conditionals; None when C remains"""
    if isinstance(val, ITE) and not (val.args[0].free_symbols & C.free_symbols if isinstance(C, sp.Basic) else False):
        a, b = _minus_carry(val.args[1], C), _minus_carry(val.args[2], C)
        if a is None or b is None:
            return None
        return ITE(val.args[0], a, b)
    if _is_bool(val):
        return None
    d = sp.expand(val - C)
    if isinstance(C, Symbol) and C in d.free_symbols:
        return None
    return d


def _has_continue(stmts):
    """a `continue` that belongs to the loop whose body `stmts` is part of"""
    for s_ in stmts:
        if isinstance(s_, ast.Continue):
            return True
        if isinstance(s_, ast.If) and (_has_continue(s_.body) or _has_continue(s_.orelse)):
            return True
        if isinstance(s_, (ast.With, ast.Try)) and any(isinstance(n_, ast.Continue) for n_ in ast.walk(s_)):
            return True
    return False


def lower_continue(stmts):
    """`continue` written out: `if c: A; continue` followed by REST is `if c: A else: REST`.
    AUDIT: exact for `continue` under if/else chains of the loop body; under with / try: Undecided."""
    if not _has_continue(stmts):
        return stmts
    out = []
    for k, s_ in enumerate(stmts):
        if isinstance(s_, ast.Continue):
            return out
        if isinstance(s_, ast.If) and (_has_continue(s_.body) or _has_continue(s_.orelse)):
            rest = stmts[k + 1:]
            body = lower_continue(list(s_.body) + (rest if not _ends_with_continue(s_.body) else []))
            orelse = lower_continue(list(s_.orelse) + (rest if not _ends_with_continue(s_.orelse) else []))
            new = ast.If(test=s_.test, body=body or [ast.Pass()], orelse=orelse)
            ast.copy_location(new, s_)
            ast.fix_missing_locations(new)
            out.append(new)
            return out
        if isinstance(s_, (ast.With, ast.Try)) and any(isinstance(n_, ast.Continue) for n_ in ast.walk(s_)):
            raise Undecided(f"`continue` inside a with / try block at line {s_.lineno}")
        out.append(s_)
    return out


def _ends_with_continue(stmts):
    return bool(stmts) and isinstance(stmts[-1], ast.Continue)


# --------------------------------------------------------------------------
# comparison
# --------------------------------------------------------------------------

def _boolean_ite(x):
    """a conditional whose arms are truth values (a flag assigned on the arms of an if)"""
    if not isinstance(x, ITE):
        return False
    return all(_is_bool(a) or isinstance(a, Symbol) and not (a.is_real or a.is_integer) or _boolean_ite(a) for a in x.args[1:]) \
        and any(_is_bool(a) or _boolean_ite(a) for a in x.args[1:])


def _canon_diff(d):
    """one representative of {c * d : c > 0}: the primitive part (e < 0 and 2 e < 0 are one atom)"""
    d = sp.expand(d)
    try:
        c, p = d.as_content_primitive()
        if c.is_positive and c != 1:
            d = sp.expand(p)
    except Exception:          # noqa: BLE001 - left as it is
        pass
    return d


def canon_rel(r):
    """canonicalise a relational to ('lt'|'le'|'eq', canonical expr, negated?)
    AUDIT: e < 0, 2 e < 0, -e > 0, not (-e <= 0) are ONE atom (the difference is reduced to its primitive part and to one sign),
    so that `consistent` relates them.  ('atom', r, False) is a FREE truth value: only for a Symbol (a flag) or the application of
    an uninterpreted function (a truth value read from an array, the same wherever it occurs).  A conditional with Boolean arms is
    not free (expanded by bool_atoms / bool_eval); anything else is Undecided."""
    if isinstance(r, sp.Not):
        k, c, n = canon_rel(r.args[0])
        return k, c, not n
    if isinstance(r, (sp.Lt, sp.StrictLessThan)):
        a, b, kind = r.lhs, r.rhs, "lt"
    elif isinstance(r, (sp.Le, sp.LessThan)):
        a, b, kind = r.lhs, r.rhs, "le"
    elif isinstance(r, (sp.Gt, sp.StrictGreaterThan)):
        a, b, kind = r.rhs, r.lhs, "lt"
    elif isinstance(r, (sp.Ge, sp.GreaterThan)):
        a, b, kind = r.rhs, r.lhs, "le"
    elif isinstance(r, sp.Eq):
        d = _canon_diff(r.lhs - r.rhs)
        if str(-d) < str(d):
            d = -d
        return "eq", d, False
    elif isinstance(r, sp.Ne):
        d = _canon_diff(r.lhs - r.rhs)
        if str(-d) < str(d):
            d = -d
        return "eq", d, True
    elif isinstance(r, Symbol) or isinstance(r, AppliedUndef) or r in (sp.true, sp.false):
        return "atom", r, False
    else:
        raise Undecided(f"condition `{str(r)[:80]}` is not a comparison, a flag or a combination of them")
    d = _canon_diff(a - b)      # a < b  <=>  d < 0
    nd = sp.expand(-d)
    if str(nd) < str(d):
        # d < 0 <=> nd > 0 <=> not (nd <= 0) ; d <= 0 <=> nd >= 0 <=> not (nd < 0)
        return ("le" if kind == "lt" else "lt"), nd, True
    return kind, d, False


def bool_atoms(c, acc):
    if isinstance(c, (sp.And, sp.Or, sp.Not)) and not (isinstance(c, sp.Not) and not isinstance(c.args[0], (sp.And, sp.Or, sp.Not, ITE))):
        for a in c.args:
            bool_atoms(a, acc)
    elif c in (sp.true, sp.false):
        pass
    elif isinstance(c, ITE):
        # a truth value chosen by a condition: (c and p) or (not c and q)
        for a in c.args:
            bool_atoms(a, acc)
    elif isinstance(c, BooleanFunction) and not isinstance(c, sp.Not):
        raise Undecided(f"condition `{str(c)[:80]}`")
    else:
        k, e, n = canon_rel(c)
        acc.add((k, e))


def bool_eval(c, val):
    if c is sp.true:
        return True
    if c is sp.false:
        return False
    if isinstance(c, sp.And):
        return all(bool_eval(a, val) for a in c.args)
    if isinstance(c, sp.Or):
        return any(bool_eval(a, val) for a in c.args)
    if isinstance(c, sp.Not) and isinstance(c.args[0], (sp.And, sp.Or, sp.Not, ITE)):
        return not bool_eval(c.args[0], val)
    if isinstance(c, ITE):
        return bool_eval(c.args[1], val) if bool_eval(c.args[0], val) else bool_eval(c.args[2], val)
    if isinstance(c, BooleanFunction) and not isinstance(c, sp.Not):
        raise Undecided(f"condition `{str(c)[:80]}`")
    k, e, n = canon_rel(c)
    v = val[(k, e)]
    return (not v) if n else v


def _ws_bounds(W):
    """(lower bounds, upper bounds) guaranteed by the exit condition of the shift loops that produced W"""
    v, kind, bound, step = W.args
    lo, hi = [], []
    if int(kind) in (1, 2):        # while v < B: v += s   ->  v >= B
        lo.append(bound)
    if int(kind) in (3, 4):        # while v > B: v -= s   ->  v <= B
        hi.append(bound)
    if isinstance(v, WhileShift):
        v0, k0, b0, s0 = v.args
        # first `while v < b0: v += w`, then `while v > B: v -= w` with w = B - b0 > 0: the result stays >= b0
        if int(kind) in (3, 4) and int(k0) in (1, 2) and sp.expand(step + (bound - b0)) == 0 and sp.expand(s0 - (bound - b0)) == 0:
            lo.append(b0)
        if int(kind) in (1, 2) and int(k0) in (3, 4) and sp.expand(step - (b0 - bound)) == 0 and sp.expand(s0 + (b0 - bound)) == 0:
            hi.append(b0)
    return lo, hi


def _forced(k, e):
    """truth value of the atom `e <k> 0` forced by the exit conditions of shift loops (or by e being a number), or None"""
    if k not in ("lt", "le", "eq"):
        return None
    if isinstance(e, sp.Basic) and e.is_number and e.is_comparable:
        return bool(e < 0) if k == "lt" else bool(e <= 0) if k == "le" else bool(e == 0)
    if k == "eq":
        return None
    for W in e.atoms(WhileShift):
        lo, hi = _ws_bounds(W)
        X = sp.expand(W - e)           # e = W - X
        if not X.has(W):
            if k == "lt" and any(sp.expand(X - b) == 0 for b in lo):
                return False           # W < lower bound
            if k == "le" and any(sp.expand(X - b) == 0 for b in hi):
                return True            # W <= upper bound
        Y = sp.expand(e + W)           # e = Y - W
        if not Y.has(W):
            if k == "lt" and any(sp.expand(Y - b) == 0 for b in hi):
                return False           # upper bound < W
            if k == "le" and any(sp.expand(Y - b) == 0 for b in lo):
                return True            # lower bound <= W
    return None


def consistent(val):
    """(e<0) implies (e<=0); (e==0) implies (e<=0) and not (e<0); exit conditions of shift loops.
    AUDIT: the atoms come from canon_rel, which has already identified scaled and negated forms (e < 0 / -e <= 0 / 2e < 0 are one
    key); here also e and -e under different keys (an `eq` whose sign was chosen independently)."""
    for (k, e), v in val.items():
        f = _forced(k, e)
        if f is not None and f != v:
            return False
    by = {}
    for (k, e), v in val.items():
        by.setdefault(e, {})[k] = v
    for e, d in by.items():
        if d.get("lt") and d.get("le") is False:
            return False
        if d.get("eq") and (d.get("lt") or d.get("le") is False):
            return False
        if d.get("eq") is False and d.get("lt") is False and d.get("le") is True:
            return False               # e <= 0, not e < 0, but e != 0
        ne = sp.expand(-e) if isinstance(e, sp.Basic) and not isinstance(e, (Symbol,)) and not _is_bool(e) else None
        dn = by.get(ne) if ne is not None and ne != e else None
        if dn:
            # -e under a key of its own: e < 0 and -e < 0 cannot both hold; e <= 0 and -e <= 0 force e == 0
            if d.get("lt") and (dn.get("lt") or dn.get("le")):
                return False
            if d.get("le") is False and dn.get("le") is False:
                return False
            if d.get("eq") is not None and dn.get("eq") is not None and d.get("eq") != dn.get("eq"):
                return False
            if d.get("eq") and (dn.get("lt") or dn.get("le") is False):
                return False
    return True


def collect_ites(e, acc):
    if isinstance(e, ITE):
        acc.append(e)
    for a in getattr(e, "args", ()):
        collect_ites(a, acc)


def resolve_ite(e, val):
    if isinstance(e, ITE):
        c = bool_eval(e.args[0], val)
        return resolve_ite(e.args[1] if c else e.args[2], val)
    if not getattr(e, "args", None):
        return e
    if not e.has(ITE):
        return e
    return e.func(*[resolve_ite(a, val) for a in e.args])


def _split_sums(e):
    """e = rest + sum_k Sum(term_k, limits_k)  ->  (rest, {limits: term})"""
    e = sp.expand(e)
    rest = 0
    sums = {}

    def canon(s_):
        # the NAME of a summation variable is immaterial: one name per nesting position
        ren = {lim[0]: Symbol(f"_sd{k}", integer=True) for k, lim in enumerate(s_.limits)
               if not str(lim[0]).startswith("_sd")}
        if not ren or any(Symbol(f"_sd{k}", integer=True) in s_.free_symbols for k in range(len(s_.limits))):
            return s_.limits, s_.function
        lims = tuple((ren.get(lim[0], lim[0]),) + tuple(b.xreplace(ren) for b in lim[1:]) for lim in s_.limits)
        return lims, _rename_bound(s_.function, set(ren.values())).xreplace(ren)
    for t in sp.Add.make_args(e):
        c, s_ = t.as_coeff_Mul()
        if isinstance(s_, sp.Sum):
            lims, f_ = canon(s_)
            sums[lims] = sums.get(lims, 0) + c * f_
        elif isinstance(t, sp.Sum):
            lims, f_ = canon(t)
            sums[lims] = sums.get(lims, 0) + f_
        else:
            rest += t
    return rest, sums


# operators whose sympy normal form is weak: two notations of one value are not recognised as equal (max(a, b) against a
# conditional, a % b against a - b floor(a / b), int() against floor) - a non-zero difference that contains them proves nothing
_WEAK_PAIRS = (({"mod"}, {"floor", "ceiling", "toint", "fmod", "trunc"}), ({"toint"}, {"floor", "ceiling", "trunc"}),
               ({"fmod"}, {"floor", "ceiling", "trunc", "Wrap"}), ({"Max", "Min", "Abs", "sign"}, {"ITE", "Piecewise", "Max", "Min", "Abs"}),
               ({"Wrap"}, {"mod", "floor"}))


def _heads(e):
    out = set()
    for a in sp.preorder_traversal(e):
        if isinstance(a, (sp.Function, sp.Max, sp.Min, sp.Abs, sp.Piecewise)) or isinstance(a, AppliedUndef):
            out.add(type(a).__name__ if not isinstance(a, AppliedUndef) else str(a.func))
    return out


def _writeout_differs(a, b):
    """the two sides with the symbolic limits of their sums set to small integers and every sum written out: True when they DIFFER
    as polynomials at one of the instances (a proof of difference: the instance is an admissible degree), False when they agree at
    every instance tried, None when a sum cannot be written out"""
    syms = set()
    for s_ in list(a.atoms(sp.Sum)) + list(b.atoms(sp.Sum)):
        for lim in s_.limits:
            for bnd in lim[1:]:
                syms |= bnd.free_symbols
    bound = _bound_vars(a) | _bound_vars(b)
    syms = sorted((s_ for s_ in syms - bound if s_.is_integer is not False), key=str)
    if len(syms) > 3:
        return None
    tried = 0
    for vals in ([1], [2], [3]) if len(syms) <= 1 else itertools.islice(itertools.product([1, 2, 3], repeat=len(syms)), 9):
        sub = dict(zip(syms, [Integer(x) for x in vals]))
        try:
            x, y = a.subs(sub), b.subs(sub)
            for _k in range(4):
                if not (x.has(sp.Sum) or y.has(sp.Sum)):
                    break
                x, y = x.doit(), y.doit()
            if x.has(sp.Sum) or y.has(sp.Sum):
                return None
            if x.has(sp.nan, sp.zoo, sp.oo) or y.has(sp.nan, sp.zoo, sp.oo):
                continue
            n = sp.expand(sp.fraction(sp.together(x - y))[0])
            tried += 1
            if n != 0 and sp.simplify(n) != 0:
                return True
        except Exception:      # noqa: BLE001
            return None
    return False if tried else None


def alg_equal(a, b):
    """polynomial identity after cross-multiplication (atoms: symbols and function applications);
    sums over the same range are compared summand-wise.
    THREE-VALUED: True = equal (proved); False = different (the cross-multiplied difference is a non-zero polynomial in independent
    atoms); None = not decided.  `not alg_equal(..)` keeps its old meaning "not shown equal".
    AUDIT of False: (1) with sums, a summand-wise difference may be a different ARRANGEMENT of the same sum (split range, shifted
    index, exchanged order): False only when the two sides written out at fixed small limits differ; (2) a difference that
    contains two notations of one operator (see _WEAK_PAIRS) proves nothing: None."""
    if a == b:
        return True
    if not (isinstance(a, sp.Basic) and isinstance(b, sp.Basic)):
        try:
            a, b = sp.sympify(a), sp.sympify(b)
        except Exception:      # noqa: BLE001
            return None
    if _is_bool(a) or _is_bool(b):
        return None
    has_sum = a.has(sp.Sum) or b.has(sp.Sum)
    if has_sum:
        ra, sa = _split_sums(a)
        rb, sb = _split_sums(b)
        if sa or sb:
            verdict = None
            if set(sa) == set(sb):
                parts = [alg_equal(ra, rb)] + [alg_equal(sa[k], sb[k]) for k in sa]
                if all(p is True for p in parts):
                    return True
            w = _writeout_differs(a, b)
            if w is True:
                return False
            return verdict
        # sums only occur inside products/functions: treat them as atoms below
    try:
        d = sp.together(a - b)
        n, _ = sp.fraction(d)
        n = sp.expand(n)
    except Exception:          # noqa: BLE001
        return None
    if n == 0:
        return True
    try:
        if sp.simplify(n) == 0:
            return True
    except Exception:          # noqa: BLE001
        return None
    if has_sum:
        w = _writeout_differs(a, b)
        return False if w is True else None
    if n.has(sp.tanh, sp.sinh, sp.cosh, sp.coth, sp.tan, sp.cot, sp.sec, sp.csc):
        # two notations of one elementary function (tanh against exponentials, tan against sin / cos)
        try:
            for form in (sp.exp, sp.cos):
                if sp.simplify(n.rewrite(form)) == 0:
                    return True
        except Exception:      # noqa: BLE001
            return None
    hs = _heads(n)
    for p, q in _WEAK_PAIRS:
        hp = hs & p
        if hp and (hs - hp) & q or len(hs & p & q) > 1:
            return None
    if n.has(sp.nan) or n.has(sp.zoo):
        return None
    return False


def sym_equal(a, b, max_atoms=10):
    """equality of two extracted expressions, conditionals by truth table -> (bool, witness)
    AUDIT of (False, witness): the witness is a truth assignment to the atomic conditions; it is a real case only when the atoms
    are independent up to what `consistent` knows.  Comparisons and flags are; a truth value read from a call / an array
    ('atom' that is not a Symbol) may be correlated with the others: a difference found with such atoms present is Undecided.
    A case in which the algebraic comparison does not decide makes the whole comparison Undecided (unless another case differs)."""
    atoms = set()
    ites = []
    collect_ites(a, ites)
    collect_ites(b, ites)
    for i in ites:
        bool_atoms(i.args[0], atoms)
    atoms = sorted(atoms, key=str)
    if len(atoms) > max_atoms:
        raise Undecided(f"{len(atoms)} atomic conditions")
    if not atoms:
        r = alg_equal(a, b)
        if r is None:
            raise Undecided("the algebraic comparison does not decide")
        return r, None
    opaque = [e_ for k_, e_ in atoms if k_ == "atom" and not isinstance(e_, Symbol)]
    open_case = None
    for bits in itertools.product([False, True], repeat=len(atoms)):
        val = dict(zip(atoms, bits))
        if not consistent(val):
            continue
        ra, rb = resolve_ite(a, val), resolve_ite(b, val)
        r = alg_equal(ra, rb)
        if r is None:
            open_case = val
            continue
        if not r:
            if opaque:
                raise Undecided(f"condition `{str(opaque[0])[:80]}` is outside the comparisons the case split understands")
            w = {f"{k}:{e}": v for (k, e), v in val.items()}
            return False, {"case": w, "code": str(ra)[:300], "spec": str(rb)[:300]}
    if open_case is not None:
        raise Undecided("the algebraic comparison does not decide one of the cases")
    return True, None


ANNOTATION_SOURCE: dict = {}     # function name -> reference FunctionDef whose annotations type un-annotated copies


def _ann_rank(ann):
    """'float[:,:]' -> 2, 'Final[float[:]]' -> 1; None when the annotation does not show the rank"""
    m_ = re.search(r"\[([:,\s]*:[:,\s]*)\]", ann)
    if m_:
        return m_.group(1).count(":")
    return None


def make_args(fn: ast.FunctionDef, arrays=(), funcs=None, scalars_real=True, overrides=None):
    """default symbolic bindings for the parameters of a kernel function
    AUDIT: a parameter is an array when its annotation has a subscript (pyccel style 'float[:,:]'; the rank is read from it), an
    integer / flag when annotated int / bool, a real otherwise.  *args / **kwargs / keyword-only parameters are not bound (reading
    them is `unknown name`: Undecided)."""
    args = {}
    funcs = funcs or {}
    overrides = overrides or {}
    ref = ANNOTATION_SOURCE.get(fn.name)
    refann = {a.arg: a.annotation for a in ref.args.args} if ref is not None else {}
    for a in fn.args.args:
        n = a.arg
        if n in overrides:
            args[n] = overrides[n]
            continue
        an = a.annotation if a.annotation is not None else refann.get(n)
        ann = src(an) if an is not None else ""
        if n in funcs:
            args[n] = funcs[n]
        elif n in arrays or "[" in ann:
            args[n] = Arr(n, rank=_ann_rank(ann) if "[" in ann else None)
        elif "int" in ann or "bool" in ann:
            args[n] = Symbol(n, integer=True)
        else:
            args[n] = Symbol(n, real=True)
    return args
