"""C16 - density is the velocity integral of the interpolated distribution."""
from __future__ import annotations

import ast

import sympy as sp
from sympy import Symbol

from ..core import src, AnalysisError
from .. import units as U
from ..symx import SymExec, make_args, Undecided, alg_equal, sym_equal
from ..kernels import SPLINE_HANDLERS, FEQ
from .. import agree, lints
from .C05 import density as density_index_spaces, orders
from .. import ispace as I


def merge_partial_views(fn0):
    """copy of the kernel in which a hoisted view `v = A[i, j]` of an array parameter (v assigned once, used only as `v[...]`
    inside the block that defines it) is written back at its uses as `A[i, j, ...]`: basic indexing of an ndarray with fewer
    indices than dimensions yields a view, and indexing the view completes the index tuple"""
    import copy
    fn = copy.deepcopy(fn0)
    params = {a.arg for a in fn.args.args}
    par = {}
    for n in ast.walk(fn):
        for c in ast.iter_child_nodes(n):
            par[c] = n
    stores = {}
    for n in ast.walk(fn):
        if isinstance(n, ast.Name) and isinstance(n.ctx, (ast.Store, ast.Del)):
            stores[n.id] = stores.get(n.id, 0) + 1
    done = True
    while done:
        done = False
        for blk in [getattr(n, f) for n in ast.walk(fn) for f in ("body", "orelse") if isinstance(getattr(n, f, None), list)]:
            for k, st in enumerate(blk):
                if not (isinstance(st, ast.Assign) and len(st.targets) == 1 and isinstance(st.targets[0], ast.Name)
                        and isinstance(st.value, ast.Subscript) and isinstance(st.value.value, ast.Name)
                        and st.value.value.id in params and stores.get(st.targets[0].id) == 1):
                    continue
                v = st.targets[0].id
                head = st.value.slice.elts if isinstance(st.value.slice, ast.Tuple) else [st.value.slice]
                if any(isinstance(x, (ast.Slice, ast.Starred)) for x in head) or \
                        not all(isinstance(x, (ast.Name, ast.Constant)) for x in head):
                    continue
                uses = [n for n in ast.walk(fn) if isinstance(n, ast.Name) and n.id == v and n is not st.targets[0]]
                later = {id(n) for s2 in blk[k + 1:] for n in ast.walk(s2)}
                # index variables must keep their value between the definition and the uses: not re-bound in the later statements
                rebound = {n.id for s2 in blk[k + 1:] for n in ast.walk(s2) if isinstance(n, ast.Name) and isinstance(n.ctx, ast.Store)}
                if not uses or not all(id(u) in later and isinstance(par.get(u), ast.Subscript) and par[u].value is u for u in uses) or \
                        any(isinstance(x, ast.Name) and x.id in rebound for x in head) or st.value.value.id in rebound:
                    continue
                for u in uses:
                    sub = par[u]
                    tail = sub.slice.elts if isinstance(sub.slice, ast.Tuple) else [sub.slice]
                    sub.value = ast.Name(id=st.value.value.id, ctx=ast.Load())
                    sub.slice = ast.Tuple(elts=[copy.deepcopy(x) for x in head] + list(tail), ctx=ast.Load())
                    par[sub.value] = sub
                    par[sub.slice] = sub
                del blk[k]
                done = True
                break
            if done:
                break
    return ast.fix_missing_locations(fn)


def _resolved(fn, e, depth=4):
    """expression with a plain local name replaced by its single definition in fn (a temporary), repeatedly"""
    while isinstance(e, ast.Name) and depth > 0:
        d_ = [n for n in ast.walk(fn) if isinstance(n, ast.Assign) and len(n.targets) == 1 and isinstance(n.targets[0], ast.Name)
              and n.targets[0].id == e.id]
        if len(d_) != 1:
            break
        e, depth = d_[0].value, depth - 1
    return e


def kernel_formula(chk, rel, name, perturbed):
    fn = chk.func(rel, name)
    args = make_args(fn, arrays=("rho",))
    fn = merge_partial_views(fn)
    ex = SymExec(fn, args, calls=dict(SPLINE_HANDLERS))
    try:
        ex.run()
    except Undecided as e:
        chk.ob("F3-density-sum", fn, name, None, f"kernel outside the extractable fragment: {e}", file=rel, func=name)
        return
    i, j, k, l = (Symbol(n, integer=True) for n in "ijkl")
    got = ex.env["rho"].read([i, j, k])
    q, g = args["quad_coeffs"].fn, args["grid"].fn
    nc = Symbol("n0_quad_coeffs", integer=True, positive=True)
    term = q(l) * (g(i, j, k, l) - (args["feq"].fn(i, l) if perturbed else 0))
    spec = sp.Sum(term, (l, 0, nc - 1))
    ok = alg_equal(got, spec)
    chk.ob("F3-density-sum", fn, "rho[i,j,k] = sum_l w_l (f[i,j,k,l]" + (" - f_eq[i,l])" if perturbed else ")"), ok,
           "density is the weighted sum over v of " + ("f minus the equilibrium of the same radius row" if perturbed else "f") if ok else
           f"extracted formula {str(got)[:200]} differs from the specification {spec}", file=rel, func=name,
           facts={"code": str(got)[:300], "spec": str(spec)})


def equilibrium_same_quadrature(chk):
    """the perturbed density is sum_l w_l (f - f_eq): the equilibrium goes through the same weights as f, so that the perturbed
    density of the equilibrium itself is exactly zero and the map stays the integral of one interpolant"""
    fn = chk.func(U.POISSON, "DensityFinder.getPerturbedRho")
    init = chk.func(U.POISSON, "DensityFinder.__init__")
    k = [c for c in ast.walk(fn) if isinstance(c, ast.Call) and isinstance(c.func, ast.Name) and c.func.id == "get_perturbed_rho"]
    ok, bad = None, None
    if len(k) == 1:
        texts = [src(_resolved(fn, a)) for a in k[0].args] + [src(_resolved(fn, kw.value)) for kw in k[0].keywords]
        ok = any("self._quad_coeffs" in t for t in texts) and any("self._fEq" in t for t in texts)
    else:
        # the equilibrium is subtracted some other way: whatever is subtracted must have been produced with the quadrature weights
        subs = [n for n in ast.walk(fn) if (isinstance(n, ast.AugAssign) and isinstance(n.op, ast.Sub)) or
                (isinstance(n, ast.BinOp) and isinstance(n.op, ast.Sub))]
        for sb in subs:
            rhs = sb.value if isinstance(sb, ast.AugAssign) else sb.right
            attrs = [a for a in ast.walk(rhs) if isinstance(a, ast.Attribute) and isinstance(a.value, ast.Name) and a.value.id == "self"]
            for a in attrs:
                defs = [n for n in ast.walk(init) if isinstance(n, ast.Assign) and src(n.targets[0]) == src(a)]
                if defs and not any("_quad_coeffs" in src(d.value) or "quad" in src(d.value) for d in defs):
                    bad = (f"`{src(sb)[:70]}` subtracts `{src(a)}`, which the constructor computes as `{src(defs[0].value)[:80]}` without the "
                           "quadrature weights: the velocity integral of the equilibrium taken another way (closed form, other rule) is "
                           "not the integral of the interpolated equilibrium, so the perturbed density of the equilibrium is not zero "
                           "and perturbations in the spline space are not integrated exactly")
    chk.pat("E3-equilibrium-same-quadrature", k[0] if k else fn, "get_perturbed_rho(rho, f_eq rows, f, weights)", bool(ok),
            "f and the tabulated equilibrium are combined with the same quadrature weights", bad, file=U.POISSON,
            func="DensityFinder.getPerturbedRho")


def run(chk):
    chk.explanation = (
        "Engine F: the density kernels compute rho[i,j,k] = sum_l w_l (f[i,j,k,l] - f_eq[i,l]) (resp. without f_eq) and "
        "feq_vector fills f_eq(r_i, v_j); engine C: the equilibrium table is [global r, global v], looked up with the global "
        "radial indices of the local block, and all kernel arguments indexed by one loop variable cover the same index range; "
        "the weights come from the interpolator of the v-spline, the dimension of the kernel's last axis; the quadrature "
        "computation does not mutate the basis' stored integrals. Exactness on the spline space is C09's numerical part and "
        "is not decided.")
    chk.assumptions += ["SplineInterpolator1D.get_quadrature_coefficients returns the weights of the spline's quadrature (C09)"]
    chk.in_file(U.PTOOLS)
    kernel_formula(chk, U.PTOOLS, "get_perturbed_rho", True)
    kernel_formula(chk, U.PTOOLS, "get_rho", False)
    # f_eq table contents
    fv = chk.func(U.INITF, "feq_vector")
    args = make_args(fv)
    ex = SymExec(fv, args, calls=dict(SPLINE_HANDLERS))
    try:
        ex.run()
        i, j = Symbol("i", integer=True), Symbol("j", integer=True)
        got = ex.env["surface"].read([i, j])
        spec = FEQ(args["r_vec"].fn(i), args["vPar"].fn(j), *[args[n] for n in ("CN0", "kN0", "deltaRN0", "rp", "Cti", "kti", "deltaRti")])
        ok = alg_equal(got, spec)
        chk.ob("F3-feq-table", fv, "surface[i,j] = f_eq(r_vec[i], vPar[j], ...)", ok,
               "row i of the table is the equilibrium at radius r_i" if ok else f"table entry is {got}", file=U.INITF, func="feq_vector")
    except Undecided as e:
        chk.ob("F3-feq-table", fv, "feq_vector", None, f"outside the extractable fragment: {e}", file=U.INITF, func="feq_vector")
    init = chk.func(U.POISSON, "DensityFinder.__init__")
    equilibrium_same_quadrature(chk)
    calls = [c for c in ast.walk(init) if isinstance(c, ast.Call) and isinstance(c.func, ast.Attribute) and c.func.attr == "feq_vector"]
    if len(calls) != 1:
        raise AnalysisError("C16: feq_vector call not found in DensityFinder.__init__")
    agree.check_roles(chk, U.POISSON, "DensityFinder.__init__", calls[0], [a.arg for a in fv.args.args],
                      {"self._fEq": "surface", "eta_grid[0]": "r_vec", "eta_grid[3]": "vPar"}, const_recv="constants")
    # index spaces (shared with C05)
    density_index_spaces(chk)
    # kernel argument roles at the two call sites
    for m, kname, table in (("getPerturbedRho", "get_perturbed_rho",
                             {"rho.getAllData()": "rho", "grid.getAllData()": "grid", "self._quad_coeffs": "quad_coeffs"}),
                            ("getRho", "get_rho", {"rho.getAllData()": "rho", "grid.getAllData()": "grid",
                                                   "self._quad_coeffs": "quad_coeffs"})):
        fn = chk.func(U.POISSON, f"DensityFinder.{m}")
        cs = [x for x in ast.walk(fn) if isinstance(x, ast.Call) and isinstance(x.func, ast.Name) and x.func.id == kname]
        if len(cs) != 1:
            raise AnalysisError(f"C16: expected one call of {kname} in DensityFinder.{m}, found {len(cs)}")
        c = cs[0]
        agree.check_roles(chk, U.POISSON, f"DensityFinder.{m}", c, [a.arg for a in chk.func(U.PTOOLS, kname).args.args], table)
        # the output argument is the whole storage of the density grid
        bb = agree.bind_call(c, [a.arg for a in chk.func(U.PTOOLS, kname).args.args]) or {}
        out = bb.get("rho")
        so = src(out) if out is not None else "?"
        oko = True if so == "rho.getAllData()" else None
        why = "the kernel writes the storage of the density grid itself"
        if oko is None and out is not None and so.startswith("rho.getAllData()"):
            rest = so[len("rho.getAllData()"):]
            if rest in (".real", ".imag") or rest.startswith("["):
                oko = False
                why = (f"the kernel writes `{so}`, a partial view of the density storage: for a complex density grid the "
                       "other part keeps whatever it held (e.g. the imaginary part left by the previous in-place Fourier transform), "
                       "so the grid no longer holds the velocity integral")
        elif oko is None:
            why = f"output argument `{so}` not recognised"
        chk.ob("E2-output-storage", out or c, f"{kname}: rho <- {so}", oko, why, file=U.POISSON, func=f"DensityFinder.{m}")
        if m == "getPerturbedRho":
            b = agree.bind_call(c, [a.arg for a in chk.func(U.PTOOLS, kname).args.args]) or {}
            fe = b.get("feq")
            fe_x = _resolved(fn, fe) if fe is not None else None
            tabs = {src(a) for a in ast.walk(fe_x) if isinstance(a, ast.Attribute) and isinstance(a.value, ast.Name)
                    and a.value.id == "self"} if fe_x is not None else set()
            okf = True if "self._fEq" in tabs else None
            whyf = "the equilibrium rows come from the precomputed table"
            if okf is None and tabs:
                okf = False
                whyf = (f"the equilibrium argument `{src(fe_x)[:60]}` is taken from {sorted(tabs)}, not from the table self._fEq that the "
                        "constructor fills with f_eq(r_i, v_j): what is subtracted is not the equilibrium on the quadrature points")
            elif okf is None:
                whyf = f"the equilibrium argument `{src(fe) if fe is not None else '?'}` is not recognised as rows of the table self._fEq"
            chk.ob("E2-argument-role", fe or c, f"{kname}: feq <- {src(fe) if fe is not None else '?'}", okf, whyf, file=U.POISSON,
                   func=f"DensityFinder.{m}")
    # weights: interpolator of the spline handed to the constructor, which the driver takes along v (= last axis)
    qc = [n for n in ast.walk(init) if isinstance(n, ast.Assign) and src(n.targets[0]) == "self._quad_coeffs"]
    okq = len(qc) == 1 and src(qc[0].value).replace(" ", "").replace("\n", "") == "SplineInterpolator1D(bspline).get_quadrature_coefficients()"
    badq = None
    if not okq and len(qc) == 1:
        v_ = qc[0].value
        # resolve a local interpolator: interp = SplineInterpolator1D(<x>); self._quad_coeffs = interp.get_quadrature_coefficients()
        if isinstance(v_, ast.Call) and isinstance(v_.func, ast.Attribute) and v_.func.attr == "get_quadrature_coefficients":
            recv = v_.func.value
            if isinstance(recv, ast.Name):
                d_ = [n for n in ast.walk(init) if isinstance(n, ast.Assign) and src(n.targets[0]) == recv.id]
                recv = d_[0].value if len(d_) == 1 else recv
            if isinstance(recv, ast.Call) and src(recv.func) == "SplineInterpolator1D" and (recv.args or recv.keywords):
                a0 = recv.args[0] if recv.args else recv.keywords[0].value
                if src(a0) == "bspline":
                    okq = True
                else:
                    badq = f"the weights come from an interpolator built on `{src(a0)}`, not on the constructor's v spline `bspline`"
    chk.pat("E3-weights-source", qc[0] if qc else init, "self._quad_coeffs", okq,
            "weights are the quadrature coefficients of the interpolator built on the constructor's spline", badq, file=U.POISSON,
            func="DensityFinder.__init__")
    O = orders(chk)
    amb = I.ambient_from_asserts(chk.func(U.POISSON, "DensityFinder.getPerturbedRho"))
    last = amb.get("grid", (None,))[-1]
    dfn = chk.func(U.DRIVER, "main")
    dc = [c for c in ast.walk(dfn) if isinstance(c, ast.Call) and isinstance(c.func, ast.Name) and c.func.id == "DensityFinder"]
    if len(dc) != 1:
        raise AnalysisError("C16: DensityFinder construction not found in fullSimulation.main")
    b = agree.bind_call(dc[0], ["degree", "bspline", "eta_grid", "constants"]) or {}
    sp_arg = b.get("bspline")
    sp_x = _resolved(dfn, sp_arg) if sp_arg is not None else None
    okd, whyd = None, f"the spline handed to DensityFinder, `{src(sp_arg) if sp_arg is not None else '?'}`, is not recognised as `<grid>.getSpline(<dimension>)`"
    if last is None:
        whyd = "the layout assertion of getPerturbedRho (which names the integration axis) was not found"
    elif isinstance(sp_x, ast.Call) and isinstance(sp_x.func, ast.Attribute) and sp_x.func.attr == "getSpline" and len(sp_x.args) == 1 \
            and not sp_x.keywords and isinstance(sp_x.args[0], ast.Constant) and isinstance(sp_x.args[0].value, int):
        okd = sp_x.args[0].value == last and src(sp_x.func.value) == "distribFunc"
        if sp_x.args[0].value == last and not okd:
            okd = None
            whyd = f"`{src(sp_x)}`: the grid `{src(sp_x.func.value)}` is not the distribution function of the driver"
        elif okd:
            whyd = f"the quadrature spline is the one of dimension {last} (v), the last axis of the layout the kernels assert"
        else:
            whyd = (f"the spline handed to DensityFinder is `{src(sp_x)}` (dimension {sp_x.args[0].value}) but the kernels integrate over the "
                    f"last axis of the asserted layout, dimension {last} (v): the weights belong to another coordinate")
    chk.ob("E3-weights-dimension", dc[0], src(dc[0])[:90], okd, whyd, file=U.DRIVER, func="main")
    # no mutation of the stored basis integrals while computing the weights
    imod = chk.mod(U.INTERP)
    gq = chk.func(U.INTERP, "SplineInterpolator1D.get_quadrature_coefficients")
    muts = lints.shared_state_mutations(gq, lambda s: s.endswith(".integrals") or s.endswith("._integrals"))
    chk.ob("G2-no-shared-mutation", gq, "get_quadrature_coefficients vs basis.integrals", not muts,
           "the stored basis integrals are only read (copies are modified)" if not muts else
           "; ".join(d for _, d in muts) + " - the next interpolator/DensityFinder built on the same spline gets wrong weights",
           file=U.INTERP, func="SplineInterpolator1D.get_quadrature_coefficients")
    chk.floor("F3-", 3)
    chk.floor("C-", 5)
    chk.floor("E2-argument-role", 10)
