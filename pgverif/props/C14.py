"""C14 - elliptic solver returns the per-mode Galerkin solution of the radial equation."""
from __future__ import annotations

import ast

import sympy as sp

from ..core import src, AnalysisError, parent, same_expr, contains
from .. import units as U
from ..symx import alg_equal
from .C05 import solver as solver_index_spaces

CLS = "DiffEqSolver"
QNC = "QuasiNeutralitySolver"


# =========================================================================================================
# private views of the code (shared with C15)
#
# The rules below are phrased on *expressions*: "the operator of mode I", "the offsets of the diagonals", "the number of
# quadrature points".  A refactoring that gives such an expression a name, hoists it out of a loop or moves it into a
# helper method does not change the expression the program evaluates.  Two devices recover it:
#   * flat_view: a private copy of a method in which calls of helper methods that the reference tree does not have
#     are written back in place (following the class hierarchy, callable arguments and `if/else` returns);
#   * Env.x: an expression with every local name replaced by its unique reaching definition (when that definition
#     dominates the use and nothing it reads is rebound in between).
# Both only produce a *view* used for recognition; the shared syntax trees are never modified.
# =========================================================================================================

def _store(chk):
    """the attribute dictionary of the underlying check (views of it - ViewedCheck, the silent proxy - share its caches)"""
    while "_chk" in chk.__dict__:
        chk = chk.__dict__["_chk"]
    return chk.__dict__


class _Silent:
    """the check with its obligations discarded: an analysis run for the facts it extracts (cached in the check), not for verdicts"""

    def __init__(self, chk):
        self.__dict__["_chk"] = chk

    def ob(self, *a, **k):
        return None

    def pat(self, *a, **k):
        return None

    def floor(self, *a, **k):
        return None

    def __getattr__(self, name):
        return getattr(self._chk, name)

    def __setattr__(self, name, value):
        setattr(self._chk, name, value)


def _clone(n):
    if isinstance(n, list):
        return [_clone(x) for x in n]
    if not isinstance(n, ast.AST):
        return n
    new = type(n)()
    for f in n._fields:
        if hasattr(n, f):
            setattr(new, f, _clone(getattr(n, f)))
    for a in ("lineno", "col_offset", "end_lineno", "end_col_offset"):
        if hasattr(n, a):
            setattr(new, a, getattr(n, a))
    return new


def _relink(root, par):
    for node in ast.walk(root):
        for ch in ast.iter_child_nodes(node):
            ch._parent = node
    root._parent = par


def _stmt_of(node):
    p = node
    while p is not None and not isinstance(p, ast.stmt):
        p = parent(p)
    return p


def _block_of(st):
    """(list, index) of the statement list that holds `st`"""
    p = parent(st)
    if p is None:
        return None, None
    for f in ("body", "orelse", "finalbody"):
        b = getattr(p, f, None)
        if isinstance(b, list):
            for k, x in enumerate(b):
                if x is st:
                    return b, k
    return None, None


def _own_exprs(st):
    """expression children evaluated by the statement itself (not those of nested statements)"""
    if isinstance(st, (ast.If, ast.While)):
        return [st.test]
    if isinstance(st, (ast.For, ast.AsyncFor)):
        return [st.iter]
    if isinstance(st, (ast.With, ast.AsyncWith)):
        return [i.context_expr for i in st.items]
    if isinstance(st, (ast.FunctionDef, ast.AsyncFunctionDef, ast.ClassDef, ast.Try)):
        return []
    return [c for c in ast.iter_child_nodes(st) if isinstance(c, ast.expr)]


def _walk_no_scopes(e):
    """nodes of an expression outside lambdas and comprehensions"""
    stack = [e]
    while stack:
        n = stack.pop()
        yield n
        if isinstance(n, (ast.Lambda, ast.ListComp, ast.SetComp, ast.DictComp, ast.GeneratorExp)):
            continue
        stack.extend(ast.iter_child_nodes(n))


def _params(fn):
    a = fn.args
    out = [x.arg for x in a.posonlyargs + a.args + a.kwonlyargs]
    if a.vararg:
        out.append(a.vararg.arg)
    if a.kwarg:
        out.append(a.kwarg.arg)
    return out


def _hierarchy(mod, cls):
    classes = {c.name: c for c in mod.tree.body if isinstance(c, ast.ClassDef)}
    out, seen, todo = [], set(), [cls]
    while todo:
        c = todo.pop(0)
        if c in seen or c not in classes:
            continue
        seen.add(c)
        out.append(classes[c])
        todo.extend(b.id for b in classes[c].bases if isinstance(b, ast.Name))
    return out


def _method(mod, cls, name):
    for c in _hierarchy(mod, cls):
        for m in c.body:
            if isinstance(m, ast.FunctionDef) and m.name == name and \
                    not any(src(d).endswith(".setter") for d in m.decorator_list):
                return c.name, m
    return None, None


def _reference_functions(rel):
    try:
        from .. import alpha
        return alpha.reference_functions(rel)
    except Exception:
        return set()


class _Sub(ast.NodeTransformer):
    def __init__(self, rename, subst):
        self.rename, self.subst = rename, subst

    def visit_Name(self, node):
        if node.id in self.subst and isinstance(node.ctx, ast.Load):
            return _clone(self.subst[node.id])
        if node.id in self.rename:
            node.id = self.rename[node.id]
        return node


def _is_ref_chain(e):
    """name / constant / attribute chain on a name: evaluating it twice or later gives the same object"""
    if isinstance(e, ast.Constant):
        return True
    while isinstance(e, ast.Attribute):
        e = e.value
    return isinstance(e, ast.Name)


def _has_return(stmts):
    for s in stmts:
        for n in ast.walk(s):
            if isinstance(n, ast.Return):
                return True
    return False


def _convert_returns(stmts, make, allow_none):
    """rewrite the tail `return v` of a straight-line / if-else body into `make(v)`; False when a return sits elsewhere"""
    if not stmts:
        return allow_none
    # `if c: ...; return a` followed by more statements is `if c: ...; return a` / `else: <the rest>`
    for k, st in enumerate(stmts[:-1]):
        if _has_return([st]):
            if isinstance(st, ast.If) and st.body and isinstance(st.body[-1], ast.Return) and not _has_return(st.body[:-1]) and \
                    not _has_return(st.orelse):
                st.orelse = list(st.orelse) + stmts[k + 1:]
                del stmts[k + 1:]
            break
    if _has_return(stmts[:-1]):
        return False
    last = stmts[-1]
    if isinstance(last, ast.Return):
        new = make(last.value)
        if new is None:
            stmts.pop()
        else:
            stmts[-1] = new
        return True
    if isinstance(last, ast.If) and _has_return([last]):
        if not last.orelse:
            return False
        return _convert_returns(last.body, make, allow_none) and _convert_returns(last.orelse, make, allow_none)
    if _has_return([last]):
        return False
    return allow_none


def _const_truth(e):
    """truth value of a test made of literals only (after an argument of a merged function was bound to a literal), else None"""
    if isinstance(e, ast.Constant):
        return bool(e.value)
    if isinstance(e, ast.UnaryOp) and isinstance(e.op, ast.Not):
        v = _const_truth(e.operand)
        return None if v is None else not v
    if isinstance(e, ast.BoolOp):
        vals = [_const_truth(v) for v in e.values]
        if isinstance(e.op, ast.And):
            return False if any(v is False for v in vals) else (True if all(v is True for v in vals) else None)
        return True if any(v is True for v in vals) else (False if all(v is False for v in vals) else None)
    if isinstance(e, ast.Compare) and len(e.ops) == 1 and isinstance(e.left, ast.Constant) and isinstance(e.comparators[0], ast.Constant):
        a, b = e.left.value, e.comparators[0].value
        op = e.ops[0]
        if isinstance(op, ast.Is):
            return a is b if (a is None or b is None or isinstance(a, bool) or isinstance(b, bool)) else None
        if isinstance(op, ast.IsNot):
            return a is not b if (a is None or b is None or isinstance(a, bool) or isinstance(b, bool)) else None
        if isinstance(op, ast.Eq):
            return a == b
        if isinstance(op, ast.NotEq):
            return a != b
    return None


class _Fold(ast.NodeTransformer):
    """branches decided by literals are replaced by the branch taken: `f(x, inverse=False)` written back in place is the body of
    f with the `if inverse:` branches resolved"""

    def visit_If(self, node):
        self.generic_visit(node)
        v = _const_truth(node.test)
        if v is None:
            return node
        taken = node.body if v else node.orelse
        return taken if taken else None

    def visit_IfExp(self, node):
        self.generic_visit(node)
        v = _const_truth(node.test)
        if v is None:
            return node
        return node.body if v else node.orelse


def _fold_constants(stmts):
    out = []
    for s_ in stmts:
        r = _Fold().visit(s_)
        if r is None:
            continue
        out += r if isinstance(r, list) else [r]
    return out


def flat_view(chk, rel, cls, meth):
    """private copy of `cls.meth` with the calls of helper methods (methods the reference tree does not have) expanded"""
    cache = _store(chk).setdefault("_c14_views", {})
    key = (rel, cls, meth)
    if key not in cache:
        # the definition `cls` runs: its own or the one it inherits from a base class of the module
        owner, fn0 = _method(chk.mod(rel), cls, meth)
        if fn0 is None or owner == cls:
            fn0 = chk.func(rel, f"{cls}.{meth}")
        else:
            # inherited: the normalised tree has the helper calls of the base class's method already written back with the base
            # class's own helpers, which is not what runs when `cls` overrides one of them; start again from the source text
            chk.func(rel, f"{owner}.{meth}")
            raw = _raw_method(chk.mod(rel), owner, meth)
            if raw is not None:
                raw._qual = getattr(fn0, "_qual", f"{owner}.{meth}")
                raw._parent = parent(fn0)
                fn0 = raw
        cache[key] = _flatten(chk, rel, fn0, cls)
    return cache[key]


def _raw_method(mod, owner, meth):
    """the method as written in the source file (no normalisation), or None"""
    try:
        tree = ast.parse(mod.src)
    except SyntaxError:
        return None
    for c in tree.body:
        if isinstance(c, ast.ClassDef) and c.name == owner:
            for m in c.body:
                if isinstance(m, ast.FunctionDef) and m.name == meth and not any(src(d).endswith(".setter") for d in m.decorator_list):
                    return m
    return None


def flat_function(chk, rel, name):
    """private copy of a plain function with the calls of its local functions and of new module-level helpers expanded"""
    cache = _store(chk).setdefault("_c14_views", {})
    key = (rel, None, name)
    if key not in cache:
        cache[key] = _flatten(chk, rel, chk.func(rel, name), None)
    return cache[key]


def _flatten(chk, rel, fn0, cls):
    mod = chk.mod(rel)
    fn = _clone(fn0)
    fn._qual = getattr(fn0, "_qual", fn0.name)
    _relink(fn, parent(fn0))
    ref = _reference_functions(rel)
    classes = {c.name for c in _hierarchy(mod, cls)} if cls else set()
    skip = set()
    count = [0]

    def local_defs():
        out = {}
        stack = list(fn.body)
        while stack:
            x = stack.pop()
            if isinstance(x, ast.FunctionDef):
                out.setdefault(x.name, x)
                continue
            if isinstance(x, (ast.AsyncFunctionDef, ast.ClassDef)):
                continue
            for f in ("body", "orelse", "finalbody"):
                stack.extend(getattr(x, f, None) or [])
            for h_ in getattr(x, "handlers", None) or []:
                stack.extend(h_.body)
        return out

    def resolve(call):
        f = call.func
        if isinstance(f, ast.Name):
            h = local_defs().get(f.id)
            if h is None:
                h = next((x for x in mod.tree.body if isinstance(x, ast.FunctionDef) and x.name == f.id and x.name not in ref
                          and x is not fn0), None)
            if h is None or h.name == fn0.name:
                return None
            return h, True
        if not (isinstance(f, ast.Attribute) and isinstance(f.value, ast.Name)) or not cls:
            return None
        if f.value.id == "self":
            owner, h = _method(mod, cls, f.attr)
            explicit = False
        elif f.value.id in classes:
            owner, h = _method(mod, f.value.id, f.attr)
            explicit = True
        else:
            return None
        if h is None or f"{owner}.{h.name}" in ref or h is fn0 or h.name == fn0.name and owner == cls:
            return None
        return h, explicit

    def next_site():
        todo = list(fn.body)
        while todo:
            st = todo.pop(0)
            for e in _own_exprs(st):
                for n in _walk_no_scopes(e):
                    if isinstance(n, ast.Call) and id(n) not in skip:
                        r = resolve(n)
                        if r is not None:
                            return st, n, r
            nested = []
            if not isinstance(st, (ast.FunctionDef, ast.AsyncFunctionDef, ast.ClassDef)):
                for f in ("body", "orelse", "finalbody"):
                    nested += getattr(st, f, None) or []
                for h in getattr(st, "handlers", None) or []:
                    nested += h.body
            todo = nested + todo
        return None

    def splice(st, call, h, explicit):
        a = h.args
        if a.vararg or a.kwarg or a.kwonlyargs or a.posonlyargs or isinstance(st, ast.While):
            return False
        static = any(isinstance(d, ast.Name) and d.id == "staticmethod" for d in h.decorator_list)
        if any(not (isinstance(d, ast.Name) and d.id == "staticmethod") for d in h.decorator_list):
            return False
        params = [x.arg for x in a.args]
        actual = {}
        rest = params
        if not static and not explicit:
            if not params:
                return False
            actual[params[0]] = ast.Name(id="self", ctx=ast.Load())
            rest = params[1:]
        if len(call.args) > len(rest) or any(isinstance(x, ast.Starred) for x in call.args) or any(k.arg is None for k in call.keywords):
            return False
        for p, x in zip(rest, call.args):
            actual[p] = x
        for k in call.keywords:
            if k.arg not in rest or k.arg in actual:
                return False
            actual[k.arg] = k.value
        defaults = dict(zip(params[len(params) - len(a.defaults):], a.defaults))
        for p in rest:
            if p not in actual:
                if p not in defaults:
                    return False
                actual[p] = defaults[p]
        count[0] += 1
        tag = f"__h{count[0]}"
        body = _clone([s for s in h.body if not (isinstance(s, ast.Expr) and isinstance(s.value, ast.Constant))])
        if any(isinstance(n, (ast.FunctionDef, ast.AsyncFunctionDef, ast.ClassDef, ast.YieldFrom, ast.Global, ast.Nonlocal,
                              ast.Try, ast.With)) for s in body for n in ast.walk(s)):
            return False
        # a generator is written back only where a `for` statement iterates over its call: `for t in gen(a): B` runs the body of gen
        # with every `yield v` replaced by `t = v; B`
        is_gen = any(isinstance(n, ast.Yield) for s in body for n in ast.walk(s))
        if is_gen:
            ys = [n for s in body for n in ast.walk(s) if isinstance(n, ast.Yield)]
            ystmts = [n for s in body for n in ast.walk(s) if isinstance(n, ast.Expr) and isinstance(n.value, ast.Yield)]
            if not (isinstance(st, ast.For) and st.iter is call) or st.orelse or len(ys) != len(ystmts) or len(ys) != 1 or \
                    any(isinstance(n, (ast.Break, ast.Continue)) for s_ in st.body for n in ast.walk(s_)) or \
                    any(isinstance(n, ast.Return) for s in body for n in ast.walk(s)) or any(y.value is None for y in ys):
                return False
        stored = {n.id for s in body for n in ast.walk(s) if isinstance(n, ast.Name) and isinstance(n.ctx, ast.Store)}
        caller_names = {n.id for n in ast.walk(fn) if isinstance(n, ast.Name)} | set(_params(fn))
        rename, subst, pre = {}, {}, []
        for p in params:
            x = actual[p]
            if _is_ref_chain(x) and p not in stored:
                if isinstance(x, ast.Name):
                    if x.id != p:
                        rename[p] = x.id
                else:
                    subst[p] = x
            else:
                new = p if p not in caller_names else p + tag
                if new != p:
                    rename[p] = new
                pre.append(ast.Assign(targets=[ast.Name(id=new, ctx=ast.Store())], value=_clone(x)))
        for loc in stored - set(params):
            if loc in caller_names:
                rename[loc] = loc + tag
        if set(rename.values()) & (stored - set(rename)):
            return False
        body = [_Sub(rename, subst).visit(s) for s in body]
        if any(isinstance(v_, ast.Constant) for v_ in subst.values()):
            body = _fold_constants(body)
        # how the value is used
        blk, k = _block_of(st)
        if blk is None:
            return False
        keep_st = False
        if is_gen:
            def handover(v):
                tg = st.target
                if isinstance(tg, (ast.Tuple, ast.List)) and isinstance(v, (ast.Tuple, ast.List)) and len(tg.elts) == len(v.elts) and \
                        all(isinstance(e_, ast.Name) for e_ in tg.elts) and not any(isinstance(e_, ast.Starred) for e_ in v.elts) and \
                        not ({e_.id for e_ in tg.elts} & {n.id for x_ in v.elts for n in ast.walk(x_) if isinstance(n, ast.Name)}):
                    # no target is read by the values (the generator's locals were renamed apart): element by element
                    return [ast.Assign(targets=[_clone(t_)], value=x_) for t_, x_ in zip(tg.elts, v.elts)]
                return [ast.Assign(targets=[_clone(tg)], value=v)]

            def expand(stmts):
                out = []
                for s_ in stmts:
                    if isinstance(s_, ast.Expr) and isinstance(s_.value, ast.Yield):
                        out += handover(s_.value.value) + _clone(st.body)
                        continue
                    for f_ in ("body", "orelse", "finalbody"):
                        b_ = getattr(s_, f_, None)
                        if isinstance(b_, list) and b_ and isinstance(b_[0], ast.stmt):
                            setattr(s_, f_, expand(b_))
                    out.append(s_)
                return out
            body = expand(body)
            ok = True
        elif isinstance(st, ast.Expr) and st.value is call:
            ok = _convert_returns(body, lambda v: (ast.Expr(value=v) if isinstance(v, ast.Call) else None), True)
        elif isinstance(st, ast.Assign) and st.value is call:
            tg = st.targets
            ok = _convert_returns(body, lambda v: ast.Assign(targets=_clone(tg), value=v if v is not None else ast.Constant(value=None)), False)
        elif isinstance(st, ast.Return) and st.value is call:
            ok = True
            if not body or not isinstance(body[-1], ast.Return):
                body.append(ast.Return(value=ast.Constant(value=None)))
        else:
            tmp = "__v" + tag
            ok = _convert_returns(body, lambda v: ast.Assign(targets=[ast.Name(id=tmp, ctx=ast.Store())],
                                                             value=v if v is not None else ast.Constant(value=None)), False)
            keep_st = True
        if not ok:
            return False
        if keep_st:
            class R(ast.NodeTransformer):
                def visit_Call(self_, node):
                    if node is call:
                        return ast.Name(id=tmp, ctx=ast.Load())
                    return self_.generic_visit(node)
            for f in st._fields:
                v = getattr(st, f, None)
                if isinstance(v, ast.expr):
                    setattr(st, f, R().visit(v))
                elif isinstance(v, list) and v and isinstance(v[0], ast.expr):
                    setattr(st, f, [R().visit(x) for x in v])
                elif isinstance(v, list) and v and isinstance(v[0], ast.withitem):
                    for it in v:
                        it.context_expr = R().visit(it.context_expr)
        new = pre + body
        for s in new:
            for x in ast.walk(s):
                ast.copy_location(x, call)
        blk[k:k + 1] = new + ([st] if keep_st else [])
        return True

    if ref:
        for _ in range(60):
            site = next_site()
            if site is None:
                break
            st, call, (h, explicit) = site
            if not splice(st, call, h, explicit):
                skip.add(id(call))
            ast.fix_missing_locations(fn)
            _relink(fn, parent(fn0))
        # local functions whose every call has been written back are dead definitions
        for name, h in local_defs().items():
            if not any(isinstance(n, ast.Name) and n.id == name and isinstance(n.ctx, ast.Load) for n in ast.walk(fn)):
                blk, k = _block_of(h)
                if blk is not None and len(blk) > 1:
                    del blk[k]
        _relink(fn, parent(fn0))
    _expand_keyword_dict(fn)
    _relink(fn, parent(fn0))
    _hoist_walrus(fn)
    _relink(fn, parent(fn0))
    _propagate_flags(fn)
    _relink(fn, parent(fn0))
    return fn


def _expand_keyword_dict(fn):
    """`d = {'a': x, ..}` / `if T: d['b'] = y` / `f(.., **d)`: the keyword arguments of the call written out, per branch of the one
    `if` that adds entries (the statements from that `if` to the call are moved to the end of both of its branches: same order of
    execution on every path).  Conditions, all checked: the local is bound once, by a dict display with literal string keys; every
    other occurrence is a store `d['k'] = v` with a literal key, unconditional in the block of the call or directly in a branch of one
    `if` of that block (both between the display and the call), or the `**d` of that one call; the values are lambdas or literals
    (moving their evaluation to the call does not change them).  Anything else: the function is left as it is."""
    def literal(v):
        return isinstance(v, (ast.Lambda, ast.Constant)) or \
            (isinstance(v, (ast.List, ast.Tuple)) and all(isinstance(e_, ast.Constant) for e_ in v.elts))
    for call in [c for c in ast.walk(fn) if isinstance(c, ast.Call)]:
        stars = [k for k in call.keywords if k.arg is None]
        if len(stars) != 1 or not isinstance(stars[0].value, ast.Name) or any(isinstance(a, ast.Starred) for a in call.args):
            continue
        d = stars[0].value.id
        st = _stmt_of(call)
        blk, k = _block_of(st)
        if blk is None or not isinstance(st, (ast.Expr, ast.Assign)) or d in _params(fn):
            continue
        occ = [n for n in ast.walk(fn) if isinstance(n, ast.Name) and n.id == d]
        disp = [j for j, s_ in enumerate(blk[:k]) if isinstance(s_, ast.Assign) and len(s_.targets) == 1 and
                isinstance(s_.targets[0], ast.Name) and s_.targets[0].id == d]
        if len(disp) != 1:
            continue
        j = disp[0]
        dv = blk[j].value
        if not (isinstance(dv, ast.Dict) and all(isinstance(k_, ast.Constant) and isinstance(k_.value, str) for k_ in dv.keys)
                and all(literal(v_) for v_ in dv.values)):
            continue

        def store(s_):
            if isinstance(s_, ast.Assign) and len(s_.targets) == 1 and isinstance(s_.targets[0], ast.Subscript) and \
                    isinstance(s_.targets[0].value, ast.Name) and s_.targets[0].value.id == d and \
                    isinstance(s_.targets[0].slice, ast.Constant) and isinstance(s_.targets[0].slice.value, str) and literal(s_.value) \
                    and not any(isinstance(n, ast.Name) and n.id == d for n in ast.walk(s_.value)):
                return s_.targets[0].slice.value, s_.value
            return None
        accounted = {id(blk[j].targets[0]), id(stars[0].value)}
        base = dict(zip([k_.value for k_ in dv.keys], dv.values))
        branch_if, ok = None, True
        plain = []                      # (index, key, value) of the unconditional stores
        for i in range(j + 1, k):
            s_ = blk[i]
            if store(s_):
                accounted.add(id(s_.targets[0].value))
                plain.append((i,) + store(s_))
            elif isinstance(s_, ast.If) and any(isinstance(n, ast.Name) and n.id == d for n in ast.walk(s_)):
                if branch_if is not None or any(isinstance(n, ast.Name) and n.id == d for n in ast.walk(s_.test)):
                    ok = False
                    break
                branch_if = i
                for b_ in s_.body + s_.orelse:
                    if store(b_):
                        accounted.add(id(b_.targets[0].value))
        if not ok or {id(n) for n in occ} != accounted:
            continue

        def keywords(upto, extra):
            kw = dict(base)
            for i, key, v_ in plain:
                if i < upto:
                    kw[key] = v_
            for b_ in extra:
                if store(b_):
                    kw[store(b_)[0]] = store(b_)[1]
            for i, key, v_ in plain:
                if i >= upto:
                    kw[key] = v_
            return kw

        def written(c_, kw):
            named = {x.arg for x in c_.keywords if x.arg}
            if named & set(kw):
                return False            # a keyword given twice: TypeError at run time; not rewritten
            c_.keywords = [x for x in c_.keywords if x.arg is not None] + [ast.keyword(arg=a_, value=_clone(v_)) for a_, v_ in kw.items()]
            return True
        if set(x.arg for x in call.keywords if x.arg) & (set(base) | {key for _, key, _ in plain}):
            continue
        if branch_if is None:
            if not written(call, keywords(k, [])):
                continue
            drop = {id(blk[j])} | {id(blk[i]) for i, _, _ in plain}
            blk[:] = [s_ for s_ in blk if id(s_) not in drop]
        else:
            iff = blk[branch_if]
            tail = [t_ for t_ in blk[branch_if + 1:k + 1] if not store(t_)]
            if any(isinstance(n, (ast.FunctionDef, ast.ClassDef)) for t_ in tail for n in ast.walk(t_)):
                continue
            pos = [n for n in ast.walk(st)].index(call)
            new_branches = []
            for br_ in (iff.body, iff.orelse):
                cp = _clone(tail)
                c2 = [n for n in ast.walk(cp[-1])][pos]
                if not isinstance(c2, ast.Call) or not written(c2, keywords(branch_if, br_)):
                    new_branches = None
                    break
                new_branches.append([b_ for b_ in br_ if not store(b_)] + cp)
            if new_branches is None:
                continue
            iff.body, iff.orelse = new_branches
            drop = {id(blk[j])} | {id(blk[i]) for i, _, _ in plain} | {id(t_) for t_ in tail}
            blk[:] = [s_ for s_ in blk if id(s_) not in drop]
        ast.fix_missing_locations(fn)
        _relink(fn, parent(fn))
        return _expand_keyword_dict(fn)


def _hoist_walrus(fn):
    """`if (x := E) <op> c:` is `x = E` followed by `if x <op> c:` (the left operand of a comparison is evaluated first and
    unconditionally; for an `elif` the assignment lands at the top of the else block, which is where the test is evaluated).  Only
    this form; any other assignment expression stays where it is."""
    for _ in range(20):
        hit = None
        for st in ast.walk(fn):
            if isinstance(st, ast.If) and isinstance(st.test, ast.Compare) and isinstance(st.test.left, ast.NamedExpr) and \
                    isinstance(st.test.left.target, ast.Name):
                hit = st
                break
        if hit is None:
            return
        _relink(fn, parent(fn))
        blk, k = _block_of(hit)
        if blk is None:
            return
        ne = hit.test.left
        asg = ast.Assign(targets=[ast.Name(id=ne.target.id, ctx=ast.Store())], value=ne.value)
        hit.test.left = ast.Name(id=ne.target.id, ctx=ast.Load())
        for x in ast.walk(asg):
            ast.copy_location(x, hit)
        ast.copy_location(hit.test.left, hit)
        blk[k:k] = [asg]
        ast.fix_missing_locations(fn)


def _propagate_flags(fn):
    """`flag = True / False / None` set once at the top of a function (the bound argument of a merged sibling written back in place)
    and tested by `if flag:` / `x if flag else y`: the flag is replaced by its value and the decided branches are resolved"""
    stores = {}
    for n in ast.walk(fn):
        if isinstance(n, ast.Name) and isinstance(n.ctx, (ast.Store, ast.Del)):
            stores[n.id] = stores.get(n.id, 0) + 1
    params = set(_params(fn))
    flags = {}
    for st in fn.body:
        if isinstance(st, ast.Assign) and len(st.targets) == 1 and isinstance(st.targets[0], ast.Name) and isinstance(st.value, ast.Constant) \
                and (st.value.value is None or isinstance(st.value.value, bool)) and stores.get(st.targets[0].id) == 1 \
                and st.targets[0].id not in params:
            flags[st.targets[0].id] = st
    if not flags:
        return
    tested = {x.id for n in ast.walk(fn) if isinstance(n, (ast.If, ast.IfExp)) for x in ast.walk(n.test) if isinstance(x, ast.Name)}
    flags = {k: v for k, v in flags.items() if k in tested}
    if not flags:
        return
    subst = {k: v.value for k, v in flags.items()}
    body = [s_ for s_ in fn.body if not any(s_ is f_ for f_ in flags.values())]
    body = [_Sub({}, subst).visit(s_) for s_ in body]
    fn.body = _fold_constants(body) or [ast.Pass()]
    ast.fix_missing_locations(fn)


class Env:
    """reaching definitions of the local names of one function (flow-insensitive except for dominance and loops)"""

    def __init__(self, fn):
        self.fn = fn
        self.params = set(_params(fn))
        self.order = {}
        self.bind = {}          # name -> [(order, stmt, value or None)]
        self.attr_stores = []   # (order, stmt, text of the attribute rebound)
        self.mut = {}           # name -> [(order, stmt)]: element/slice stores and in-place updates through the name
        self.amb = set()
        self._number(fn.body)

    # -- construction
    def _add(self, name, st, value):
        self.bind.setdefault(name, []).append((self.order[id(st)], st, value))

    def _target(self, t, st, value):
        if isinstance(t, ast.Name):
            self._add(t.id, st, value)
        elif isinstance(t, (ast.Tuple, ast.List)):
            # `a, b = x, y` binds elementwise (unless a target is read on the right: a swap)
            vals = None
            if isinstance(value, (ast.Tuple, ast.List)) and len(value.elts) == len(t.elts) and \
                    not any(isinstance(e, ast.Starred) for e in list(t.elts) + list(value.elts)) and all(isinstance(e, ast.Name) for e in t.elts) \
                    and not ({e.id for e in t.elts} & {n.id for n in ast.walk(value) if isinstance(n, ast.Name)}):
                vals = value.elts
            if vals is None and value is not None and _is_view(value) and all(isinstance(e, ast.Name) for e in t.elts) and \
                    not ({e.id for e in t.elts} & {n.id for n in ast.walk(value) if isinstance(n, ast.Name)}):
                # `a, b = table[k]`: the names denote the elements of the stored tuple
                vals = [ast.Subscript(value=_clone(value), slice=ast.Constant(value=k), ctx=ast.Load()) for k in range(len(t.elts))]
            for k, e in enumerate(t.elts):
                self._target(e, st, vals[k] if vals is not None else None)
        elif isinstance(t, ast.Starred):
            self._target(t.value, st, None)
        elif isinstance(t, ast.Attribute):
            self.attr_stores.append((self.order[id(st)], st, src(t)))
        elif isinstance(t, ast.Subscript):
            b = t
            while isinstance(b, ast.Subscript):
                b = b.value
            if isinstance(b, ast.Name):
                self.mut.setdefault(b.id, []).append((self.order[id(st)], st))

    def _number(self, stmts):
        for s in stmts:
            self.order[id(s)] = len(self.order)
            if isinstance(s, ast.Assign):
                for t in s.targets:
                    self._target(t, s, s.value)
            elif isinstance(s, ast.AnnAssign) and s.value is not None:
                self._target(s.target, s, s.value)
            elif isinstance(s, ast.AugAssign):
                if isinstance(s.target, ast.Name) and isinstance(self.bind.get(s.target.id, [(0, 0, None)])[-1][2], ast.AST):
                    self.mut.setdefault(s.target.id, []).append((self.order[id(s)], s))
                self._target(s.target, s, None)
            elif isinstance(s, (ast.For, ast.AsyncFor)):
                self._target(s.target, s, None)
            elif isinstance(s, (ast.With, ast.AsyncWith)):
                for it in s.items:
                    if it.optional_vars is not None:
                        self._target(it.optional_vars, s, None)
            elif isinstance(s, (ast.Import, ast.ImportFrom)):
                for al in s.names:
                    self._add((al.asname or al.name).split(".")[0], s, None)
            elif isinstance(s, (ast.FunctionDef, ast.AsyncFunctionDef, ast.ClassDef)):
                self._add(s.name, s, None)
                continue
            elif isinstance(s, ast.Delete):
                for t in s.targets:
                    self._target(t, s, None)
            for e in _own_exprs(s):
                for n in ast.walk(e):
                    if isinstance(n, ast.NamedExpr):
                        self._target(n.target, s, None)
            for f in ("body", "orelse", "finalbody"):
                self._number(getattr(s, f, None) or [])
            for h in getattr(s, "handlers", None) or []:
                if h.name:
                    self._add(h.name, s, None)
                self._number(h.body)

    # -- queries
    def before(self, a, b):
        """statement a precedes statement b in program text order"""
        return self.order.get(id(_stmt_of(a)), -1) < self.order.get(id(_stmt_of(b)), -1)

    def _loops(self, st):
        out, p = [], parent(st)
        while p is not None and p is not self.fn:
            if isinstance(p, (ast.For, ast.AsyncFor, ast.While)):
                out.append(p)
            p = parent(p)
        return out

    def _inside(self, st, outer):
        p = st
        while p is not None and p is not self.fn:
            if p is outer:
                return True
            p = parent(p)
        return False

    def _dominates(self, d, use):
        cur = use
        while cur is not None and cur is not self.fn:
            blk, _ = _block_of(cur)
            if blk is not None and any(x is d for x in blk):
                return True
            cur = parent(cur)
            while cur is not None and cur is not self.fn and not isinstance(cur, (ast.stmt, ast.ExceptHandler)):
                cur = parent(cur)
            if isinstance(cur, ast.ExceptHandler):
                cur = parent(cur)
        return False

    def reaching(self, name, use):
        """("def", stmt, value) | ("opaque",) for parameters, globals, loop variables | ("amb",)"""
        bs = self.bind.get(name, [])
        if not bs:
            return ("opaque",)
        uo = self.order.get(id(use))
        if uo is None:
            return ("amb",)
        loops_u = self._loops(use)
        prior = [b for b in bs if b[0] < uo]
        if not prior:
            if name in self.params and not any(self._inside(b[1], L) or b[1] is L for b in bs for L in loops_u):
                return ("opaque",)
            return ("amb",)
        d = prior[-1]
        if d[2] is None:
            return ("opaque",)
        if not self._dominates(d[1], use):
            return ("amb",)
        for L in loops_u:
            if not self._inside(d[1], L) and any((self._inside(b[1], L) or b[1] is L) for b in bs):
                return ("amb",)
        if not _is_view(d[2]):
            # a computed value that is then updated in place through the name is no longer its defining expression
            for (o, s) in self.mut.get(name, []):
                if d[0] < o < uo or any(self._inside(s, L) and not self._inside(d[1], L) for L in loops_u):
                    return ("opaque",)
        return ("def", d[1], d[2])

    def _stale(self, dst, value, use0):
        do, uo = self.order[id(dst)], self.order[id(use0)]
        loops = [L for L in self._loops(use0) if not self._inside(dst, L)]

        def hit(o, s):
            return (do < o < uo) or any(self._inside(s, L) or s is L for L in loops)
        local = _bound_inside(value)
        for n in ast.walk(value):
            if isinstance(n, ast.Name) and n.id not in local:
                for (o, s, _) in self.bind.get(n.id, []):
                    if s is not dst and hit(o, s):
                        return True
            elif isinstance(n, ast.Attribute):
                t = src(n)
                for (o, s, text) in self.attr_stores:
                    if text == t and s is not dst and hit(o, s):
                        return True
        return False

    def x(self, node, stop=(), use=None):
        """the expression with local names replaced by their definitions; self.amb = names that could not be resolved uniquely"""
        use0 = use if use is not None else _stmt_of(node)
        self.amb = set()
        env = self

        def rec(e, at, depth):
            local = _bound_inside(e)

            class T(ast.NodeTransformer):
                def visit_Name(self_, n):
                    if not isinstance(n.ctx, ast.Load) or n.id in stop or n.id in local:
                        return n
                    r = env.reaching(n.id, at)
                    if r[0] == "opaque":
                        return n
                    if r[0] == "amb":
                        env.amb.add(n.id)
                        return n
                    _, dst, val = r
                    if depth > 12 or env._stale(dst, val, use0):
                        env.amb.add(n.id)
                        return n
                    return rec(_clone(val), dst, depth + 1)
            return T().visit(e)
        if use0 is None or id(use0) not in self.order:
            return _clone(node)
        return rec(_clone(node), use0, 0)

    def xs(self, node, stop=(), use=None):
        return src(self.x(node, stop, use))


def _is_view(e):
    """name, attribute chain or element/slice of one: an expression that denotes storage, not a freshly computed value"""
    while isinstance(e, (ast.Attribute, ast.Subscript)):
        e = e.value
    return isinstance(e, ast.Name)


def _bound_inside(e):
    """names bound by comprehensions / lambdas inside an expression"""
    out = set()
    for n in ast.walk(e):
        if isinstance(n, ast.comprehension):
            for t in ast.walk(n.target):
                if isinstance(t, ast.Name):
                    out.add(t.id)
        elif isinstance(n, ast.Lambda):
            out |= set(_params(n))
    return out


def env_of(chk, fn):
    cache = _store(chk).setdefault("_c14_envs", {})
    if id(fn) not in cache:
        cache[id(fn)] = (fn, Env(fn))
    return cache[id(fn)][1]


VIEWED = {f"{CLS}.getModes", f"{CLS}.findPotential", f"{CLS}.solveEquation", f"{CLS}.solveEquationForFunction", f"{QNC}.solveEquation",
          f"DensityFinder.getPerturbedRho", f"DensityFinder.getRho"}


class ViewedCheck:
    """the check, with fullSimulation.main and the entry points of the solver presented as their flat views (local helper
    functions / new helper methods written back at their calls): the layout typestate engine of C05 walks the statements of main
    and reads the layout asserts in the bodies of the entry points; it does not follow calls"""

    def __init__(self, chk):
        self.__dict__["_chk"] = chk

    def func(self, rel, q):
        if rel == U.DRIVER and q == "main":
            self._chk.func(rel, q)
            return flat_function(self._chk, rel, q)
        if rel == U.POISSON and q in VIEWED:
            return flat_view(self._chk, rel, *q.split("."))      # also resolves an inherited definition
        return self._chk.func(rel, q)

    def mod(self, rel):
        m = self._chk.mod(rel)
        return _ModuleView(self._chk, rel, m) if rel == U.POISSON else m

    def __getattr__(self, name):
        return getattr(self._chk, name)

    def __setattr__(self, name, value):
        setattr(self._chk, name, value)


class _ModuleView:
    """the module, with the class nodes presenting the flat views of the entry points (for code that walks class bodies to
    resolve inherited methods instead of asking the check for a function)"""

    def __init__(self, chk, rel, mod):
        self.__dict__.update(_chk=chk, _rel=rel, _mod=mod)

    def cls(self, name):
        node = self._mod.cls(name)
        body, have = [], set()
        for st in node.body:
            if isinstance(st, ast.FunctionDef) and f"{name}.{st.name}" in VIEWED and \
                    not any(src(d).endswith(".setter") for d in st.decorator_list):
                body.append(flat_view(self._chk, self._rel, name, st.name))
                have.add(st.name)
            else:
                body.append(st)
        for q in sorted(VIEWED):
            c, m = q.split(".")
            if c == name and m not in have and _method(self._mod, name, m)[1] is not None:
                body.append(flat_view(self._chk, self._rel, name, m))       # inherited, as this class runs it
        new = ast.ClassDef(name=node.name, bases=node.bases, keywords=node.keywords, body=body, decorator_list=node.decorator_list)
        ast.copy_location(new, node)
        new._parent = parent(node)
        new._qual = getattr(node, "_qual", name)
        return new

    def __getattr__(self, name):
        return getattr(self._mod, name)


# =========================================================================================================
# symbolic helpers
# =========================================================================================================

def _sym(e, table):
    """arithmetic expression -> sympy, every name/attribute/subscript an opaque symbol keyed by its source"""
    if isinstance(e, ast.Constant) and isinstance(e.value, (int, float)) and not isinstance(e.value, bool):
        return sp.nsimplify(e.value)
    if isinstance(e, ast.BinOp) and type(e.op) in (ast.Add, ast.Sub, ast.Mult, ast.Div, ast.Pow):
        a, b = _sym(e.left, table), _sym(e.right, table)
        return {ast.Add: a + b, ast.Sub: a - b, ast.Mult: a * b, ast.Div: a / b, ast.Pow: a ** b}[type(e.op)]
    if isinstance(e, ast.UnaryOp) and isinstance(e.op, ast.USub):
        return -_sym(e.operand, table)
    if isinstance(e, ast.UnaryOp) and isinstance(e.op, ast.UAdd):
        return _sym(e.operand, table)
    if isinstance(e, (ast.Name, ast.Attribute, ast.Subscript)):
        return table.setdefault(src(e), sp.Symbol("s%d" % len(table)))
    raise KeyError(src(e))


def _atomic(e):
    """is every leaf of the arithmetic expression a plain reference (name, attribute chain, element/slice by constants)?
    Only then do two different leaves denote different values"""
    if isinstance(e, ast.Constant):
        return True
    if isinstance(e, ast.BinOp):
        return _atomic(e.left) and _atomic(e.right)
    if isinstance(e, ast.UnaryOp):
        return _atomic(e.operand)
    while isinstance(e, (ast.Attribute, ast.Subscript)):
        if isinstance(e, ast.Subscript):
            idx = e.slice.elts if isinstance(e.slice, ast.Tuple) else [e.slice]
            for i_ in idx:
                parts = [i_.lower, i_.upper, i_.step] if isinstance(i_, ast.Slice) else [i_]
                for p_ in parts:
                    if p_ is None:
                        continue
                    if isinstance(p_, ast.UnaryOp) and isinstance(p_.op, ast.USub):
                        p_ = p_.operand
                    if not isinstance(p_, (ast.Constant, ast.Name)):
                        return False
        e = e.value
    return isinstance(e, ast.Name)


def arith_equal(code, spec_src):
    """True / False / None: the arithmetic expression `code` equals the expression written in `spec_src`; None when the
    code is not arithmetic over plain references"""
    try:
        spec = ast.parse(spec_src, mode="eval").body
        tb = {}
        b = _sym(spec, tb)
        known = set(tb)
        a = _sym(code, tb)
    except (KeyError, SyntaxError):
        return None
    if alg_equal(sp.expand(a), sp.expand(b)):
        return True
    # a different arithmetic over the same plain references is a different value; other references may denote the same thing
    return False if _atomic(code) and set(tb) <= known else None


# symbols of the element-wise model: Q[...] = sum over quadrature points of  weights*halfwidth*(...)
W, MF, X = sp.symbols("W MF X")
PHI0, PHI1, PSI0, PSI1 = sp.symbols("PHI0 PHI1 PSI0 PSI1")      # trial phi_{s_j} / test-row psi_i and derivatives
A_, B_, C_, D_, E_ = sp.symbols("A B C D E")                     # coefficient functions at the quadrature points

INTEGRAND_SYMS = {PHI0, PHI1, PSI0, PSI1, X, A_, B_, C_, D_, E_}

COEFF_FUNCS = {"ddrFactor": A_, "drFactor": B_, "rFactor": C_, "ddThetaFactor": D_, "rhoFactor": E_}


class WrongBasis(Exception):
    """an integrand evaluates a basis function that is neither the row nor the column function of the entry"""


def factor_table(sj="s_j", iv="i"):
    t = {
        "np.tile(self._weights, end - start)": W, "multFactor": MF, "self._multFactor": MF, "evalPts": X,
        # basis function values: the column (trial) function s_j and the row (test) function i
        ("basis", sj, 0): PHI0, ("basis", sj, 1): PHI1, ("basis", iv, 0): PSI0, ("basis", iv, 1): PSI1,
        ("names", sj, iv): None,
    }
    for k, v in COEFF_FUNCS.items():
        t[f"{k}(evalPts)"] = v
    return t


FACTOR_TABLE = factor_table()
# the vocabulary of the element-wise model: these locals are not expanded (each has its own rule)
ASSEMBLY_STOP = {"evalPts", "multFactor", "start", "end", "ddrFactor", "drFactor", "rFactor", "ddThetaFactor", "rhoFactor"}


class _TableLookup(ast.NodeTransformer):
    """[f(k) for k in range(n)][idx]  ->  f(idx): an element of a table built by a comprehension over its positions"""

    def visit_Subscript(self, node):
        self.generic_visit(node)
        v = node.value
        if isinstance(v, ast.ListComp) and len(v.generators) == 1 and not v.generators[0].ifs and isinstance(v.generators[0].target, ast.Name) \
                and not isinstance(node.slice, (ast.Slice, ast.Tuple)):
            it = v.generators[0].iter
            if isinstance(it, ast.Call) and src(it.func) == "range" and not it.keywords and \
                    (len(it.args) == 1 or (len(it.args) == 2 and src(it.args[0]) == "0")):
                return _Sub({}, {v.generators[0].target.id: node.slice}).visit(_clone(v.elt))
        return node


def to_sym(e, env, table=None):
    """arithmetic over the recognised factors -> sympy; np.sum(x) -> Q*x is handled by the caller"""
    table = FACTOR_TABLE if table is None else table
    s = src(e)
    if s in table:
        return table[s]
    if isinstance(e, ast.Call) and isinstance(e.func, ast.Attribute) and e.func.attr == "eval" and e.args and src(e.args[0]) == "evalPts" \
            and not e.keywords and len(e.args) <= 2 and isinstance(e.func.value, ast.Subscript) and src(e.func.value.value) == "self._rspline":
        der = 0
        if len(e.args) == 2:
            if not (isinstance(e.args[1], ast.Constant) and e.args[1].value in (0, 1)):
                raise KeyError(s)
            der = e.args[1].value
        idx = src(e.func.value.slice)
        if ("basis", idx, der) in table:
            return table[("basis", idx, der)]
        names = [k for k in table if isinstance(k, tuple) and k[0] == "names"]
        if names and all(arith_equal(e.func.value.slice, nm) is False for nm in names[0][1:]):
            raise WrongBasis(idx)
        raise KeyError(s)
    if isinstance(e, ast.Name) and e.id in env:
        return env[e.id]
    if isinstance(e, ast.BinOp):
        a, b = to_sym(e.left, env, table), to_sym(e.right, env, table)
        if isinstance(e.op, ast.Mult):
            return a * b
        if isinstance(e.op, ast.Add):
            return a + b
        if isinstance(e.op, ast.Sub):
            return a - b
        if isinstance(e.op, ast.Div):
            return a / b
    if isinstance(e, ast.UnaryOp) and isinstance(e.op, ast.USub):
        return -to_sym(e.operand, env, table)
    if isinstance(e, ast.Call) and src(e.func) in ("np.sum", "numpy.sum") and len(e.args) == 1 and not e.keywords:
        return to_sym(e.args[0], env, table)          # Q is linear: compare integrands
    if isinstance(e, ast.Call) and isinstance(e.func, ast.Attribute) and e.func.attr == "sum" and not e.args and not e.keywords:
        return to_sym(e.func.value, env, table)
    if isinstance(e, ast.Constant) and isinstance(e.value, (int, float)) and not isinstance(e.value, bool):
        return sp.nsimplify(e.value)
    raise KeyError(s)


BLOCKS = ("self._dPhidPsi", "self._dPhiPsi", "self._PhiPsi", "self._k2PhiPsi", "self._massMatrix")
LISTS = ("massCoeffs", "k2PhiPsiCoeffs", "PhiPsiCoeffs", "dPhidPsiCoeffs", "dPhiPsiCoeffs")


def _diags_call(v):
    while isinstance(v, ast.Subscript):       # restriction to the unknowns' rows/columns
        v = v.value
    if isinstance(v, ast.Call) and src(v.func).split(".")[-1] == "diags":
        return v
    return None


ROLE = dict(zip(("self._massMatrix", "self._k2PhiPsi", "self._PhiPsi", "self._dPhidPsi", "self._dPhiPsi"), LISTS))
SPARSE_CONVERT = ("tocsc", "tocsr", "tocoo", "asformat", "copy")
SPARSE_CTORS = ("csc_matrix", "csr_matrix", "coo_matrix", "csc_array", "csr_array")


def _matrix_source(v):
    """`M.tocsc()[...]` / `sparse.csc_matrix(M)[...]` -> the name M of a matrix filled entry by entry, else None"""
    while isinstance(v, ast.Subscript):
        v = v.value
    for _ in range(3):
        if isinstance(v, ast.Call) and isinstance(v.func, ast.Attribute) and v.func.attr in SPARSE_CONVERT and not isinstance(v.func.value, ast.Name):
            v = v.func.value
        else:
            break
    if isinstance(v, ast.Call) and isinstance(v.func, ast.Attribute) and v.func.attr in SPARSE_CONVERT and isinstance(v.func.value, ast.Name):
        return v.func.value.id
    if isinstance(v, ast.Call) and src(v.func).split(".")[-1] in SPARSE_CTORS and len(v.args) == 1 and isinstance(v.args[0], ast.Name):
        return v.args[0].id
    return None


def _band_of_matrix(c):
    """sparse.diags([np.diagonal(M, k) for k in R], R, ...) -> (M, R): the diagonals R of a dense matrix M of entries, put back on
    the offsets they were taken from; None for any other first argument"""
    lc = c.args[0] if c.args else None
    while isinstance(lc, ast.Call) and src(lc.func) in ("list", "tuple") and len(lc.args) == 1:
        lc = lc.args[0]
    if not (isinstance(lc, (ast.ListComp, ast.GeneratorExp)) and len(lc.generators) == 1 and not lc.generators[0].ifs
            and isinstance(lc.generators[0].target, ast.Name)):
        return None
    k = lc.generators[0].target.id
    e = lc.elt
    for _ in range(3):          # copies / conversions of the extracted diagonal
        if isinstance(e, ast.Call) and isinstance(e.func, ast.Attribute) and e.func.attr in ("copy", "astype") and not isinstance(e.func.value, ast.Name):
            e = e.func.value
        elif isinstance(e, ast.Call) and src(e.func) in ("np.array", "np.asarray", "np.copy", "np.ascontiguousarray", "numpy.array",
                                                         "numpy.asarray", "numpy.copy") and len(e.args) == 1:
            e = e.args[0]
        else:
            break
    M = None
    if isinstance(e, ast.Call) and src(e.func) in ("np.diagonal", "numpy.diagonal", "np.diag", "numpy.diag") and len(e.args) == 2 \
            and not e.keywords and isinstance(e.args[0], ast.Name) and src(e.args[1]) == k:
        M = e.args[0].id
    elif isinstance(e, ast.Call) and isinstance(e.func, ast.Attribute) and e.func.attr == "diagonal" and isinstance(e.func.value, ast.Name) \
            and len(e.args) == 1 and not e.keywords and src(e.args[0]) == k:
        M = e.func.value.id
    off = c.args[1] if len(c.args) > 1 else next((kw.value for kw in c.keywords if kw.arg == "offsets"), None)
    if M is None or off is None or src(off) != src(lc.generators[0].iter):
        return None
    return M, off


def containers(fn, env):
    """how each assembled block gets its entries: {block: (scheme, container name, assignment)} with scheme 'diags' (a list of
    diagonals handed to sparse.diags) or 'matrix' (a matrix written at [row, column] and converted)"""
    out = {}
    for n in ast.walk(fn):
        if isinstance(n, ast.Assign) and src(n.targets[0]) in BLOCKS:
            v = env.x(n.value, stop=set(LISTS), use=n) if env is not None else n.value
            c = _diags_call(v)
            if c is not None and c.args and isinstance(c.args[0], ast.Name):
                out[src(n.targets[0])] = ("diags", c.args[0].id, n)
                continue
            band = _band_of_matrix(c) if c is not None else None
            if band is not None:
                # sparse.diags([np.diagonal(M, k) for k in offsets], offsets): the band of a matrix M written at [row, column]
                out[src(n.targets[0])] = ("matrix", band[0], n, band[1])
                continue
            m = _matrix_source(v)
            if m is not None:
                out[src(n.targets[0])] = ("matrix", m, n)
    return out


def _created_empty(v):
    """a list of zero arrays / a zero or empty (sparse) matrix"""
    if isinstance(v, ast.ListComp):
        v = v.elt
    return isinstance(v, ast.Call) and src(v.func).split(".")[-1] in ("zeros", "lil_matrix", "dok_matrix", "lil_array", "dok_array", "zeros_like")


def block_lists(fn, env=None):
    """{block: name of the container (list of diagonals / matrix of entries) it is built from}"""
    return {b: c[1] for b, c in containers(fn, env).items()}


def block_vector(e, stiff=None):
    """matrix expression over the assembled blocks -> {block: coefficient}; self._stiffnessMatrix expands to `stiff`"""
    table = {}
    ex = sp.expand(_sym(e, table))
    inv = {v: k for k, v in table.items()}
    vec = {}
    for term in sp.Add.make_args(ex):
        c_, syms = term.as_coeff_mul()
        if len(syms) != 1 or syms[0] not in inv:
            raise KeyError(str(term))
        nm = inv[syms[0]]
        if nm == "self._stiffnessMatrix" and stiff is not None:
            for k, v in stiff.items():
                vec[k] = vec.get(k, 0) + c_ * v
        elif nm in BLOCKS:
            vec[nm] = vec.get(nm, 0) + c_
        else:
            raise KeyError(nm)
    return {k: v for k, v in vec.items() if v != 0}


def operator_blocks(chk):
    """coefficients of the blocks in DiffEqSolver's theta-independent operator, or None"""
    fn = flat_view(chk, U.POISSON, CLS, "__init__")
    env = env_of(chk, fn)
    d = [n for n in ast.walk(fn) if isinstance(n, ast.Assign) and src(n.targets[0]) == "self._stiffnessMatrix"]
    if len(d) != 1:
        return None
    try:
        return block_vector(env.x(d[0].value))
    except KeyError:
        return None


# =========================================================================================================
# assembly
# =========================================================================================================

DEG, NB = "self._rspline.degree", "self._rspline.nbasis"


def quadrature_order(chk, fn, env, narg, site):
    """Gauss-Legendre with n points is exact up to degree 2n-1: n must reach the requested degree for every degree"""
    q = f"{CLS}.__init__"
    ex = env.x(narg, use=_stmt_of(site))
    text = src(ex)
    ok, why = None, f"number of quadrature points `{text}` is not an integer expression of the requested degree"
    allowed_calls = {"min": min, "max": max, "int": int, "abs": abs}
    good = not env.amb
    pname = "__p"
    e2 = ast.parse(text, mode="eval")

    class R(ast.NodeTransformer):
        def visit_Attribute(self_, n):
            if src(n) in (DEG, "rspline.degree"):
                return ast.copy_location(ast.Name(id=pname, ctx=ast.Load()), n)
            return self_.generic_visit(n)
    e2 = ast.fix_missing_locations(R().visit(e2))
    for n in ast.walk(e2):
        if isinstance(n, ast.Name) and n.id not in ("degree", pname) and n.id not in allowed_calls:
            good = False
        elif isinstance(n, ast.Call) and not (isinstance(n.func, ast.Name) and n.func.id in allowed_calls and not n.keywords):
            good = False
        elif isinstance(n, (ast.Attribute, ast.Subscript, ast.Lambda, ast.ListComp, ast.GeneratorExp, ast.Await, ast.Yield)):
            good = False
    # AUDIT (VIOLATED below): true of the code when the argument of the one leggauss call was resolved without ambiguity to a closed
    # integer expression of the constructor's own `degree` argument and the spline degree (checked: `good`; anything else - other
    # names, calls, attributes - is undecided); the verdict is the arithmetic fact 2n - 1 < degree for a concrete degree
    if good:
        try:
            code = compile(e2, "<npoints>", "eval")
            worst = None
            for p in range(1, 6):
                for deg in range(0, 41):
                    n = eval(code, {"__builtins__": {}}, dict(allowed_calls, degree=deg, **{pname: p}))
                    if n != int(n) or 2 * int(n) - 1 < deg:
                        if worst is None:
                            worst = (deg, p, n)
            ok = worst is None
            if ok:
                why = (f"leggauss({text}): n points integrate polynomials of degree 2n-1 exactly and 2n-1 >= degree for every requested "
                       "degree (checked for degree 0..40, spline degrees 1..5)")
            else:
                deg, p, n = worst
                why = (f"the number of Gauss-Legendre points is `{text}`: for requested degree {deg} (spline degree {p}) this gives n={n}, "
                       f"exact only up to degree {2 * int(n) - 1 if n == int(n) else '?'} < {deg}: the quadrature no longer has the requested "
                       "exactness, so integrands with the coefficient functions A..E (which the `degree` argument accounts for) are "
                       "integrated with a lower order than asked for")
        except Exception as e:
            ok, why = None, f"number of quadrature points `{text}` could not be evaluated: {e}"
    chk.ob("F4-quadrature-order", site, f"leggauss({text})", ok, why, file=U.POISSON, func=q)


def assembly(chk):
    fn = flat_view(chk, U.POISSON, CLS, "__init__")
    env = env_of(chk, fn)
    q = f"{CLS}.__init__"
    # innermost assembly loop: `for j, s_j in enumerate(range(i, ...), degree)` or `for s_j in range(i, ...)`, the loop whose
    # statements store into the diagonal lists
    conts = containers(fn, env)
    scheme = {c[1]: c[0] for c in conts.values()}
    role = {}
    for b_, c_ in conts.items():
        role[c_[1]] = ROLE[b_] if c_[1] not in role else None       # a container feeding two blocks has no single role
    for nm_ in LISTS:
        role.setdefault(nm_, nm_)
        scheme.setdefault(nm_, "diags")

    def entry_target(t):
        """(container, 'diags' | 'matrix') of a store into an assembled container, else None"""
        if isinstance(t, ast.Subscript) and isinstance(t.value, ast.Subscript) and isinstance(t.value.value, ast.Name) \
                and scheme.get(t.value.value.id) == "diags":
            return t.value.value.id, "diags"
        if isinstance(t, ast.Subscript) and isinstance(t.value, ast.Name) and scheme.get(t.value.id) == "matrix" \
                and isinstance(t.slice, ast.Tuple) and len(t.slice.elts) == 2:
            return t.value.id, "matrix"
        return None
    loops = []
    for n in ast.walk(fn):
        if not isinstance(n, ast.For) or not any(isinstance(s_, ast.Assign) and any(entry_target(t_) for t_ in s_.targets) for s_ in n.body):
            continue
        it = env.x(n.iter)
        if isinstance(n.target, ast.Tuple) and len(n.target.elts) == 2 and all(isinstance(e, ast.Name) for e in n.target.elts) and \
                isinstance(it, ast.Call) and src(it.func) == "enumerate" and it.args and isinstance(it.args[0], ast.Call) \
                and src(it.args[0].func) == "range":
            loops.append((n, it, it.args[0], n.target.elts[0].id, n.target.elts[1].id))
        elif isinstance(n.target, ast.Name) and isinstance(it, ast.Call) and src(it.func) == "range":
            loops.append((n, it, it, None, n.target.id))
    if len(loops) != 1:
        raise AnalysisError("C14: assembly loop over the columns s_j of row i (stores into the lists of diagonals / the matrices of "
                            "entries the blocks are built from) not found")
    lp, it, rng, jn, sjn = loops[0]
    outer = parent(lp)
    iv = outer.target.id if isinstance(outer, ast.For) and isinstance(outer.target, ast.Name) else "i"
    UP = "j"
    LOW = "self._rspline.degree * 2 - j"
    spec = {
        ("massCoeffs", UP): W * MF * E_ * PHI0 * PSI0 * X,
        ("k2PhiPsiCoeffs", UP): W * MF * D_ * PHI0 * PSI0 * X,
        ("PhiPsiCoeffs", UP): W * MF * C_ * PHI0 * PSI0 * X,
        ("dPhidPsiCoeffs", UP): W * MF * (-A_) * PHI1 * PSI1 * X + W * MF * (-A_) * PHI1 * PSI0,
        ("dPhidPsiCoeffs", LOW): W * MF * (-A_) * PHI1 * PSI1 * X + W * MF * (-A_) * PHI0 * PSI1,
        ("dPhiPsiCoeffs", UP): W * MF * B_ * PHI1 * PSI0 * X,
        ("dPhiPsiCoeffs", LOW): W * MF * B_ * PHI0 * PSI1 * X,
    }
    # symmetric blocks: the mirrored entry, when it is written at all, is the same integral
    SYM = ("massCoeffs", "k2PhiPsiCoeffs", "PhiPsiCoeffs")
    for nm_ in SYM:
        spec[(nm_, LOW)] = spec[(nm_, UP)]
    what = {
        "massCoeffs": "mass = Q[E phi_j psi_i r]", "k2PhiPsiCoeffs": "k2 = Q[D phi_j psi_i r]",
        "PhiPsiCoeffs": "PhiPsi = Q[C phi_j psi_i r]",
        "dPhidPsiCoeffs": "dPhidPsi = Q[-A phi' psi' r] + Q[-A phi' psi] (A phi'' psi r integrated by parts, derivative of the "
                          "extra term on the trial/column function)",
        "dPhiPsiCoeffs": "dPhiPsi = Q[B phi' psi r] (derivative on the trial/column function)",
    }
    table = factor_table(sjn, iv)
    stop = ASSEMBLY_STOP | {jn, sjn, iv}
    wrong_basis = []
    seen = set()
    signs = {}              # role of the container -> +1 / -1 (stored with the opposite sign) / None (not established)
    resolved = {c_[1] for c_ in conts.values()}      # containers whose block is `diags(container, ...)[...]` / `container.tocsc()[...]`
    unkeyed = set()
    misplaced = []
    block_got = {}
    # entry L of a diagonal list is the diagonal of offset a + L of the block built by sparse.diags(list, range(a, b)); the counter
    # j of the loop is (start + k) for the column s_j = i + k: an upper entry needs a + L = k, its mirror image a + L = -k
    offsets = {}
    for n in ast.walk(fn):
        if isinstance(n, ast.Assign) and src(n.targets[0]) in BLOCKS:
            c = _diags_call(env.x(n.value, stop=set(LISTS), use=n))
            if c is not None and c.args and isinstance(c.args[0], ast.Name):
                off = c.args[1] if len(c.args) > 1 else next((k.value for k in c.keywords if k.arg == "offsets"), None)
                ox = off
                unresolved = ({x.id for x in ast.walk(ox) if isinstance(x, ast.Name)} & env.amb) if ox is not None else set()
                if isinstance(ox, ast.Call) and src(ox.func) == "range" and len(ox.args) in (1, 2) and not ox.keywords and not unresolved:
                    lo = ox.args[0] if len(ox.args) == 2 else ast.Constant(value=0)
                    offsets[c.args[0].id] = (lo, ox.args[-1], n)
    start = None
    if jn is not None:
        start = it.args[1] if len(it.args) > 1 else next((k.value for k in it.keywords if k.arg == "start"), ast.Constant(value=0))
    def judge(st, t, name, sch):
        cname = role.get(name) or name          # the role of the container: which block it becomes
        shift = None
        tb = {}
        if sch == "matrix":
            # an entry written at [row, column]: (i, s_j) is on the upper diagonal k = s_j - i, (s_j, i) is its mirror image
            r_, c_ = (env.x(e_, stop=stop, use=st) for e_ in t.slice.elts)
            place = f"{name}[{src(r_)}, {src(c_)}]"
            pos = (arith_equal(r_, iv), arith_equal(c_, sjn), arith_equal(r_, sjn), arith_equal(c_, iv))
            if pos[0] and pos[1]:
                diag = UP
            elif pos[2] and pos[3]:
                diag = LOW
            else:
                if cname in what:
                    shifted = False
                    try:
                        t2 = {}
                        dr, dc = (_sym(r_, t2) - _sym(ast.Name(id=iv, ctx=ast.Load()), t2), _sym(c_, t2) - _sym(ast.Name(id=sjn, ctx=ast.Load()), t2))
                        er, ec = (_sym(r_, t2) - _sym(ast.Name(id=sjn, ctx=ast.Load()), t2), _sym(c_, t2) - _sym(ast.Name(id=iv, ctx=ast.Load()), t2))
                        shifted = any(sp.expand(a_).is_number and sp.expand(b_).is_number for a_, b_ in ((dr, dc), (er, ec)))
                    except KeyError:
                        pass
                    # AUDIT: the position is wrong only relative to the reader of the matrix: the container -> block step was
                    # resolved (the matrix is converted as it is, its shape (nbasis, nbasis) is checked by the window analysis of
                    # F4-mode-operator) and the index is the row / column shifted by a literal number or an arithmetic expression
                    # of the loop variables alone; an offset by a name (a matrix assembled for a sub-range) is undecided
                    if (None not in pos or shifted) and name in resolved:
                        misplaced.append(cname)
                        chk.ob("F4-assembly-indexing", st, place, False,
                               f"the integral of row function {iv} and column function {sjn} is written at `[{src(r_)}, {src(c_)}]`, which is "
                               f"neither entry ({iv}, {sjn}) nor its mirror image ({sjn}, {iv}): the entries of this block are in the wrong "
                               "places", file=U.POISSON, func=q)
                    else:
                        unkeyed.add(cname)
                        chk.ob("F4-weak-form", st, place, None, f"entry position `[{src(r_)}, {src(c_)}]` not recognised", file=U.POISSON, func=q)
                return
            row = iv
            shown = f"{cname}[{'i, s_j' if diag == UP else 's_j, i'}]"
        else:
            dslice = env.x(t.value.slice, stop=stop, use=st)
            diag = src(dslice)
            if name in offsets:
                try:
                    # k = s_j - i, the distance of the column from the row: the counter minus its start, or the difference itself
                    if jn is not None:
                        kk = _sym(ast.Name(id=jn, ctx=ast.Load()), tb) - _sym(start, tb)
                    else:
                        kk = _sym(ast.Name(id=sjn, ctx=ast.Load()), tb) - _sym(ast.Name(id=iv, ctx=ast.Load()), tb)
                    L_, a_ = _sym(dslice, tb), _sym(offsets[name][0], tb)
                    e_up, e_low = sp.expand(a_ + L_ - kk), sp.expand(a_ + L_ + kk)
                    loopsyms = {tb[x] for x in (jn, sjn, iv) if x in tb}
                    if e_up == 0:
                        diag = UP
                    elif e_low == 0:
                        diag = LOW
                    elif _atomic(dslice) and _atomic(offsets[name][0]) and (start is None or _atomic(start)):
                        if not (e_up.free_symbols & loopsyms):
                            shift = ("k", e_up)
                        elif not (e_low.free_symbols & loopsyms):
                            shift = ("-k", e_low)
                except KeyError:
                    pass
            row = src(t.slice)
            shown = None
        key = (cname, diag)
        # AUDIT: list entry L lands on diagonal (first offset + L) of sparse.diags(list, range(first offset, ...)): writer (the list
        # index) and reader (the offsets of the very diags call this list is handed to, by name) are compared with each other; a
        # constant mismatch between them is a wrong diagonal whatever convention is used.  Only decided when index, offset and counter
        # start are plain references (`_atomic`)
        if shift is not None and cname in what:
            misplaced.append(cname)
            inv_ = {v: k for k, v in tb.items()}
            sh = str(shift[1].subs({v: sp.Symbol(k.replace("self._rspline.", "")) for v, k in inv_.items()}))
            chk.ob("F4-assembly-indexing", st, f"{cname}[{src(dslice)}][{row}]", False,
                   f"the integral of row {iv} and column {sjn} = {iv} + k is stored in list entry `{src(dslice)}`, which "
                   f"sparse.diags(..., range({src(offsets[name][0])}, ...)) places on the diagonal of offset {shift[0]} + ({sh}) instead of "
                   f"{shift[0]}: the entries of this block are on the wrong diagonals", file=U.POISSON, func=q)
            key = (cname, UP if shift[0] == "k" else LOW)       # the integrand is still judged
            diag = key[1]
        if key not in spec:
            if cname in what:
                unkeyed.add(cname)
                chk.ob("F4-weak-form", st, src(t), None, f"diagonal index `{diag}` not recognised", file=U.POISSON, func=q)
            return
        seen.add(key)
        val = _TableLookup().visit(env.x(st.value, stop=stop, use=st))
        try:
            got = to_sym(val, {}, table)
        except WrongBasis as e:
            wrong_basis.append((st, str(e)))
            chk.ob("F4-weak-form", st, src(t), None, f"integrand evaluates basis function `{e}`", file=U.POISSON, func=q)
            return
        except KeyError as e:
            chk.ob("F4-weak-form", st, src(t), None, f"integrand contains an unrecognised factor {e}", file=U.POISSON, func=q)
            return
        if row != iv:
            chk.ob("F4-weak-form", st, src(t), None, f"entry position `{row}` is not the row index `{iv}`", file=U.POISSON, func=q)
            return
        ok = alg_equal(sp.expand(got), sp.expand(spec[key]))
        if key in block_got and not alg_equal(block_got[key], sp.expand(got)):
            chk.ob("F4-weak-form", st, src(t), None, "the entry is written more than once with different integrands", file=U.POISSON, func=q)
            return
        block_got[key] = sp.expand(got)
        shown_ = shown or f"{cname}[{diag}][{row}]"
        # AUDIT (VIOLATED below): the diagnosis "the integrand differs from the weak form" is true of the code when (1) every factor
        # was recognised (else KeyError above), (2) the block is built from this container as it is (the container -> block step was
        # resolved: no factor applied where the block is built), (3) the difference is not a convention shared by both sides of the
        # equation: a block stored with the opposite sign or scaled by a constant (1/2 of a full-width `multFactor`, ...) is judged
        # relationally (F4-weak-form-operator compares operator and mass matrix with their signs; a scale is not followed: undecided)
        ratio = None
        if not ok:
            try:
                ratio = sp.simplify(sp.expand(got) / sp.expand(spec[key]))
            except Exception:
                ratio = None
        scalar = ratio is not None and ratio != 0 and not (ratio.free_symbols & INTEGRAND_SYMS)
        sgn = sp.Integer(1) if ok else (ratio if scalar else None)
        signs[cname] = sgn if signs.get(cname, sgn) == sgn else None
        if not ok and scalar:
            # a block stored with the opposite sign / a constant factor is a convention shared with the other side of the equation: the
            # assembled operator, the mass matrix and the coefficient of the k2 block are compared with one another
            # (F4-weak-form-operator, F4-mode-power)
            chk.ob("F4-weak-form", st, shown_, True, what[cname] + (" - stored with the opposite sign; the sign is " if ratio == -1 else
                                                                 f" - stored scaled by the constant {ratio}; the factor is ") +
                   "accounted for where the operator is assembled", file=U.POISSON, func=q)
            return
        if not ok and name not in resolved:
            chk.ob("F4-weak-form", st, shown_, None, f"integrand {sp.expand(got)} differs from the weak form {sp.expand(spec[key])}, but how the "
                   f"block is built from `{name}` was not resolved (a factor may be applied there)", file=U.POISSON, func=q)
            return
        chk.ob("F4-weak-form", st, shown_, ok, what[cname] if ok else
               f"integrand {sp.expand(got)} differs from the weak form {sp.expand(spec[key])} ({what[cname]})",
               file=U.POISSON, func=q, facts={"code": str(sp.expand(got)), "spec": str(sp.expand(spec[key]))})

    for st in lp.body:
        if isinstance(st, ast.Assign):
            for t in st.targets:
                et = entry_target(t)
                if et is not None:
                    judge(st, t, *et)
    # the functions integrated are the row function i and the column function s_j of the entry
    okf = bool(seen) and not unkeyed and not wrong_basis and len(block_got) == len(seen)
    bad = None
    # AUDIT: raised only for `self._rspline[<constant>].eval(...)`: an index that is arithmetic over no loop variable at all, hence
    # neither the row nor the column function; any other unknown index is an unrecognised factor (undecided)
    if wrong_basis:
        bad = (f"the entry of row {iv} and column {sjn} integrates basis function `{wrong_basis[0][1]}`, which is neither the row "
               f"function self._rspline[{iv}] nor the column function self._rspline[{sjn}]")
    chk.pat("F4-assembly-indexing", outer if isinstance(outer, ast.For) else lp, f"spline = self._rspline[{iv}]", okf,
            "the test function of every entry is basis function i (the row), the trial function basis function s_j (the column)", bad,
            file=U.POISSON, func=q)
    # the loop header: columns i .. i+degree of row i (the relation counter <-> diagonal is judged statement by statement above)
    ok_it = same_expr(rng, f"range({iv}, min({iv} + {DEG} + 1, {NB}))") and not unkeyed and bool(seen)
    bad = None
    # entries written by statements outside this loop (the diagonal handled on its own, a second pass, ...)
    elsewhere = {role.get(et_[0]) or et_[0] for n in ast.walk(fn) if isinstance(n, ast.Assign) and not any(n is s_ for s_ in lp.body)
                 for t_ in n.targets for et_ in [entry_target(t_)] if et_ is not None}
    # AUDIT: "the columns do not start at the row" leaves the main diagonal unwritten only when no other statement writes entries
    if len(rng.args) >= 2 and arith_equal(rng.args[0], iv) is False and not elsewhere and not unkeyed:
        bad = (f"the columns `{sjn}` start at `{src(rng.args[0])}` instead of the row `{iv}`: the upper diagonals no longer pair "
               f"row {iv} with columns {iv}..{iv}+degree")
    if not misplaced:
        chk.pat("F4-assembly-indexing", lp, src(it)[:100], ok_it,
                "columns s_j = i + k, k = 0..degree, of row i; every entry is stored in the list entry that sparse.diags places on "
                "diagonal k (and -k for the mirrored ones)", bad, file=U.POISSON, func=q)
    # the mirrored entries of the symmetric blocks need no statement of their own when the storage aliases them (judged below)
    missing = {k_ for k_ in set(spec) - seen if not (k_[0] in SYM and k_[1] == LOW)}
    if missing:
        # entries written by statements this rule did not key (other loop, other index form) cannot be judged.
        # AUDIT: "these diagonals stay zero" needs every way of filling the container to have been seen: its block was resolved, it is
        # only named where it is created, filled entry by entry in this loop, mirrored and handed to the block, and it is created empty
        by_cont = {v_: k_ for k_, v_ in role.items() if v_}

        def only_known_uses(nm):
            cont_ = by_cont.get(nm, nm)
            if cont_ not in resolved:
                return False
            for x in ast.walk(fn):
                if not (isinstance(x, ast.Name) and x.id == cont_):
                    continue
                st_ = _stmt_of(x)
                if st_ is None:
                    return False
                if any(st_ is s_ for s_ in lp.body) and isinstance(st_, ast.Assign) and any(entry_target(t_) for t_ in st_.targets):
                    continue                                            # an entry store of the loop
                if isinstance(st_, ast.Assign) and any(isinstance(t_, ast.Name) and t_.id == cont_ for t_ in st_.targets) and \
                        isinstance(x.ctx, ast.Store) and _created_empty(st_.value):
                    continue                                            # its creation
                if isinstance(st_, ast.Expr) and same_expr(st_.value, f"{cont_}.extend({cont_}[-2::-1])"):
                    continue                                            # the mirror aliases of a symmetric block
                if isinstance(st_, ast.Assign) and src(st_.targets[0]) in BLOCKS:
                    continue                                            # handed to the block
                return False
            return True
        decided = not any(nm in unkeyed or nm in elsewhere or nm in misplaced for nm, _ in missing) and all(role.get(c_) for c_ in role) \
            and all(only_known_uses(nm) for nm, _ in missing)
        chk.ob("F4-weak-form", lp, "assembly statements", False if decided else None,
               f"no assembly statement for {sorted(missing)}" + (": these diagonals stay zero" if decided else
                                                                  " in the recognised form (written elsewhere?)"), file=U.POISSON, func=q)
    # symmetric forms: lower diagonals are references to the upper ones, or the mirrored entry is written with the same integral
    by_role = {v_: k_ for k_, v_ in role.items() if v_ and scheme.get(k_) and k_ in {c_[1] for c_ in conts.values()}}
    for nm in SYM:
        cont = by_role.get(nm, nm)
        if scheme.get(cont) == "matrix":
            both = (nm, UP) in block_got and (nm, LOW) in block_got
            bad = None
            # AUDIT: "the lower entries stay zero" needs the block to be this matrix as it is (no symmetrisation where it is built)
            # and no other statement writing entries of it
            if (nm, UP) in seen and (nm, LOW) not in seen and nm not in unkeyed and cont in resolved and nm not in elsewhere:
                bad = (f"only the entries ({iv}, {sjn}) of `{cont}` are written: the entries below the diagonal of this symmetric block "
                       "stay zero, the matrix is not the symmetric form")
            chk.pat("F4-symmetric-storage", fn, f"{cont}[i, s_j] and {cont}[s_j, i]", both,
                    "the entry and its mirror image are written with the same (symmetric) integral", bad, file=U.POISSON, func=q)
            continue
        base = cont
        r_ = env.reaching(cont, lp)
        if r_[0] == "def" and isinstance(r_[2], ast.Name):
            base = r_[2].id                      # the list under the name it was built with
        ok = contains(fn, f"{base}.extend({base}[-2::-1])")
        bad = None
        if not ok and (nm, UP) in block_got and (nm, LOW) in block_got:
            ok = True                            # the lower diagonals are filled by their own statements (judged as entries)
        if not ok:
            defs = [n for n in ast.walk(fn) if isinstance(n, ast.Assign) and src(n.targets[0]) == cont]
            ext = [n for n in ast.walk(fn) if isinstance(n, ast.Call) and isinstance(n.func, ast.Attribute)
                   and src(n.func.value) == cont and n.func.attr in ("extend", "append", "insert")]
            aug = [n for n in ast.walk(fn) if isinstance(n, ast.AugAssign) and src(n.target) == cont]
            full = len(defs) == 1 and isinstance(defs[0].value, ast.ListComp) and \
                same_expr(env.x(defs[0].value.generators[0].iter, use=defs[0]), f"range(-{DEG}, {DEG} + 1)")
            # AUDIT: as above - the list is handed to the block as it is, nothing else fills or aliases its lower half
            if full and not ext and not aug and (nm, LOW) not in seen and nm not in unkeyed and (nm, UP) in seen and cont in resolved \
                    and nm not in elsewhere:
                bad = (f"`{cont}` is created with 2*degree+1 independent diagonals and the assembly fills only the upper ones: the lower "
                       "diagonals of this symmetric block stay zero, the matrix is not the symmetric form")
        chk.pat("F4-symmetric-storage", fn, f"{nm}.extend({nm}[-2::-1])", ok,
                "lower diagonals alias the upper ones (symmetric form filled once)", bad, file=U.POISSON, func=q)
    # quadrature points / half width
    quad = [n for n in ast.walk(fn) if isinstance(n, ast.Assign) and isinstance(n.value, ast.Call)
            and src(n.value.func).split(".")[-1] == "leggauss"]
    if len(quad) == 1 and len(quad[0].value.args) == 1 and not quad[0].value.keywords:
        tg = quad[0].targets[0]
        okl = isinstance(tg, ast.Tuple) and len(tg.elts) == 2 and src(tg.elts[0]) == "points" and src(tg.elts[1]) == "self._weights"
        bad = None
        # AUDIT: leggauss returns (points, weights) - a library fact; the names are roles here because the integrands (judged above
        # with `self._weights` as the weight factor) and the cell mapping (`points`) use them as such; only the exact exchange is reported
        if not okl and isinstance(tg, ast.Tuple) and len(tg.elts) == 2 and src(tg.elts[0]) == "self._weights" and src(tg.elts[1]) == "points":
            bad = "leggauss returns (points, weights): the weights are used as points and the points as weights"
        chk.pat("F4-quadrature-points", quad[0], "points, self._weights = leggauss(n)", okl,
                "reference Gauss-Legendre points and weights on [-1, 1]", bad, file=U.POISSON, func=q)
        quadrature_order(chk, fn, env, quad[0].value.args[0], quad[0])
    else:
        chk.ob("F4-quadrature-points", fn, "points, self._weights = leggauss(n)", None, "call of leggauss(n) not found", file=U.POISSON, func=q)
        chk.ob("F4-quadrature-order", fn, "leggauss(n)", None, "call of leggauss(n) not found", file=U.POISSON, func=q)
    half = "(self._rspline.breaks[1] - self._rspline.breaks[0]) * 0.5"
    items = []
    r = env.reaching("multFactor", lp)
    items.append(("multFactor", r[2] if r[0] == "def" else None, r[1] if r[0] == "def" else None, (), half,
                  "half width of a cell", "the quadrature weights are scaled by `{got}` instead of the half cell width (b1 - b0)/2: "
                  "every integral is off by a constant factor or wrong on non-matching cells"))
    ep = [n for n in ast.walk(fn) if isinstance(n, ast.Assign) and src(n.targets[0]) == "self._evalPts"]
    items.append(("self._evalPts", ep[0].value if len(ep) == 1 else None, ep[0] if len(ep) == 1 else None, ("startPoints", "points", "multFactor"),
                  "startPoints[:, None] + points[None, :] * multFactor", "cell midpoint + reference point x half width",
                  "the quadrature points are `{got}` instead of midpoint + reference point x half width: the integrands are sampled "
                  "at points that are not the Gauss-Legendre points of the cells"))
    if len(ep) == 1:
        r = env.reaching("startPoints", ep[0])
        items.append(("startPoints", r[2] if r[0] == "def" else None, r[1] if r[0] == "def" else None, (),
                      "(self._rspline.breaks[1:] + self._rspline.breaks[:-1]) * 0.5", "cell midpoints",
                      "the cell midpoints are `{got}` instead of (b[k+1] + b[k])/2: the quadrature points leave their cells"))
    # AUDIT: each of these values is one side of a contract with the integrands that use it (a full-width `multFactor` halved where
    # it is used is the same quadrature): a different value is a defect only when every integrand was found to use it exactly as
    # the weak form does (all entries matched up to sign)
    exact_use = bool(block_got) and not unkeyed and not wrong_basis and all(signs.get(k_[0]) in (1, -1) for k_ in block_got)
    for nm, val, at, stop_, spec_src, good_, bad_ in items:
        res, got = None, "?"
        if val is not None:
            ex = env.x(val, stop=stop_, use=at)
            got = src(ex)
            res = arith_equal(ex, spec_src) if not env.amb else None
            if res is False and not exact_use:
                res = None
        chk.pat("F4-quadrature-points", at if at is not None else fn, f"{nm} = {spec_src}", res, good_,
                bad_.format(got=got[:80]) if res is False else None, file=U.POISSON, func=q)
    # operator composition: the assembled theta-independent operator, block by block
    vec = operator_blocks(chk)
    lists = block_lists(fn, env)
    ok, why = None, "operator composition not extractable"
    sigma = None
    if vec is not None and all(a_ in lists for a_ in vec):
        # AUDIT (VIOLATED below): true of the code when the integrand of every block entering the operator was extracted (the upper
        # integrand stands for the mirrored one only for the symmetric blocks, whose lower diagonals alias the upper ones) and the
        # difference is not the common sign of the equation: -S phi = -M rho is the same system, so the sign of the operator is
        # compared with the sign the mass matrix is stored with
        ok = True
        parts = []
        sigmas = []
        for diag in (UP, LOW):
            tot = 0
            want = spec[("dPhidPsiCoeffs", diag)] + spec[("dPhiPsiCoeffs", diag)] + spec[("PhiPsiCoeffs", UP)]
            for a_, c_ in vec.items():
                ln_ = role.get(lists[a_]) or lists[a_]
                key = (ln_, diag) if ((ln_, diag) in block_got or ln_ not in SYM) else (ln_, UP)
                if key not in block_got:
                    ok = None
                    why = f"integrand of block {a_} not extracted"
                    break
                tot += c_ * block_got[key]
            if ok is None:
                break
            try:
                r_ = sp.simplify(sp.expand(tot) / sp.expand(want))
            except Exception:
                r_ = None
            if r_ is not None and r_ != 0 and not (r_.free_symbols & INTEGRAND_SYMS):
                sigmas.append(r_)
            else:
                ok = False
                parts.append(f"{'upper' if diag == UP else 'lower'} diagonals: {sp.expand(tot)} instead of {sp.expand(want)}")
        if ok and any(sp.simplify(x_ - sigmas[0]) != 0 for x_ in sigmas):
            ok = False
            parts.append(f"the upper diagonals carry {sigmas[0]} x the weak form and the lower ones {sigmas[1]} x")
        if ok:
            sigma = sigmas[0]
            s_m = signs.get("massCoeffs")
            why = ("sum over blocks (with their signs) of the assembled integrands = -A phi' psi' r - A phi' psi + B phi' psi r + C phi psi r "
                   f"on upper and lower diagonals; blocks {dict((k, str(v)) for k, v in vec.items())}")
            if s_m is not None and sp.simplify(s_m - sigma) == 0:
                if sigma != 1:
                    why = (f"the operator and the mass matrix are both stored as {sigma} x the weak form ({sigma} S phi = {sigma} M rho, the same "
                           "system): ") + why
            elif s_m is not None:
                ok = False
                why = (f"the assembled theta-independent operator is {sigma} x the weak form of A phi'' + B phi' + C phi while the mass matrix "
                       f"is stored as {s_m} x the mass form: the system solved is S phi = ({sp.simplify(s_m / sigma)}) M rho, the solution is "
                       "off by that factor")
            elif sigma != 1:
                ok, why = None, f"the operator is assembled as {sigma} x the weak form; the factor of the mass matrix was not established"
        elif ok is False:
            why = "the assembled theta-independent operator is not the weak form of A phi'' + B phi' + C phi: " + "; ".join(parts)
    _store(chk)["_c14_signs"] = {"sigma": sigma, "k2": signs.get("k2PhiPsiCoeffs"), "blocks": dict(signs)}
    chk.ob("F4-weak-form-operator", fn, "self._stiffnessMatrix = sum of blocks", ok, why, file=U.POISSON, func=q)
    # diagonals -> matrices: 2*degree+1 consecutive offsets (which list entry lands on which offset is part of F4-assembly-indexing)
    for n in ast.walk(fn):
        if not (isinstance(n, ast.Assign) and src(n.targets[0]) in BLOCKS):
            continue
        if conts.get(src(n.targets[0]), ("", "", None))[0] == "matrix" and conts[src(n.targets[0])][2] is n:
            ct = conts[src(n.targets[0])]
            if len(ct) > 3:
                # the band of the matrix of entries: the offsets kept must be -degree .. degree, where the assembly writes
                off = ct[3]
                okb, badb = None, None
                if isinstance(off, ast.Call) and src(off.func) == "range" and len(off.args) == 2 and not off.keywords:
                    lo_, hi_ = arith_equal(off.args[0], f"-{DEG}"), arith_equal(off.args[1], f"{DEG} + 1")
                    okb = bool(lo_ and hi_) or None
                    # AUDIT: a wider band only adds zero diagonals (harmless); entries are lost only when the band kept is provably
                    # narrower than -degree .. degree
                    try:
                        tb_ = {}
                        d_lo = sp.expand(_sym(off.args[0], tb_) + _sym(ast.parse(DEG, mode="eval").body, tb_))
                        d_hi = sp.expand(_sym(ast.parse(DEG, mode="eval").body, tb_) + 1 - _sym(off.args[1], tb_))
                        if d_lo.is_number and d_hi.is_number:
                            if d_lo > 0 or d_hi > 0:
                                badb = (f"the diagonals `{src(off)[:50]}` of the matrix of entries are kept; the assembly writes the diagonals "
                                        "-degree .. degree: entries are dropped from the block")
                            else:
                                okb = True
                    except KeyError:
                        pass
                chk.pat("F4-operator", n, f"{src(n.targets[0])} = sparse.diags(diagonals of <matrix of entries>, range(-d, d+1))", okb,
                        "the block is the band -degree .. degree of the matrix whose entries were written at their (row, column) positions: "
                        "every diagonal is put back on the offset it was taken from", badb, file=U.POISSON, func=q)
                continue
            chk.ob("F4-operator", n, f"{src(n.targets[0])} = <matrix of entries>.tocsc()", True,
                   "the block is the matrix whose entries were written at their (row, column) positions, converted to a sliceable format",
                   file=U.POISSON, func=q)
            continue
        c = _diags_call(env.x(n.value, stop=set(LISTS), use=n))
        okd = None
        if c is not None and c.args and isinstance(c.args[0], ast.Name) and c.args[0].id in offsets and offsets[c.args[0].id][2] is n:
            lo, hi, _ = offsets[c.args[0].id]
            okd = arith_equal(ast.BinOp(left=hi, op=ast.Sub(), right=lo), f"2 * {DEG} + 1") or None
        chk.pat("F4-operator", n, f"{src(n.targets[0])} = sparse.diags(..., range(-d, d+1))", okd,
                "the list of 2*degree+1 diagonals is placed on consecutive offsets", file=U.POISSON, func=q)


# =========================================================================================================
# per-mode solves
# =========================================================================================================

ENTRIES = ((CLS, "solveEquation", "_solveMode"), (CLS, "solveEquationForFunction", "_solveModeFunc"),
           (QNC, "solveEquation", "_solveMode"))
TABLES = ("self._mVals", "self._stiffness_range", "self._coeff_range")


NEUMANN_LISTS = ("lNeumannIdx", "uNeumannIdx")


class ModeTables:
    """which power of the mode number m the per-mode number tables of the solver hold, statement by statement of the
    constructor.  `self._mVals = <mode numbers>` holds m (power 1); `T *= T`, `T **= 2`, `self._X = T * T`, np.square(T) ...
    hold the corresponding power; any other modification makes the power unknown (None)."""

    ROOT = "self._mVals"

    def __init__(self, chk):
        self.fn = fn = flat_view(chk, U.POISSON, CLS, "__init__")
        self.env = env = env_of(chk, fn)
        self.hist = {}
        self.root_base, self.root_power = None, 1
        stmts = sorted((n for n in ast.walk(fn) if isinstance(n, ast.stmt) and id(n) in env.order), key=lambda n: env.order[id(n)])
        elementwise = {}
        for st in stmts:
            o = env.order[id(st)]
            nested = parent(st) is not fn
            lp = parent(st)
            if isinstance(lp, ast.For) and parent(lp) is fn and len(lp.body) == 1 and not lp.orelse and isinstance(lp.target, ast.Name) and \
                    isinstance(st, (ast.Assign, ast.AugAssign)):
                # `for k in range(n): T[k] = T[k] ** 2` over every position is the whole-table update `T **= 2`
                t = st.targets[0] if isinstance(st, ast.Assign) and len(st.targets) == 1 else getattr(st, "target", None)
                k_ = lp.target.id
                it = env.x(lp.iter, use=lp)
                if isinstance(t, ast.Subscript) and src(t.value) in self.hist and src(t.slice) == k_ and isinstance(it, ast.Call) and \
                        src(it.func) == "range" and len(it.args) == 1 and not it.keywords and \
                        src(it.args[0]).replace(" ", "") in ("nTheta", f"len({src(t.value)})", f"{src(t.value)}.size", f"{src(t.value)}.shape[0]"):
                    T = src(t.value)
                    prev = self.at(T, o)
                    val = env.x(st.value, stop={k_}, use=st)
                    others = [x for x in ast.walk(val) if isinstance(x, ast.Subscript) and src(x.value) in self.hist and src(x.slice) != k_]
                    new = None
                    if prev is not None and not others:
                        if isinstance(st, ast.Assign):
                            new = self.power(val, o)
                        elif isinstance(st.op, ast.Mult):
                            q = self.power(val, o)
                            new = prev + q if q is not None else None
                        elif isinstance(st.op, ast.Pow) and isinstance(st.value, ast.Constant) and isinstance(st.value.value, int) and st.value.value > 0:
                            new = prev * st.value.value
                    self._rec(T, o, new, st)
                    continue
            if isinstance(st, ast.Assign):
                for t in st.targets:
                    if isinstance(t, ast.Attribute):
                        T = src(t)
                        v = env.x(st.value, use=st)
                        mentions = [a for a in self._tracked_in(v)]
                        if mentions:
                            pw = self.power(v, o)
                            self._rec(T, o, None if nested else pw, st)
                        elif T == self.ROOT and T not in self.hist:
                            # the table may be created already raised to a power: fftfreq(...) ** 2 holds m^2 from the start
                            self.root_base, self.root_power = strip_power(v)
                            self._rec(T, o, None if nested else self.root_power, st)
                        elif T in self.hist:
                            self._rec(T, o, None, st)
                    elif isinstance(t, ast.Subscript) and src(t.value) in self.hist:
                        self._rec(src(t.value), o, None, st)
            elif isinstance(st, ast.AugAssign):
                t = st.target
                if isinstance(t, ast.Attribute) and src(t) in self.hist:
                    T = src(t)
                    prev = self.at(T, o)
                    new = None
                    if prev is not None and not nested:
                        if isinstance(st.op, ast.Mult):
                            q = self.power(env.x(st.value, use=st), o)
                            new = prev + q if q is not None else None
                        elif isinstance(st.op, ast.Pow) and isinstance(st.value, ast.Constant) and isinstance(st.value.value, int) \
                                and not isinstance(st.value.value, bool) and st.value.value > 0:
                            new = prev * st.value.value
                    self._rec(T, o, new, st)
                elif isinstance(t, ast.Subscript) and src(t.value) in self.hist:
                    self._rec(src(t.value), o, None, st)
            else:
                # in-place library calls: np.square(T, out=T) and the like
                for e in _own_exprs(st):
                    for c in ast.walk(e):
                        if isinstance(c, ast.Call):
                            out = next((k.value for k in c.keywords if k.arg == "out"), None)
                            if out is not None and src(out) in self.hist:
                                pw = self.power(ast.Call(func=c.func, args=c.args, keywords=[]), o)
                                self._rec(src(out), o, None if nested else pw, st)
        # the tables are constructor state: a store from another method makes the power seen by the solves unknown
        self.foreign = []
        mod = chk.mod(U.POISSON)
        for c in mod.tree.body:
            if isinstance(c, ast.ClassDef) and c.name in (CLS, QNC):
                for m_ in c.body:
                    if isinstance(m_, ast.FunctionDef) and not (c.name == CLS and m_.name == "__init__"):
                        for n in ast.walk(m_):
                            if isinstance(n, (ast.Assign, ast.AugAssign)):
                                for t in (n.targets if isinstance(n, ast.Assign) else [n.target]):
                                    b = t
                                    while isinstance(b, ast.Subscript):
                                        b = b.value
                                    if src(b) in self.hist:
                                        self.foreign.append((src(b), f"{c.name}.{m_.name}", n))

    def _rec(self, T, o, pw, st):
        self.hist.setdefault(T, []).append((o, pw, st))

    def _tracked_in(self, e):
        return [src(n) for n in ast.walk(e) if isinstance(n, ast.Attribute) and src(n) in self.hist]

    def tables(self):
        return set(self.hist)

    def at(self, T, order):
        """power held by table T just before the statement numbered `order`"""
        prior = [h for h in self.hist.get(T, []) if h[0] < order]
        return prior[-1][1] if prior else None

    def final(self, T):
        if any(f[0] == T for f in self.foreign):
            return None
        h = self.hist.get(T)
        return h[-1][1] if h else None

    def changes(self, T):
        """the statements that changed the power of T after its definition"""
        return [h[2] for h in self.hist.get(T, [])[1:]]

    def power(self, e, order):
        """power of m of an expression over the tables (elementwise monomial), None when it is not one"""
        if isinstance(e, ast.Attribute) and src(e) in self.hist:
            return self.at(src(e), order)
        if isinstance(e, ast.Subscript):
            return self.power(e.value, order)
        if isinstance(e, ast.BinOp) and isinstance(e.op, ast.Mult):
            a, b = self.power(e.left, order), self.power(e.right, order)
            return a + b if a is not None and b is not None else None
        if isinstance(e, ast.BinOp) and isinstance(e.op, ast.Pow) and isinstance(e.right, ast.Constant) and isinstance(e.right.value, int) \
                and not isinstance(e.right.value, bool) and e.right.value > 0:
            a = self.power(e.left, order)
            return a * e.right.value if a is not None else None
        if isinstance(e, ast.Call) and not e.keywords:
            f = src(e.func)
            if f in ("np.square", "numpy.square") and len(e.args) == 1:
                a = self.power(e.args[0], order)
                return 2 * a if a is not None else None
            if f in ("np.power", "numpy.power") and len(e.args) == 2 and isinstance(e.args[1], ast.Constant) \
                    and isinstance(e.args[1].value, int) and e.args[1].value > 0:
                a = self.power(e.args[0], order)
                return a * e.args[1].value if a is not None else None
            if f in ("np.multiply", "numpy.multiply") and len(e.args) == 2:
                a, b = self.power(e.args[0], order), self.power(e.args[1], order)
                return a + b if a is not None and b is not None else None
            if f in ("np.array", "np.asarray", "np.copy", "numpy.array", "numpy.asarray", "numpy.copy") and len(e.args) == 1:
                return self.power(e.args[0], order)
            if isinstance(e.func, ast.Attribute) and e.func.attr in ("copy", "astype"):
                return self.power(e.func.value, order)
        return None


def strip_power(e):
    """(base, p): the expression is base ** p elementwise (`x ** k`, np.square(x), np.power(x, k), x * x); p = 1 when it is not a power"""
    p = 1
    for _ in range(6):
        if isinstance(e, ast.BinOp) and isinstance(e.op, ast.Pow) and isinstance(e.right, ast.Constant) and isinstance(e.right.value, int) \
                and not isinstance(e.right.value, bool) and e.right.value > 0:
            p, e = p * e.right.value, e.left
        elif isinstance(e, ast.Call) and not e.keywords and src(e.func) in ("np.square", "numpy.square") and len(e.args) == 1:
            p, e = p * 2, e.args[0]
        elif isinstance(e, ast.Call) and not e.keywords and src(e.func) in ("np.power", "numpy.power") and len(e.args) == 2 and \
                isinstance(e.args[1], ast.Constant) and isinstance(e.args[1].value, int) and not isinstance(e.args[1].value, bool) \
                and e.args[1].value > 0:
            p, e = p * e.args[1].value, e.args[0]
        elif isinstance(e, ast.BinOp) and isinstance(e.op, ast.Mult) and not isinstance(e.left, ast.Constant) and src(e.left) == src(e.right):
            p, e = p * 2, e.left
        elif isinstance(e, ast.Call) and not e.keywords and src(e.func) in ("np.multiply", "numpy.multiply") and len(e.args) == 2 and \
                src(e.args[0]) == src(e.args[1]):
            p, e = p * 2, e.args[0]
        else:
            break
    return e, p


def mode_tables(chk):
    cache = _store(chk).setdefault("_c14_modetables", [])
    if not cache:
        cache.append(ModeTables(chk))
    return cache[0]


def _binder_iter(node, name):
    """the iterable whose elements the name denotes at `node`: the generator of an enclosing comprehension or the header of an
    enclosing for loop that binds it, else None"""
    cur, p = node, parent(node)
    while p is not None:
        if isinstance(p, (ast.ListComp, ast.SetComp, ast.GeneratorExp, ast.DictComp)):
            for g in p.generators:
                if isinstance(g.target, ast.Name) and g.target.id == name:
                    return g.iter, p
        elif isinstance(p, (ast.For, ast.AsyncFor)) and isinstance(p.target, ast.Name) and p.target.id == name and \
                any(cur is x for x in p.body):
            return p.iter, p
        elif isinstance(p, (ast.FunctionDef, ast.Lambda)):
            break
        cur, p = p, parent(p)
    return None, None


def membership_order(chk):
    """the Neumann lists hold signed mode numbers m: every test `x in lNeumannIdx / uNeumannIdx` on an entry of a mode-number
    table must read a table that holds m (power 1) at that point of the constructor"""
    mt = mode_tables(chk)
    fn, env = mt.fn, mt.env
    q = f"{CLS}.__init__"
    seen = {}
    for c in ast.walk(fn):
        if not (isinstance(c, ast.Compare) and len(c.ops) == 1 and isinstance(c.ops[0], (ast.In, ast.NotIn))):
            continue
        lst = c.comparators[0]
        while isinstance(lst, ast.Call) and len(lst.args) == 1 and src(lst.func) in ("set", "list", "tuple", "frozenset"):
            lst = lst.args[0]
        if src(lst) not in NEUMANN_LISTS:
            continue
        st = _stmt_of(c)
        if st is None or id(st) not in env.order:
            continue
        o = env.order[id(st)]
        left = c.left
        pw, table = "skip", None
        if isinstance(left, ast.Name):
            it, _ = _binder_iter(c, left.id)
            if it is None:
                ex = env.x(left, use=st)
                if isinstance(ex, ast.Subscript) and mt._tracked_in(ex):
                    table, pw = src(ex.value), mt.power(ex, o)
                elif mt._tracked_in(ex):
                    table, pw = src(ex), None
            else:
                itx = env.x(it, use=st)
                tr = mt._tracked_in(itx)
                if tr:
                    table, pw = src(itx), mt.power(itx, o)
        else:
            ex = env.x(left, use=st)
            if mt._tracked_in(ex):
                table, pw = src(ex), mt.power(ex, o)
        if pw == "skip":
            continue
        key = id(st)
        prev = seen.get(key)
        # one verdict per statement: the worst of its tests
        rank = {True: 0, None: 1, False: 2}
        verdict = True if pw == 1 else (False if isinstance(pw, int) and pw > 1 else None)
        # AUDIT: "the lists hold the signed mode numbers m" is the caller's contract for the constructor's arguments: a list rebound
        # in the constructor (squared along with the table, ...) is not the argument any more
        if verdict is False and (env.bind.get(_bare_list(lst)) or env.mut.get(_bare_list(lst))):
            verdict = None
        if prev is None or rank[verdict] > rank[prev[0]]:
            seen[key] = (verdict, st, table, pw, src(c))
    for verdict, st, table, pw, text in seen.values():
        if verdict is True:
            why = f"`{text}` reads `{table}` while it holds the signed mode numbers m"
        elif verdict is False:
            ch = [x for x in mt.changes(table.split("[")[0]) if env.before(x, st)] if table else []
            first = mt.hist.get(table.split("[")[0], [(0, 1, None)])[0] if table else (0, 1, None)
            after = f"after `{src(ch[-1])[:50]}`" if ch else (
                f"although the table is created already raised to that power by `{src(first[2])[:70]}`" if first[2] is not None and first[1] == pw
                else "after the squaring")
            why = (f"`{text}` tests the entries of `{table}` against the Neumann lists {after}"
                   f": the lists hold mode numbers m but the table holds m^{pw} at this point, "
                   "so only the modes with m^%d == m (0 and 1) are recognised; a Neumann condition requested for any other mode is "
                   "not seen" % pw)
        else:
            why = f"`{text}`: the power of the mode number held by `{table}` at this point could not be determined"
        chk.ob("F4-mode-bookkeeping", st, f"Neumann membership decided on m: {src(st)[:60]}", verdict, why, file=U.POISSON, func=q)
    if not seen:
        chk.ob("F4-mode-bookkeeping", fn, "Neumann membership decided on m", None,
               "no membership test of a mode number in lNeumannIdx / uNeumannIdx found in the constructor", file=U.POISSON, func=q)


def mode_loop(chk, cls, m):
    """(view, loop, local index name, global index name) of the per-mode loop of an entry point, or (view, None, ..)"""
    fn = flat_view(chk, U.POISSON, cls, m)
    env = env_of(chk, fn)
    for lp in [n for n in ast.walk(fn) if isinstance(n, ast.For)]:
        it = env.x(lp.iter)
        if isinstance(lp.target, ast.Tuple) and len(lp.target.elts) == 2 and isinstance(it, ast.Call) and src(it.func) == "enumerate" \
                and it.args and src(it.args[0]).replace(" ", "") in ("rho.getGlobalIdxVals(0)", "phi.getGlobalIdxVals(0)"):
            return fn, lp, src(lp.target.elts[0]), src(lp.target.elts[1])
    # the loop runs over the global index and the local one is derived: i = I - <grid>.getLayout(<grid>.currentLayout).starts[0]
    for lp in [n for n in ast.walk(fn) if isinstance(n, ast.For)]:
        it = env.x(lp.iter)
        if isinstance(lp.target, ast.Name) and src(it).replace(" ", "") in ("rho.getGlobalIdxVals(0)", "phi.getGlobalIdxVals(0)"):
            gi = lp.target.id
            g = src(it).split(".")[0]
            for st in lp.body:
                if isinstance(st, ast.Assign) and len(st.targets) == 1 and isinstance(st.targets[0], ast.Name):
                    v = env.x(st.value, use=st)
                    if same_expr(v, f"{gi} - {g}.getLayout({g}.currentLayout).starts[0]") and not env.amb:
                        return fn, lp, st.targets[0].id, gi
            return fn, lp, None, gi
    # the global index computed from the local one: I = <grid>.getLayout(<grid>.currentLayout).starts[0] + i
    for lp in [n for n in ast.walk(fn) if isinstance(n, ast.For)]:
        it = env.x(lp.iter)
        li = None
        if isinstance(lp.target, ast.Tuple) and len(lp.target.elts) == 2 and src(it).replace(" ", "") in ("rho.getCoords(0)", "phi.getCoords(0)"):
            li = src(lp.target.elts[0])
        elif isinstance(lp.target, ast.Name) and isinstance(it, ast.Call) and src(it.func) == "range" and len(it.args) == 1 and \
                src(it.args[0]).replace(" ", "") in ("len(rho.getGlobalIdxVals(0))", "len(phi.getGlobalIdxVals(0))",
                                                      "len(rho.getCoordVals(0))", "len(phi.getCoordVals(0))"):
            li = lp.target.id
        if li is None:
            continue
        for st in lp.body:
            if isinstance(st, ast.Assign) and len(st.targets) == 1 and isinstance(st.targets[0], ast.Name):
                v = env.x(st.value, use=st)
                if any(same_expr(v, f"{g}.getLayout({g}.currentLayout).starts[0] + {li}") or same_expr(v, f"{g}.getGlobalIdxVals(0)[{li}]")
                       for g in ("rho", "phi")) and not env.amb:
                    # every use of the name expands to this expression: it is the text the tables must be indexed with
                    return fn, lp, li, src(v)
    return fn, None, None, None


def _reset_targets(st):
    """boundary coefficients zeroed by a statement: subset of {0, -1}"""
    out = set()
    if isinstance(st, ast.Assign) and isinstance(st.value, ast.Constant) and st.value.value == 0 and not isinstance(st.value.value, bool):
        for t in st.targets:
            if isinstance(t, ast.Subscript) and src(t.value) == "self._coeffs":
                out |= _boundary_entries(t.slice) or set()
    return out


def _members(e, var):
    """the Neumann lists in which the loop variable is looked up inside an expression"""
    out = set()
    for c in ast.walk(e):
        if isinstance(c, ast.Compare) and len(c.ops) == 1 and isinstance(c.ops[0], (ast.In, ast.NotIn)) and src(c.left) == var:
            lst = c.comparators[0]
            while isinstance(lst, ast.Call) and len(lst.args) == 1 and src(lst.func) in ("set", "list", "tuple", "frozenset"):
                lst = lst.args[0]
            out.add(src(lst))
    return out


def table_key(table, field):
    """name of one field of a per-mode table of records: self._T[<mode>][field]"""
    return f"{table}[.][{field!r}]"


def table_of(e, tables):
    """the key in `tables` of the per-mode table an expression looks up (`T[I]`, `T[I][field]`), else None"""
    if not isinstance(e, ast.Subscript):
        return None
    if src(e.value) in tables:
        return src(e.value)
    if isinstance(e.value, ast.Subscript) and isinstance(e.slice, ast.Constant):
        k = table_key(src(e.value.value), e.slice.value)
        if k in tables:
            return k
    return None


def range_tables(chk, fn_init, ints=False):
    """the per-mode tables of slices (ints=True: also of integer bounds decided by the Neumann lists) built by the constructor: [(table text, site, loop variable, iterable, slice call)].
    Forms followed: `self._T = [slice(a, b) for m in <modes>]` and `self._T = []; for m in <modes>: ...; self._T.append(slice(a, b))`
    (locals of the loop body expanded to their definitions)."""
    env = env_of(chk, fn_init)
    out = []
    for n in ast.walk(fn_init):
        comp = n.value if isinstance(n, ast.Assign) else None
        while isinstance(comp, ast.Call) and len(comp.args) >= 1 and src(comp.func) in ("np.array", "np.asarray", "numpy.array", "numpy.asarray",
                                                                                     "list", "tuple"):
            comp = comp.args[0]         # the table as an array of its elements
        if isinstance(n, ast.Assign) and isinstance(n.targets[0], ast.Attribute) and isinstance(comp, ast.ListComp) \
                and len(comp.generators) == 1 and isinstance(comp.generators[0].target, ast.Name) and not comp.generators[0].ifs:
            g = comp.generators[0]
            # one element per mode: a slice, or a small record of slices (tuple / list / dict with literal keys: parallel tables merged)
            parts = [(src(n.targets[0]), comp.elt)]
            if isinstance(comp.elt, (ast.Tuple, ast.List)) and not any(isinstance(x, ast.Starred) for x in comp.elt.elts):
                parts = [(table_key(src(n.targets[0]), k_), x) for k_, x in enumerate(comp.elt.elts)]
            elif isinstance(comp.elt, ast.Dict) and comp.elt.keys and all(isinstance(k_, ast.Constant) for k_ in comp.elt.keys):
                parts = [(table_key(src(n.targets[0]), k_.value), x) for k_, x in zip(comp.elt.keys, comp.elt.values)]
            for key_, elt in parts:
                if isinstance(elt, ast.Call) and src(elt.func) == "slice" and len(elt.args) == 2 and not elt.keywords:
                    out.append((key_, n, g.target.id, env.x(g.iter, use=n), elt))
                elif ints and _members(elt, g.target.id):
                    out.append((key_, n, g.target.id, env.x(g.iter, use=n), elt))
        elif isinstance(n, ast.Expr) and isinstance(n.value, ast.Call) and isinstance(n.value.func, ast.Attribute) \
                and n.value.func.attr == "append" and isinstance(n.value.func.value, ast.Attribute) and len(n.value.args) == 1:
            lp = parent(n)
            if not (isinstance(lp, ast.For) and isinstance(lp.target, ast.Name) and any(n is x for x in lp.body)):
                continue
            T = src(n.value.func.value)
            init = [d for d in ast.walk(fn_init) if isinstance(d, ast.Assign) and src(d.targets[0]) == T]
            if len(init) != 1 or not (isinstance(init[0].value, ast.List) and not init[0].value.elts) or not env.before(init[0], lp) \
                    or parent(init[0]) is not parent(lp):
                continue
            el = env.x(n.value.args[0], stop={lp.target.id}, use=n)
            if isinstance(el, ast.Call) and src(el.func) == "slice" and len(el.args) == 2 and not el.keywords and not env.amb:
                out.append((T, lp, lp.target.id, env.x(lp.iter, use=lp), el))
    return out


def neumann_tables(chk, fn_init):
    """every per-mode table of slices is, for every combination of boundary conditions, the range of the unknowns of the mode:
    absolute (an index range of the coefficient vector) or relative to the rows the blocks are stored with"""
    q = f"{CLS}.__init__"
    R = ranges_of(chk)
    names = set()
    for T, (site, var, sl) in R.tables.items():
        names.add(T)
        at = R.env.order.get(id(site), 10 ** 9)
        ok, why, bad = None, "", None
        try:
            def table(f):
                return R.rng(sl, f, at, var, NB_SYM)

            def stored(f):
                return R.window(ast.parse("self._k2PhiPsi", mode="eval").body, f)[0]
            if all(_same_range(table(f), unknowns_of(f)) for f in FLAG_CASES):
                ok, why = True, "one slice per mode: the unknowns of the mode as an index range of the coefficient vector"
            else:
                rel = None
                try:
                    rel = all(_same_range(Ranges.compose(stored(f), table(f)), unknowns_of(f)) for f in FLAG_CASES)
                except KeyError:
                    pass
                if rel:
                    ok, why = True, "one slice per mode: the unknowns of the mode relative to the rows / columns the blocks are stored with"
                else:
                    # AUDIT: both diagnoses are obtained by EVALUATING the slice for every combination of the boundary predicates
                    # (absolute, or relative to the window the blocks are stored with - writer and readers composed); they are
                    # stated only when the table equals the unknowns of the exchanged / negated predicates in every case
                    swap = [dict(f, l=f["u"], u=f["l"], L=f["U"], U=f["L"]) for f in FLAG_CASES]
                    flip = [dict(f, l=not f["l"], u=not f["u"]) for f in FLAG_CASES]
                    for alt, text in ((swap, "the lower end of the slice is decided by the upper-boundary Neumann list and the upper end by the "
                                       "lower-boundary list: modes get the boundary conditions of the opposite boundary"),
                                      (flip, "the boundary unknown is kept for the modes that are NOT in the Neumann list and dropped for those "
                                       "that are: Dirichlet and Neumann modes are exchanged")):
                        try:
                            if all(_same_range(table(g), unknowns_of(f)) for f, g in zip(FLAG_CASES, alt)) or (
                                    rel is not None and all(_same_range(Ranges.compose(stored(f), table(g)), unknowns_of(f))
                                                            for f, g in zip(FLAG_CASES, alt))):
                                bad = text
                                break
                        except KeyError:
                            pass
                    if bad is None:
                        f = next(f for f in FLAG_CASES if not _same_range(table(f), unknowns_of(f)))
                        why = (f"for {_case_text(f)} the table holds {_fmt(table(f))}; the unknowns are {_fmt(unknowns_of(f))}: neither these "
                               "nor their position among the stored rows - judged where the table is used")
        except KeyError as e_:
            why = "slice bounds not followed: " + str(e_).strip('"\'')
        # AUDIT: every diagnosis above comes from evaluating the slice for all combinations of the boundary predicates; bounds that
        # could not be evaluated are not guessed from the names of the lists they mention (undecided)
        if ok or bad:
            chk.pat("F4-mode-bookkeeping", site, T, ok, why, bad, file=U.POISSON, func=q)
        else:
            chk.ob("F4-mode-bookkeeping", site, T, None, why, file=U.POISSON, func=q)
    if not names:
        chk.ob("F4-mode-bookkeeping", fn_init, "per-mode tables of unknowns", None,
               "the construction of a per-mode table of unknowns (one slice per mode number) was not recognised", file=U.POISSON, func=q)
    return names


# =========================================================================================================
# index ranges of the spline space as functions of the boundary conditions
#
# The rules on the per-mode restriction are relational: whatever window the blocks are stored with and whatever per-mode
# tables of slices the constructor keeps, the rows and columns of the operator handed to the solve of mode I, the rows of the
# mass matrix and the entries of the coefficient vector that receive the solution must all be the unknowns of mode I,
#       [0 if m_I has a Neumann condition at the lower boundary else 1,  nb - (0 if ... at the upper boundary else 1)).
# Ranges are evaluated symbolically in nb = self._rspline.nbasis, case by case over the four predicates the constructor
# tests: L / U = "some mode has a Neumann condition at the lower / upper boundary" (the lists are not empty) and
# l / u = "this mode is in the list" (l implies L, u implies U).
# =========================================================================================================

NB_SYM = sp.Symbol("nb")
FLAG_CASES = [dict(L=L_, U=U_, l=l_, u=u_) for L_ in (False, True) for U_ in (False, True) for l_ in (False, True) for u_ in (False, True)
              if (L_ or not l_) and (U_ or not u_)]


def _case_text(f):
    return (f"a mode with a {'Neumann' if f['l'] else 'Dirichlet'} condition at the lower and a {'Neumann' if f['u'] else 'Dirichlet'} "
            f"condition at the upper boundary (Neumann modes exist at the lower boundary: {'yes' if f['L'] else 'no'}, at the upper: "
            f"{'yes' if f['U'] else 'no'})")


def unknowns_of(f):
    return (sp.Integer(0 if f["l"] else 1), NB_SYM - (0 if f["u"] else 1))


class Ranges:
    def __init__(self, chk):
        self.chk = chk
        self.fn = flat_view(chk, U.POISSON, CLS, "__init__")
        self.env = env_of(chk, self.fn)
        self.mt = mode_tables(chk)
        self.tables = {}
        self.int_tables = {}
        for T, site, var, it, sl in range_tables(chk, self.fn, ints=True):
            if self.mt._tracked_in(it):
                if isinstance(sl, ast.Call) and src(sl.func) == "slice":
                    self.tables[T] = (site, var, sl)
                else:
                    self.int_tables[T] = (site, var, sl)
        # a table derived element by element from another table of slices, `[slice(u.start - a, u.stop - a) for u in self._T0]`: the
        # bounds `u.start` / `u.stop` are the bounds of the slice of the same mode in T0 (written back in place)
        for T, site, var, it, sl in range_tables(chk, self.fn):
            if src(it) == T or src(it) not in self.tables or not (isinstance(sl, ast.Call) and src(sl.func) == "slice"):
                continue
            site0, var0, sl0 = self.tables[src(it)]
            if len(sl0.args) != 2 or self.env.order.get(id(site0), 10 ** 9) >= self.env.order.get(id(site), -1):
                continue
            bare = [n for n in ast.walk(sl) if isinstance(n, ast.Name) and n.id == var and
                    not (isinstance(parent(n), ast.Attribute) and parent(n).attr in ("start", "stop"))]
            if bare or var0 in {n.id for n in ast.walk(sl) if isinstance(n, ast.Name)} - {var}:
                continue

            class B(ast.NodeTransformer):
                def visit_Attribute(self_, n):
                    if isinstance(n.value, ast.Name) and n.value.id == var and n.attr in ("start", "stop"):
                        return _clone(sl0.args[0] if n.attr == "start" else sl0.args[1])
                    return self_.generic_visit(n)
            new = B().visit(_clone(sl))
            ast.fix_missing_locations(new)
            _relink(new, None)
            self.tables[T] = (site, var0, new)
        self.qn = flat_view(chk, U.POISSON, QNC, "__init__")
        # the attributes that hold the tables (a table of records is looked up as T[mode][field])
        self.bases = {k.split("[.]")[0] for k in list(self.tables) + list(self.int_tables)}

    # -- predicates
    def truth(self, e, f, var):
        if isinstance(e, ast.UnaryOp) and isinstance(e.op, ast.Not):
            return not self.truth(e.operand, f, var)
        if isinstance(e, ast.BoolOp):
            vals = [self.truth(v, f, var) for v in e.values]
            return all(vals) if isinstance(e.op, ast.And) else any(vals)
        if isinstance(e, ast.Name) and e.id in NEUMANN_LISTS:
            return f["L" if e.id == "lNeumannIdx" else "U"]
        if isinstance(e, ast.Compare) and len(e.ops) == 1:
            op, a, b = e.ops[0], e.left, e.comparators[0]
            if isinstance(op, (ast.In, ast.NotIn)) and _bare_list(b) in NEUMANN_LISTS and var is not None and src(a) == var:
                v = f["l" if _bare_list(b) == "lNeumannIdx" else "u"]
                return v if isinstance(op, ast.In) else not v
            if isinstance(a, ast.Call) and src(a.func) == "len" and len(a.args) == 1 and src(a.args[0]) in NEUMANN_LISTS and \
                    isinstance(b, ast.Constant) and b.value in (0, 1):
                some = f["L" if src(a.args[0]) == "lNeumannIdx" else "U"]
                if b.value == 0:
                    r_ = {ast.Eq: not some, ast.NotEq: some, ast.Gt: some, ast.LtE: not some}.get(type(op))
                else:
                    r_ = {ast.GtE: some, ast.Lt: not some}.get(type(op))
                if r_ is not None:
                    return r_
            if src(a) in NEUMANN_LISTS and isinstance(b, ast.List) and not b.elts and isinstance(op, (ast.Eq, ast.NotEq)):
                some = f["L" if src(a) == "lNeumannIdx" else "U"]
                return (not some) if isinstance(op, ast.Eq) else some
        raise KeyError(f"condition `{src(e)[:50]}` is not a test on the Neumann lists")

    # -- definitions of constructor locals / attributes under a case
    def _live(self, st, f, var):
        cur, p = st, parent(st)
        while p is not None and p is not self.fn:
            if isinstance(p, ast.If):
                if self.truth(p.test, f, var) != any(cur is x for x in p.body):
                    return False
            elif isinstance(p, (ast.For, ast.While, ast.Try, ast.With)):
                raise KeyError(f"`{src(st)[:40]}` is defined inside a loop / block")
            cur, p = p, parent(p)
        return True

    def definition(self, key, f, before, var):
        """value (syntax) of the constructor local / attribute `key` under case f, as seen by a statement numbered `before`"""
        if "." in key:
            cands = [(self.env.order[id(n)], n, n.value) for n in ast.walk(self.fn) if isinstance(n, ast.Assign) and id(n) in self.env.order
                     and any(src(t) == key for t in n.targets)]
            if any(isinstance(n, ast.AugAssign) and src(n.target) == key for n in ast.walk(self.fn)):
                raise KeyError(f"`{key}` is updated in place")
        else:
            cands = list(self.env.bind.get(key, []))
            if self.env.mut.get(key):
                raise KeyError(f"`{key}` is updated in place")
        live = [c for c in cands if c[0] < before and c[2] is not None and self._live(c[1], f, var)]
        if any(c[2] is None for c in cands) or not live:
            raise KeyError(f"no definition of `{key}` found")
        return live[-1][2], live[-1][0]

    # -- numbers
    def num(self, e, f, at, var):
        if isinstance(e, ast.Constant) and isinstance(e.value, (int, bool)):
            return sp.Integer(int(e.value))
        if isinstance(e, ast.BinOp) and type(e.op) in (ast.Add, ast.Sub, ast.Mult):
            a, b = self.num(e.left, f, at, var), self.num(e.right, f, at, var)
            return {ast.Add: a + b, ast.Sub: a - b, ast.Mult: a * b}[type(e.op)]
        if isinstance(e, ast.UnaryOp) and isinstance(e.op, ast.USub):
            return -self.num(e.operand, f, at, var)
        if isinstance(e, ast.IfExp):
            return self.num(e.body if self.truth(e.test, f, var) else e.orelse, f, at, var)
        if isinstance(e, ast.Call) and src(e.func) in ("int", "bool") and len(e.args) == 1 and not e.keywords:
            return self.num(e.args[0], f, at, var)
        if isinstance(e, (ast.Compare, ast.BoolOp)) or (isinstance(e, ast.UnaryOp) and isinstance(e.op, ast.Not)):
            return sp.Integer(1 if self.truth(e, f, var) else 0)
        if isinstance(e, ast.Attribute) and src(e) in (NB, "rspline.nbasis"):
            return NB_SYM
        if table_of(e, self.int_tables):
            site, tvar, elt = self.int_tables[table_of(e, self.int_tables)]
            return self.num(elt, f, self.env.order.get(id(site), 10 ** 9), tvar)
        if isinstance(e, (ast.Name, ast.Attribute)):
            if isinstance(e, ast.Name) and e.id == var:
                raise KeyError(f"the mode number `{var}` itself enters a bound")
            v, o = self.definition(src(e), f, at, var)
            return self.num(v, f, o, var)
        raise KeyError(f"`{src(e)[:50]}` is not an integer expression of nbasis and the boundary conditions")

    # -- ranges
    def rng(self, e, f, at, var, length):
        """(start, stop) selected by a slice expression out of an axis of `length` entries"""
        def bound(x, default):
            if x is None or (isinstance(x, ast.Constant) and x.value is None):
                return default
            v = self.num(x, f, at, var)
            return length + v if v.is_number and v < 0 else v
        if isinstance(e, ast.Slice):
            if e.step is not None:
                raise KeyError("slice with a step")
            return bound(e.lower, sp.Integer(0)), bound(e.upper, length)
        if isinstance(e, ast.Call) and src(e.func) == "slice" and not e.keywords and len(e.args) in (1, 2):
            lo = e.args[0] if len(e.args) == 2 else None
            return bound(lo, sp.Integer(0)), bound(e.args[-1], length)
        if table_of(e, self.tables):
            site, tvar, sl = self.tables[table_of(e, self.tables)]
            return self.rng(sl, f, self.env.order.get(id(site), 10 ** 9), tvar, length)
        if isinstance(e, (ast.Name, ast.Attribute)):
            v, o = self.definition(src(e), f, at, var)
            return self.rng(v, f, o, var, length)
        raise KeyError(f"`{src(e)[:50]}` is not a slice of the spline space")

    def _whole_space(self, shp, f, at, depth=0):
        """the shape expression is (nbasis, nbasis); KeyError otherwise"""
        if shp is None or depth > 6:
            raise KeyError("the shape of the matrix the blocks are cut from is not given: not known to span the whole spline space")
        if isinstance(shp, ast.Name):
            v, o = self.definition(shp.id, f, at, None)
            return self._whole_space(v, f, o, depth + 1)
        if isinstance(shp, (ast.Tuple, ast.List)) and len(shp.elts) == 2:
            if all(sp.simplify(self.num(x, f, at, None) - NB_SYM) == 0 for x in shp.elts):
                return True
        raise KeyError(f"the matrix the blocks are cut from has the shape `{src(shp)[:40]}`, not (nbasis, nbasis)")

    @staticmethod
    def compose(win, sel):
        return win[0] + sel[0], win[0] + sel[1]

    def window(self, e, f, at=10 ** 9, depth=0):
        """((row start, row stop), (column start, column stop)) of the full nb x nb matrix that a matrix expression holds"""
        if depth > 12:
            raise KeyError("definitions nested too deeply")
        if isinstance(e, ast.Subscript):
            rows, cols = self.window(e.value, f, at, depth + 1)
            sl = e.slice
            if not (isinstance(sl, ast.Tuple) and len(sl.elts) == 2):
                raise KeyError(f"matrix indexed by `{src(sl)[:40]}`")
            return (self.compose(rows, self.rng(sl.elts[0], f, at, None, rows[1] - rows[0])),
                    self.compose(cols, self.rng(sl.elts[1], f, at, None, cols[1] - cols[0])))
        if isinstance(e, ast.BinOp) and isinstance(e.op, (ast.Add, ast.Sub)):
            a, b = self.window(e.left, f, at, depth + 1), self.window(e.right, f, at, depth + 1)
            if any(sp.simplify(x - y) != 0 for ra, rb in zip(a, b) for x, y in zip(ra, rb)):
                raise KeyError(f"`{src(e)[:60]}` combines matrices stored for different index ranges")
            return a
        if isinstance(e, ast.BinOp) and isinstance(e.op, ast.Mult):
            sides = []
            for x in (e.left, e.right):
                try:
                    sides.append(self.window(x, f, at, depth + 1))
                except KeyError:
                    pass
            if len(sides) == 1:
                return sides[0]
            raise KeyError(f"`{src(e)[:60]}`: not a matrix scaled by a number")
        if isinstance(e, ast.UnaryOp):
            return self.window(e.operand, f, at, depth + 1)
        if isinstance(e, ast.Call):
            # AUDIT: every range below is an index range of the nbasis x nbasis matrix of the whole spline space: the matrix the
            # blocks are cut from must be built with that shape (a matrix assembled for a sub-range, with the restriction moved into
            # the assembly, would make every window wrong)
            if _diags_call(e) is e:
                shp = e.args[2] if len(e.args) > 2 else next((k.value for k in e.keywords if k.arg == "shape"), None)
                self._whole_space(shp, f, at)
                return (sp.Integer(0), NB_SYM), (sp.Integer(0), NB_SYM)
            if _matrix_source(e) is not None:
                # the one statement that creates the matrix (its entries are then written in place)
                cands = self.env.bind.get(_matrix_source(e), [])
                if len(cands) != 1 or cands[0][2] is None or parent(cands[0][1]) is not self.fn:
                    raise KeyError(f"creation of the matrix `{_matrix_source(e)}` not found")
                o_, _, alloc = cands[0]
                shp = None
                if isinstance(alloc, ast.Call):
                    shp = alloc.args[0] if alloc.args else next((k.value for k in alloc.keywords if k.arg == "shape"), None)
                self._whole_space(shp, f, o_)
                return (sp.Integer(0), NB_SYM), (sp.Integer(0), NB_SYM)
            if isinstance(e.func, ast.Attribute) and e.func.attr in SPARSE_CONVERT:
                return self.window(e.func.value, f, at, depth + 1)
        if isinstance(e, ast.Attribute) and src(e) == "self._stiffness0":
            # defined by the derived class under tests on the electron model / chi: every definition must hold the same range
            defs = [n for n in ast.walk(self.qn) if isinstance(n, ast.Assign) and src(n.targets[0]) == "self._stiffness0"]
            vals = []
            for n in defs:
                v_ = n.value
                # a table of operators with literal keys / positions looked up by the convention parameter: every entry
                if isinstance(v_, ast.Subscript) and isinstance(v_.value, ast.Dict):
                    vals += list(v_.value.values)
                elif isinstance(v_, ast.Subscript) and isinstance(v_.value, (ast.Tuple, ast.List)) and not isinstance(v_.slice, (ast.Slice, ast.Tuple)):
                    vals += list(v_.value.elts)
                else:
                    vals.append(v_)
            wins = [self.window(v_, f, 10 ** 9, depth + 1) for v_ in vals]
            if not wins or any(sp.simplify(x - y) != 0 for w in wins[1:] for ra, rb in zip(wins[0], w) for x, y in zip(ra, rb)):
                raise KeyError("definitions of self._stiffness0 not found / stored for different index ranges")
            return wins[0]
        if isinstance(e, (ast.Name, ast.Attribute)):
            v, o = self.definition(src(e), f, at, None)
            return self.window(v, f, o, depth + 1)
        raise KeyError(f"`{src(e)[:50]}` is not a matrix expression over the assembled blocks")


def ranges_of(chk):
    cache = _store(chk).setdefault("_c14_ranges", [])
    if not cache:
        cache.append(Ranges(chk))
    return cache[0]


def _same_range(a, b):
    return sp.simplify(a[0] - b[0]) == 0 and sp.simplify(a[1] - b[1]) == 0


def _fmt(r_):
    return f"[{r_[0]}, {r_[1]})"


def qn_mode0_case(chk):
    """the predicates for the mode m = 0 of the quasi-neutrality solver, from the literal Neumann lists it is built with; None when
    they are not literal"""
    try:
        from .C15 import base_init_calls, bound_arguments, _literal_set
        fn, calls, formals = base_init_calls(chk)
        env = env_of(chk, fn)
        cases = []
        for c in calls:
            kw = bound_arguments(c, formals)
            if kw is None:
                return None
            ls = _literal_set(env.x(kw["lNeumannIdx"], use=_stmt_of(c))) if "lNeumannIdx" in kw else set()
            us = _literal_set(env.x(kw["uNeumannIdx"], use=_stmt_of(c))) if "uNeumannIdx" in kw else set()
            if ls is None or us is None:
                return None
            cases.append(dict(L=bool(ls), U=bool(us), l=0 in ls, u=0 in us))
        return cases or None
    except Exception:
        return None


# AUDIT (every VIOLATED produced from Ranges): the ranges are EVALUATED symbolically in nbasis for each combination of the
# boundary predicates, composing the window the blocks are stored with (constructor) with the slices applied where they are used
# (caller and per-mode solve).  They are true of the code when (1) the blocks are cut from an (nbasis, nbasis) matrix (checked by
# `_whole_space`), (2) every name met has exactly one live definition under the case (else KeyError -> undecided), (3) slices have
# no step.  Nothing is compared with the form the repository uses today.
def restricted_to_unknowns(R, e, cases, want_cols=True):
    """(True / False / None, diagnosis): does the matrix expression hold exactly the rows (and columns) of the unknowns of the mode,
    for every case of the boundary conditions?  want_cols=False: the columns must be the whole spline space"""
    try:
        for f in cases:
            rows, cols = R.window(e, f)
            U_ = unknowns_of(f)
            full = (sp.Integer(0), NB_SYM)
            okr = _same_range(rows, U_)
            okc = _same_range(cols, U_ if want_cols else full)
            if okr and okc:
                continue
            if want_cols and (okr != okc) and any(isinstance(n, ast.Slice) and n.lower is None and n.upper is None for n in ast.walk(e)
                                                   if isinstance(n, ast.Slice)):
                return False, (f"restricted to the unknowns of the mode in one direction only (rows {_fmt(rows)}, columns {_fmt(cols)} "
                               f"for {_case_text(f)}): the matrix handed to the solve is not square / keeps Dirichlet columns")
            what_ = "rows" if not okr else "columns"
            got_, need_ = (rows, U_) if not okr else (cols, U_ if want_cols else full)
            return False, (f"for {_case_text(f)} `{src(e)[:70]}` holds the {what_} {_fmt(got_)} of the spline space where "
                           f"{_fmt(need_)} {'(the unknowns of the mode)' if need_ is not full else '(every coefficient)'} is needed")
        return True, ""
    except KeyError as e_:
        return None, str(e_).strip('"\'')


# ---------------------------------------------------------------------------------------------------------
# the shared coefficient vector self._coeffs: which of its entries have been written for the (mode, z) line at hand when it is
# evaluated into phi.  It is state carried from line to line, from mode to mode and from call to call: the two boundary entries
# must have been zeroed for this mode (a Neumann mode writes them, the next Dirichlet mode relies on their zero) and the unknowns
# of the mode must have been stored for this line, on EVERY path that reaches the evaluation.  The caller's mode loop and the
# per-mode solve are followed as one unit, path by path (if / continue / early return), whichever of the two holds the statements.
# ---------------------------------------------------------------------------------------------------------

COEFFS = "self._coeffs"
BOUNDARY_SLICES = {"0": {0}, "-1": {-1}, "[0,-1]": {0, -1}, "[-1,0]": {0, -1}, "(0,-1)": {0, -1}, "(-1,0)": {0, -1}}
PURE_READERS = ("np.", "numpy.")


LAST_ENTRY = ("self._rspline.nbasis - 1", "len(self._coeffs) - 1", "self._coeffs.size - 1", "self._coeffs.shape[0] - 1",
              "self._coeffs.shape[-1] - 1")


def _boundary_entries(idx):
    """the boundary coefficients an index expression of the coefficient buffer denotes: subset of {0, -1}, or None when it is not
    (recognised as) made of boundary positions only.  Position nbasis - 1 is the last entry, -1"""
    def one(e):
        t = src(e).replace(" ", "")
        if t in ("0", "-1"):
            return {int(t)}
        if any(arith_equal(e, w_) for w_ in LAST_ENTRY):
            return {-1}
        return None
    if isinstance(idx, (ast.List, ast.Tuple)) and idx.elts:
        parts = [one(e) for e in idx.elts]
        if all(p_ is not None for p_ in parts):
            return set().union(*parts)
        return None
    return one(idx)


NUMPY_MUTATORS = ("copyto", "put", "place", "putmask", "put_along_axis", "fill_diagonal", "at")


def _whole_slice(s_):
    return (isinstance(s_, ast.Slice) and s_.lower is None and s_.upper is None and s_.step is None) or \
        (isinstance(s_, ast.Constant) and s_.value is Ellipsis)


def _is_zero_value(v):
    if isinstance(v, ast.UnaryOp) and isinstance(v.op, (ast.USub, ast.UAdd)):
        v = v.operand
    return isinstance(v, ast.Constant) and isinstance(v.value, (int, float, complex)) and not isinstance(v.value, bool) and v.value == 0


def copy_store(st):
    """np.copyto(dst, src) / dst.fill(v) written as the slice assignment it is: (dst[:], src), else None"""
    if not (isinstance(st, ast.Expr) and isinstance(st.value, ast.Call)):
        return None
    c = st.value
    dst = val = None
    if src(c.func) in ("np.copyto", "numpy.copyto") and len(c.args) == 2 and not c.keywords:
        dst, val = c.args
    elif isinstance(c.func, ast.Attribute) and c.func.attr == "fill" and len(c.args) == 1 and not c.keywords:
        dst, val = c.func.value, c.args[0]
    if dst is None:
        return None
    t = ast.Subscript(value=dst, slice=ast.Slice(lower=None, upper=None, step=None), ctx=ast.Store())
    ast.copy_location(t, st)
    ast.fix_missing_locations(t)
    return t, val


def solve_stores(fn):
    """[(statement, target, spsolve call)]: `target = spsolve(A, b)` / `target[:] = ...` / np.copyto(target, spsolve(A, b))"""
    out = []
    for n in ast.walk(fn):
        if isinstance(n, ast.Assign) and len(n.targets) == 1 and isinstance(n.value, ast.Call) and _is_spsolve(n.value) and len(n.value.args) == 2:
            out.append((n, n.targets[0], n.value))
        else:
            cp = copy_store(n) if isinstance(n, ast.Expr) else None
            if cp is not None and isinstance(cp[1], ast.Call) and _is_spsolve(cp[1]) and len(cp[1].args) == 2:
                out.append((n, cp[0], cp[1]))
    return out


def coeff_events(st, env, subst=None, opaque=()):
    """what one statement does to self._coeffs: [("reset", entries) | ("store", "solved" / "zero" / "other") | ("whole", kind) |
    ("read", None) | ("unknown", text)], writes through views (`coeffs = self._coeffs[range]`) included.  `subst` maps the parameters
    of the function to the caller's arguments (a view of the buffer handed over by the caller); a store through one of the `opaque`
    names (parameters that could not be bound) may or may not reach the buffer"""
    out = []
    subst = subst or {}

    def X(e):
        ex = env.x(e, use=st)
        return _Sub({}, subst).visit(ex) if subst else ex
    cp = copy_store(st)
    if cp is not None:
        targets, value = [cp[0]], cp[1]
    elif isinstance(st, ast.Assign):
        targets, value = st.targets, st.value
    elif isinstance(st, (ast.AugAssign, ast.AnnAssign)):
        targets, value = [st.target], st.value
    elif isinstance(st, ast.Expr):
        targets, value = [], st.value
    elif isinstance(st, (ast.If, ast.While)):
        targets, value = [], st.test
    elif isinstance(st, ast.Return):
        targets, value = [], st.value
    else:
        return out
    vx = X(value) if value is not None else None
    flat = []
    for t in targets:
        flat += list(t.elts) if isinstance(t, (ast.Tuple, ast.List)) else [t]
    for t in flat:
        if isinstance(t, ast.Attribute) and src(t) == COEFFS:
            out.append(("unknown", f"`{src(st)[:50]}` rebinds the buffer"))
            continue
        if not isinstance(t, ast.Subscript):
            continue
        tx = X(t)
        sls = []
        while isinstance(tx, ast.Subscript):
            sls.append(tx.slice)
            tx = tx.value
        if isinstance(tx, ast.Name) and tx.id in opaque:
            out.append(("unknown", f"`{src(st)[:50]}` stores through the parameter `{tx.id}`"))
            continue
        if src(tx) != COEFFS:
            continue
        sls = [s_ for s_ in sls[::-1] if not _whole_slice(s_)]
        if isinstance(st, ast.AugAssign) or len(flat) != len(targets) or vx is None:
            out.append(("unknown", f"`{src(st)[:50]}` updates the buffer in place"))
            continue
        kind = "zero" if _is_zero_value(vx) else ("solved" if any(_is_spsolve(c) for c in ast.walk(vx)) else "other")
        if not sls:
            out.append(("whole", kind))
        elif len(sls) == 1:
            ents = _boundary_entries(sls[0])
            if ents is not None:
                out.append(("reset", ents) if kind == "zero" else ("unknown", f"`{src(st)[:50]}` writes a boundary coefficient"))
            elif (isinstance(sls[0], ast.Slice) and not any(isinstance(x, (ast.Name, ast.Attribute, ast.Subscript, ast.Call))
                                                              for x in ast.walk(sls[0]))) or \
                    isinstance(sls[0], (ast.Constant, ast.UnaryOp, ast.List, ast.Tuple)):
                out.append(("unknown", f"`{src(st)[:50]}` writes a fixed part of the buffer"))
            elif (isinstance(sls[0], ast.Slice) and sls[0].step is None) or isinstance(sls[0], (ast.Name, ast.Attribute, ast.Subscript)) or \
                    (isinstance(sls[0], ast.Call) and src(sls[0].func) == "slice" and len(sls[0].args) <= 2):
                # a range of the buffer given by names / a per-mode table: the unknowns of the mode (which range is F4-mode-solve's)
                out.append(("store", kind))
            else:
                # AUDIT: any other index (a computed position such as nbasis - 1 in a form not recognised, a strided slice, a mask) may
                # be the boundary entries or the unknowns: not classified
                out.append(("unknown", f"`{src(st)[:50]}` writes entries of the buffer that were not classified"))
        else:
            out.append(("unknown", f"`{src(st)[:50]}`"))
    if vx is not None and any(isinstance(n, ast.Attribute) and src(n) == COEFFS for n in ast.walk(vx)):
        alias = targets and all(isinstance(t, ast.Name) for t in flat) and _is_view(vx)
        if not alias and len(targets) == 1 and isinstance(targets[0], (ast.Tuple, ast.List)) and isinstance(vx, (ast.Tuple, ast.List)) \
                and len(vx.elts) == len(flat):
            # `a, view = x, self._coeffs[range]`: element by element
            alias = all((isinstance(t, ast.Name) and _is_view(v_)) or not any(isinstance(n, ast.Attribute) and src(n) == COEFFS
                                                                               for n in ast.walk(v_)) for t, v_ in zip(flat, vx.elts))
        if not alias:
            _relink(vx, None)
            for c in [c for c in ast.walk(vx) if isinstance(c, ast.Call)]:
                mentions = any(isinstance(n, ast.Attribute) and src(n) == COEFFS for a_ in list(c.args) + [k.value for k in c.keywords]
                               for n in ast.walk(a_))
                on_it = isinstance(c.func, ast.Attribute) and any(isinstance(n, ast.Attribute) and src(n) == COEFFS for n in ast.walk(c.func.value))
                # AUDIT: a numpy function reads its arguments - except through out= / where=, and except the few that write their
                # first argument
                into = any(k.arg in ("out", "where") and any(isinstance(n, ast.Attribute) and src(n) == COEFFS for n in ast.walk(k.value))
                           for k in c.keywords) or src(c.func).split(".")[-1] in NUMPY_MUTATORS
                if mentions and (into or not src(c.func).startswith(PURE_READERS)):
                    out.append(("unknown", f"`{src(c)[:50]}` receives the buffer"))
                if on_it and c.func.attr not in ("copy", "conj", "conjugate", "astype", "view", "real", "imag", "dot", "sum", "max", "min", "any", "all"):
                    out.append(("unknown", f"`{src(c)[:50]}` is a method of the buffer"))
            out.append(("read", None))
    return out


def _events_in(stmts, env, subst=None, opaque=()):
    """{id(statement): (statement, events)} of every statement under `stmts` that touches self._coeffs"""
    out = {}
    for top in stmts:
        for n in ast.walk(top):
            if isinstance(n, ast.stmt) and not isinstance(n, (ast.FunctionDef, ast.ClassDef)):
                ev = coeff_events(n, env, subst, opaque)
                if ev:
                    out[id(n)] = (n, ev)
    return out


def _cond_text(conds):
    if not conds:
        return ""
    t_, pol, node = conds[-1]
    return f"`{src(t_)[:60]}` is {'true' if pol else 'false'}"


def dirichlet_reset(chk, cls, m, callee, fn, lp, env):
    """F4-dirichlet-reset for one entry point, F4-stale-coefficients for the per-mode solve it calls"""
    q = f"{cls}.{m}"
    construct = f"{cls}.{m}: self._coeffs[0] = self._coeffs[-1] = 0 before each mode"
    good = ("both boundary coefficients are zeroed for every mode before its solution is stored and evaluated, so a Neumann mode's boundary "
            "value cannot leak into the next Dirichlet mode")
    leak = ("the boundary coefficients are not reset for every mode before the solve: the value written by a Neumann mode "
            "leaks into the following Dirichlet modes (modes no longer independent, Dirichlet value non-zero)")
    cal = solve_view(chk, callee, cls, m)
    cenv = env_of(chk, cal)

    def is_call(s_):
        return isinstance(s_, (ast.Expr, ast.Assign, ast.Return)) and any(
            isinstance(c, ast.Call) and isinstance(c.func, ast.Attribute) and c.func.attr == callee for c in ast.walk(s_))
    calls = [s_ for s_ in ast.walk(lp) if isinstance(s_, ast.stmt) and is_call(s_)]
    if not calls:
        chk.ob("F4-dirichlet-reset", lp, construct, None, f"call of the per-mode solve {callee} not found in the mode loop", file=U.POISSON, func=q)
        return
    # 1. the mode loop up to the call of the per-mode solve
    ev1 = _events_in(lp.body, env)
    p1 = _paths(lp.body, [e[0] for e in ev1.values()] + [c for c in calls if id(c) not in ev1])
    # 2. the per-mode solve: statements before the loop that evaluates the coefficients, then one iteration of that loop
    # (the arguments of the call stand for the parameters: a view of the buffer may be handed over by the caller)
    cpar = [a_.arg for a_ in cal.args.args]
    binds = [bind_call(next(c for c in ast.walk(s_) if isinstance(c, ast.Call) and isinstance(c.func, ast.Attribute) and c.func.attr == callee),
                       cpar) for s_ in calls]
    subst, opaque = {}, set(cpar[1:])
    if binds and all(b is not None for b in binds):
        for p_ in binds[0]:
            texts = {src(env.x(b[p_], use=s_)) if p_ in b else None for b, s_ in zip(binds, calls)}
            if len(texts) == 1 and None not in texts and not env.amb:
                subst[p_] = env.x(binds[0][p_], use=calls[0])
                opaque.discard(p_)
        # parameters with defaults that no call passes are not views of the buffer
        opaque -= {p_ for p_ in cpar[1:] if all(p_ not in b for b in binds)}
    ev2 = _events_in(cal.body, cenv, subst, opaque)
    readers = [e[0] for e in ev2.values() if any(k == "read" for k, _ in e[1])]
    zloops = [n for n in cal.body if isinstance(n, (ast.For, ast.While)) and any(r_ is x for r_ in readers for x in ast.walk(n))]
    undecided = None
    if p1 is None:
        undecided = "too many paths through the mode loop"
    elif not readers:
        undecided = f"no evaluation of self._coeffs found in {callee}"
    elif len(zloops) > 1 or (zloops and any(not any(r_ is x for x in ast.walk(zloops[0])) for r_ in readers)):
        undecided = f"self._coeffs is evaluated in several places of {callee}"
    if undecided is None:
        if zloops:
            k_ = next(k for k, s_ in enumerate(cal.body) if s_ is zloops[0])
            prefix, zbody = cal.body[:k_], zloops[0].body
        else:
            prefix, zbody = [], cal.body
        evs = [e[0] for e in ev2.values()]
        p2 = _paths(prefix, evs)
        p3 = _paths(zbody, evs)
        if p2 is None or p3 is None:
            undecided = f"too many paths through {callee}"
    if undecided is not None:
        chk.ob("F4-dirichlet-reset", lp, construct, None, undecided, file=U.POISSON, func=q)
        _stale_once(chk, callee, None, undecided, cal)
        return

    def run(got, evmap, state, on_call=None, on_read=None):
        """apply the events of one path, in order, to state = [reset entries, store kind, notes]"""
        for mark, st in got:
            if on_call is not None and any(st is c for c in calls):
                on_call(state)
            for kind, arg in evmap.get(id(st), (None, []))[1]:
                if mark == "maybe":
                    if kind != "read":
                        state[2].append(("nested", f"`{src(st).splitlines()[0][:50]}` sits inside a nested block"))
                    elif on_read is not None:
                        on_read(state, st, True)
                    continue
                if kind == "reset":
                    if state[1] not in (None, "zero"):
                        state[2].append(("clobber", st))
                    state[0] = state[0] | set(arg)
                elif kind == "whole":
                    state[0] = {0, -1}
                    state[1] = arg
                elif kind == "store":
                    state[1] = arg
                elif kind == "unknown":
                    state[2].append(("unknown", arg))
                elif kind == "read" and on_read is not None:
                    on_read(state, st, False)

    reset_stmts = [e_[0] for e_ in list(ev1.values()) + list(ev2.values()) if any(k == "reset" or k == "whole" for k, _ in e_[1])]

    def blame(conds):
        """the conditions up to the test whose other branch holds a reset: the test that lets this path skip it"""
        for k, (t_, pol, node) in enumerate(conds):
            other = node.orelse if pol else node.body
            if any(r_ is x for o_ in other for x in ast.walk(o_) for r_ in reset_stmts):
                return conds[:k + 1]
        return []
    at_call = []            # (reset entries, notes, conditions) for every path of the mode loop that reaches the solve
    for conds, got, end in p1:
        hit = []
        state = [set(), None, []]
        run(got, ev1, state, on_call=lambda s_: hit.append((set(s_[0]), list(s_[2]), conds)) if not hit else None)
        at_call += hit
    entry2 = []
    for conds, got, end in p2:
        if isinstance(end, (ast.Return, ast.Raise)):
            continue
        state = [set(), None, []]
        run(got, ev2, state)
        entry2.append((set(state[0]), list(state[2]), conds))
    # distinct combinations only
    def distinct(xs):
        seen, out = set(), []
        for r_, notes, conds in xs:
            key = (frozenset(r_), tuple(sorted(str(n_[0]) for n_ in notes)))
            if key not in seen:
                seen.add(key)
                out.append((r_, notes, conds))
        return out
    at_call, entry2 = distinct(at_call), distinct(entry2)
    findings = []           # (rule, verdict, where, why)
    for r1, n1, c1 in at_call:
        for r2, n2, c2 in entry2 or [(set(), [], [])]:
            for conds, got, end in p3:
                state = [set(r1) | set(r2), None, list(n1) + list(n2)]

                def on_read(state, st, nested, conds=conds, c1=c1, c2=c2):
                    notes = state[2]
                    unknown = [n_ for n_ in notes if n_[0] in ("unknown", "nested")] or nested
                    missing = {0, -1} - state[0]
                    clob = [n_ for n_ in notes if n_[0] == "clobber"]
                    if clob:
                        findings.append(("reset", None if unknown else False, clob[0][1],
                                         f"`{src(clob[0][1])[:50]}` runs after the solution of the line was stored and before it is evaluated: "
                                         "for a mode with a Neumann condition that coefficient is an unknown and its solved value is replaced by 0"))
                    elif missing:
                        findings.append(("reset", None if unknown else False, st, (missing, blame(conds) or blame(c2) or blame(c1))))
                    else:
                        findings.append(("reset", True, st, ""))
                    if state[1] == "solved":
                        findings.append(("stale", True, st, ""))
                    elif state[1] is None:
                        findings.append(("stale", None if unknown else False, st, ("none", conds)))
                    else:
                        findings.append(("stale", None, st, (state[1], conds)))
                run(got, ev2, state, on_read=on_read)
    # ---- F4-dirichlet-reset
    # AUDIT (VIOLATED): "a boundary entry is not zeroed for this mode before it is evaluated" is true of the code when every write of
    # the buffer on the path was classified: writes through views and np.copyto / fill are followed, anything else that touches the
    # buffer (in-place update, rebinding, a call that receives it, an index that is neither a recognised boundary position nor a
    # range given by names, a store inside a nested block) puts an `unknown` note on the path and the verdict becomes undecided; the
    # caller's loop body and the per-mode solve are composed, so it does not matter which of the two holds the reset
    rs = [f for f in findings if f[0] == "reset"]
    bad_ = [f for f in rs if f[1] is False]
    und_ = [f for f in rs if f[1] is None]
    if bad_:
        f = bad_[0]
        if isinstance(f[3], str):
            why = f[3]
        else:
            missing, conds = f[3]
            anywhere = set()
            for e_ in list(ev1.values()) + list(ev2.values()):
                for k, a in e_[1]:
                    if k == "reset":
                        anywhere |= set(a)
            if len(missing) == 1 and anywhere and not (anywhere & missing) and not conds:
                side = "upper" if 0 in anywhere else "lower"
                why = (f"only one boundary coefficient is reset per mode: the {side} boundary value of a Neumann mode leaks into the "
                       "following Dirichlet modes")
            else:
                why = leak
                outside = [n for n in ast.walk(fn) if isinstance(n, ast.Assign) and _reset_targets(n) and not any(n is x for x in ast.walk(lp))]
                late = [e_[0] for e_ in ev1.values() if any(k == "reset" for k, _ in e_[1]) and all(env.before(c, e_[0]) for c in calls)]
                if conds:
                    why += f" - on the path where {_cond_text(conds)} the reset is skipped"
                elif outside:
                    why += f" - `{src(outside[0])[:40]}` runs once per call, outside the loop over the modes"
                elif late:
                    why += f" - `{src(late[0])[:40]}` runs after the solve of the mode"
        chk.ob("F4-dirichlet-reset", lp, construct, False, why, file=U.POISSON, func=q)
    elif und_ or not rs:
        notes = "no path from the mode loop to the evaluation of the coefficients was followed"
        if und_:
            notes = "the writes of self._coeffs between the start of a mode and the evaluation of its coefficients were not all followed"
        chk.ob("F4-dirichlet-reset", lp, construct, None, notes, file=U.POISSON, func=q)
    else:
        chk.ob("F4-dirichlet-reset", lp, construct, True, good, file=U.POISSON, func=q)
    _stale_once(chk, callee, [f for f in findings if f[0] == "stale"], None, cal, cenv, zloops)


def _stale_once(chk, callee, stale, undecided, cal=None, cenv=None, zloops=None):
    """F4-stale-coefficients: the unknowns of the mode are stored for this line on every path that reaches their evaluation"""
    done = _store(chk).setdefault("_c14_stale_done", set())
    if (callee, id(cal)) in done:
        return
    done.add((callee, id(cal)))
    q = f"{CLS}.{callee}"
    construct = f"{callee}: the coefficients evaluated into phi were solved for this (mode, z) line"
    if undecided is not None or not stale:
        chk.ob("F4-stale-coefficients", cal if cal is not None else chk.mod(U.POISSON).tree, construct, None,
               undecided or "no evaluation of self._coeffs reached", file=U.POISSON, func=q)
        return
    # a path that fills the unknowns with zeros instead of solving stores the solution exactly when its conditions say that the
    # right-hand side line is exactly zero (linear problem, homogeneous boundary values)
    zero_paths = 0
    judged = []
    for f in stale:
        if f[1] is None and isinstance(f[3], tuple) and f[3][0] == "zero" and f[3][1] and cenv is not None:
            kinds = [_zero_test(cenv.x(t_, use=if_), pol, lambda e_, if_=if_: src(cenv.x(e_, use=if_)).replace(" ", "").startswith("rho.get1DSlice("))
                     for t_, pol, if_ in f[3][1]]
            if any(k_ == "exact" for k_ in kinds):
                zero_paths += 1
                judged.append((f[0], True, f[2], ""))
                continue
        judged.append(f)
    # AUDIT (VIOLATED): "nothing was stored into the unknowns for this line" under the same completeness condition as
    # F4-dirichlet-reset (every write classified, no `unknown` note on the path); a path that stores zeros / another value is undecided
    # unless its condition says the right-hand side line is exactly zero
    bad_ = [f for f in judged if f[1] is False]
    und_ = [f for f in judged if f[1] is None]
    if bad_:
        _, _, st, (kind, conds) = bad_[0]
        lead = f"on the path where {_cond_text(conds)}" if conds else "on a path through the loop"
        chk.ob("F4-stale-coefficients", conds[-1][2] if conds else st, construct, False,
               f"{lead} the coefficient vector self._coeffs is evaluated into phi by `{src(st)[:60]}` although nothing was stored into the "
               "unknowns of the mode for this line: they still hold the solution of the previous line / mode / call (or the uninitialised "
               "memory of np.empty on a fresh solver), only the two boundary entries are reset per mode. The line of phi is then not the "
               "solution for this rho: it is not zero for rho = 0 and depends on what was solved before (modes and calls no longer independent)",
               file=U.POISSON, func=q)
        return
    if und_:
        _, _, st, info = und_[0]
        why = "the writes of self._coeffs before its evaluation were not all followed"
        if isinstance(info, tuple) and info[0] in ("zero", "other"):
            kind, conds = info
            why = (f"on the path where {_cond_text(conds) or 'the loop body runs'} the unknowns are filled with "
                   f"{'zeros' if kind == 'zero' else 'a value that is not the result of the sparse solve'} before they are evaluated: not "
                   "recognised as the solution of the line")
        chk.ob("F4-stale-coefficients", st, construct, None, why, file=U.POISSON, func=q)
        return
    chk.ob("F4-stale-coefficients", judged[0][2], construct, True,
           "on every path through an iteration of the z loop the unknowns of the mode are overwritten by the sparse solve for this line before "
           "self._coeffs is evaluated" + (" (filled with zeros for a line of rho that is exactly zero)" if zero_paths else ""),
           file=U.POISSON, func=q)


def carried_state(chk):
    """F4-carried-state: a value computed from the mode at hand (a per-mode table looked up at the mode index, a line of rho) and
    kept in an attribute of the solver under a `not yet computed` test is state carried to the next mode / line / call: unless
    the test (or the key it is stored under) names the mode, every later mode reads the value of the first one"""
    seen_fn = set()
    found = 0
    for cls, m, callee in entry_points(chk):
        fn, lp, li, gi = mode_loop(chk, cls, m)
        units = []
        if lp is not None:
            units.append((f"{cls}.{m}", fn, {x for x in (li, gi) if x and x.isidentifier()}))
        cal = flat_view(chk, U.POISSON, CLS, callee)
        li_p, gi_p, _, _ = solve_roles(chk, callee)
        units.append((f"{CLS}.{callee}", cal, {li_p, gi_p}))
        for q, f_, modevars in units:
            if id(f_) in seen_fn:
                continue
            seen_fn.add(id(f_))
            env = env_of(chk, f_)
            zvars = set()
            for n in ast.walk(f_):
                if isinstance(n, ast.For):
                    zvars |= {x.id for x in ast.walk(n.target) if isinstance(x, ast.Name)}
            zvars -= modevars
            for st in [n for n in ast.walk(f_) if isinstance(n, ast.Assign) and len(n.targets) == 1]:
                t = st.targets[0]
                key = None
                if isinstance(t, ast.Subscript) and isinstance(t.value, ast.Attribute):
                    t, key = t.value, t.slice
                if not (isinstance(t, ast.Attribute) and isinstance(t.value, ast.Name) and t.value.id == "self"):
                    continue
                A = src(t)
                # kept only when not yet there: an enclosing test on the attribute itself
                guards = []
                cur, p_ = st, parent(st)
                while p_ is not None and p_ is not f_:
                    if isinstance(p_, ast.If) and any(isinstance(x, ast.Attribute) and src(x) == A for x in ast.walk(p_.test)):
                        guards.append(p_)
                    cur, p_ = p_, parent(p_)
                if not guards:
                    continue
                found += 1
                ex = env.x(st.value, use=st)
                deps = {x.id for x in ast.walk(ex) if isinstance(x, ast.Name)}
                keyed = {x.id for g_ in guards for x in ast.walk(env.x(g_.test, use=g_)) if isinstance(x, ast.Name)}
                if key is not None:
                    keyed |= {x.id for x in ast.walk(env.x(key, use=st)) if isinstance(x, ast.Name)}
                mode_dep, mode_key = deps & modevars, keyed & modevars
                z_dep, z_key = deps & zvars, keyed & zvars
                construct = f"{A} kept across modes: {src(st)[:60]}"
                # AUDIT: "the later modes read the value of the first one" needs the VALUE to depend on the mode / line: a scratch
                # buffer allocated lazily from the shape of the first line (np.empty_like(line), np.zeros(len(line)), ...) depends on it
                # only through a shape - whether that shape is the same for every mode is not followed
                if (mode_dep and not mode_key or z_dep and not z_key) and _shape_only(ex):
                    chk.ob("F4-carried-state", st, construct, None,
                           f"`{src(st)[:80]}` is a buffer allocated once from the shape of the first mode / line at hand: whether every "
                           "later mode / line has the same shape is not followed", file=U.POISSON, func=q)
                elif mode_dep and not mode_key:
                    chk.ob("F4-carried-state", st, construct, False,
                           f"`{src(st)[:80]}` is computed from the mode at hand (`{sorted(mode_dep)[0]}`) but stored once, under "
                           f"`{src(guards[0].test)[:50]}`, a test that does not name the mode: the solves of all the other modes (and of later "
                           "calls) read the value computed for the first mode solved by this process, so a mode is solved with the rows / range / "
                           "matrix of another mode (modes not independent, result depends on the process grid and on the call history)",
                           file=U.POISSON, func=q)
                elif z_dep and not z_key:
                    chk.ob("F4-carried-state", st, construct, False,
                           f"`{src(st)[:80]}` depends on the line at hand (`{sorted(z_dep)[0]}`) but is stored once, under "
                           f"`{src(guards[0].test)[:50]}`: every later line reads the value of the first one", file=U.POISSON, func=q)
                elif env.amb or (deps & (set(_params(f_)) - {"self"}) - modevars - keyed):
                    chk.ob("F4-carried-state", st, construct, None,
                           f"`{src(st)[:80]}` is kept across calls under `{src(guards[0].test)[:50]}` and depends on the arguments of the call: "
                           "not followed", file=U.POISSON, func=q)
                else:
                    chk.ob("F4-carried-state", st, construct, True,
                           "the value kept does not depend on the mode / line at hand, or is stored under a key that names it",
                           file=U.POISSON, func=q)
    if not found:
        chk.ob("F4-carried-state", chk.mod(U.POISSON).tree, "no value of one mode is kept in the solver for the next", True,
               "the per-mode solves keep no memoised per-mode value in attributes of the solver (the shared coefficient buffer is judged "
               "by F4-dirichlet-reset / F4-stale-coefficients)", file=U.POISSON, func="<module>", nontrivial=False)


ALLOCATORS = ("empty", "zeros", "ones", "empty_like", "zeros_like", "ones_like", "full", "full_like")


def _shape_only(e):
    """np.empty(...) / np.zeros_like(...) / ...: the value depends on its arguments through a shape and a dtype only"""
    return isinstance(e, ast.Call) and src(e.func).split(".")[-1] in ALLOCATORS and src(e.func).split(".")[0] in ("np", "numpy")


NOT_NONE = ...        # marker: an argument that is an object of the caller (one of its own required parameters), not None


def solve_view(chk, callee, cls=None, m=None):
    """the per-mode solve as the entry point (cls, m) runs it: when every call of that entry point binds a parameter to a literal
    True / False / None (or leaves it at such a default), or hands over one of its own required parameters, the tests on that
    parameter are decided and the branches not taken are dropped - a per-mode solve merged from two siblings (`rhoFunc=None`) is
    thereby analysed once per binding.  Without such a parameter this is the flat view itself."""
    base = flat_view(chk, U.POISSON, CLS, callee)
    if cls is None:
        return base
    cache = _store(chk).setdefault("_c14_solve_views", {})
    key = (callee, cls, m)
    if key in cache:
        return cache[key]
    cache[key] = base
    try:
        fn, lp, li, gi = mode_loop(chk, cls, m)
    except AnalysisError:
        return base
    if lp is None:
        return base
    cpar = [a_.arg for a_ in base.args.args]
    dflt = dict(zip(cpar[len(cpar) - len(base.args.defaults):], base.args.defaults))
    calls = [c for c in ast.walk(lp) if isinstance(c, ast.Call) and isinstance(c.func, ast.Attribute) and c.func.attr == callee]
    binds = [bind_call(c, cpar) for c in calls]
    if not binds or any(b is None for b in binds):
        return base
    required = set(_params(fn)[:len(fn.args.args) - len(fn.args.defaults)])
    flags = {}
    for p_ in cpar[1:]:
        vals = [b.get(p_, dflt.get(p_)) for b in binds]
        if all(isinstance(v, ast.Constant) and (v.value is None or isinstance(v.value, bool)) for v in vals) and len({repr(v.value) for v in vals}) == 1:
            flags[p_] = ast.Constant(value=vals[0].value)
        elif all(isinstance(v, ast.Name) and v.id in required and v.id != "self" for v in vals):
            flags[p_] = ast.Constant(value=NOT_NONE)
    stored = {n.id for n in ast.walk(base) if isinstance(n, ast.Name) and isinstance(n.ctx, ast.Store)}
    tested = {x.id for n in ast.walk(base) if isinstance(n, (ast.If, ast.IfExp)) for x in ast.walk(n.test) if isinstance(x, ast.Name)}
    flags = {k: v for k, v in flags.items() if k in tested and k not in stored}
    if not flags:
        return base
    view = _clone(base)
    view._qual = getattr(base, "_qual", callee)

    class T(ast.NodeTransformer):
        def visit_If(self_, node):
            node.test = _Sub({}, flags).visit(node.test) if _decided(node.test) else node.test
            return self_.generic_visit(node)

        def visit_IfExp(self_, node):
            node.test = _Sub({}, flags).visit(node.test) if _decided(node.test) else node.test
            return self_.generic_visit(node)

    def _decided(test):
        t2 = _Sub({}, flags).visit(_clone(test))
        return _const_truth(t2) is not None
    T().visit(view)
    view.body = _fold_constants(view.body) or [ast.Pass()]
    ast.fix_missing_locations(view)
    _relink(view, parent(base))
    cache[key] = view
    return view


def _is_spsolve(c):
    return isinstance(c, ast.Call) and src(c.func).split(".")[-1] == "spsolve" and len(c.args) >= 2


def solve_operator(chk, callee, cls=None, m=None):
    """the caller and the per-mode solve are one unit: (the matrix the per-mode solve hands to the sparse solve, as an expression over
    its own parameters with its locals expanded; its parameter names; was every local followed?).  A restriction / scaling of the
    operator done by the callee is thereby composed with what the caller passes.  None when there is not exactly one sparse solve."""
    cal = solve_view(chk, callee, cls, m)
    env = env_of(chk, cal)
    calls = [c for c in ast.walk(cal) if _is_spsolve(c)]
    if len(calls) != 1:
        return None
    st = _stmt_of(calls[0])
    mat = env.x(calls[0].args[0], use=st)
    return mat, [a.arg for a in cal.args.args], not env.amb


def bind_call(call, params, skip_self=True):
    """parameter -> argument expression of a method call (positional and keyword), None when it cannot be bound"""
    ps = params[1:] if skip_self else params
    if any(isinstance(a, ast.Starred) for a in call.args) or any(k.arg is None for k in call.keywords) or len(call.args) > len(ps):
        return None
    out = dict(zip(ps, call.args))
    for k in call.keywords:
        if k.arg not in ps or k.arg in out:
            return None
        out[k.arg] = k.value
    return out


def _guarded_by_m0_operator(st, stop):
    """the statement only runs when `self._stiffness0 is not None`: the branch of a solver whose sub-class provided an m = 0 operator"""
    cur, p = st, parent(st)
    while p is not None and p is not stop:
        if isinstance(p, ast.If) and any(cur is x for x in p.body):
            for a_, pol in _conjuncts(p.test, True):
                if pol and isinstance(a_, ast.Compare) and len(a_.ops) == 1 and isinstance(a_.ops[0], ast.IsNot) and \
                        src(a_.left) == "self._stiffness0" and src(a_.comparators[0]) == "None":
                    return True
        cur, p = p, parent(p)
    return False


def per_mode(chk):
    fn_init = flat_view(chk, U.POISSON, CLS, "__init__")
    env_i = env_of(chk, fn_init)
    # the numbers tested against the Neumann lists are the transform's own mode numbers
    from .C15 import mode_numbers
    mode_numbers(chk)
    # Neumann membership tests read the mode numbers while the table holds m itself
    neumann_tables(chk, fn_init)
    membership_order(chk)
    # the derived solver's m=0 operator is built from the same blocks (their signs are this class's convention)
    from .C15 import m0_operator, operator_storage
    m0_operator(chk)
    operator_storage(chk)
    mode_power(chk)
    # per-mode operator and Dirichlet reset inside the loop, before the solve
    for cls, m, callee in entry_points(chk):
        fn, lp, li, gi = mode_loop(chk, cls, m)
        if lp is None:
            for rule in ("F4-dirichlet-reset", "F4-mode-operator"):
                chk.ob(rule, fn, f"{cls}.{m}: per-mode loop", None, "loop over enumerate(<grid>.getGlobalIdxVals(0)) not found",
                       file=U.POISSON, func=f"{cls}.{m}")
            continue
        env = env_of(chk, fn)
        body = lp.body
        dirichlet_reset(chk, cls, m, callee, fn, lp, env)
        # every mode of the local block is solved: no path through an iteration of the mode loop misses the per-mode solve
        call_stmts = [s_ for s_ in ast.walk(lp) if isinstance(s_, (ast.Expr, ast.Assign, ast.Return)) and any(
            isinstance(c, ast.Call) and isinstance(c.func, ast.Attribute) and c.func.attr == callee for c in ast.walk(s_))]
        mp = _paths(lp.body, call_stmts) if call_stmts else None
        if mp is None:
            chk.ob("F4-output-complete", lp, f"{cls}.{m}: every mode of the local block is solved", None,
                   "call of the per-mode solve not found / too many paths", file=U.POISSON, func=f"{cls}.{m}")
        else:
            v_, where_, why_ = True, lp, "every path through an iteration of the mode loop calls the per-mode solve"
            for conds, got, end in mp:
                if isinstance(end, ast.Raise) or any(k_ == "sure" for k_, _ in got) and not isinstance(end, (ast.Break, ast.Return)):
                    continue
                if any(k_ == "maybe" for k_, _ in got) and not isinstance(end, (ast.Break, ast.Return)):
                    if v_ is True:
                        v_, where_, why_ = None, lp, "the per-mode solve is called from a nested block: not followed"
                    continue
                lead = (src(conds[-1][2]) if conds else src(end if end is not None else lp)).splitlines()[0][:80]
                # AUDIT: "the lines of the skipped modes keep whatever the buffer held" needs that nothing else writes them: no other
                # call receives phi (the per-mode solve called from a second loop / outside this loop included), no store into phi
                in_loop = {id(x) for x in ast.walk(lp)}
                others = [c for c in ast.walk(fn) if isinstance(c, ast.Call) and
                          not (isinstance(c.func, ast.Attribute) and c.func.attr == callee and id(c) in in_loop)
                          and any(isinstance(a_, ast.Name) and a_.id == "phi" for a_ in list(c.args) + [k.value for k in c.keywords])] + \
                    [n for n in ast.walk(fn) if isinstance(n, (ast.Assign, ast.AugAssign)) and any(
                        isinstance(t_, ast.Subscript) and src(env.x(t_.value, use=n)).startswith("phi.")
                        for t_ in (n.targets if isinstance(n, ast.Assign) else [n.target]))]
                if others:
                    v_, where_, why_ = None, lp, (f"`{lead}` skips the per-mode solve, but phi is also written by `{src(others[0])[:60]}`: "
                                                 "not followed")
                    break
                v_, where_ = False, (end if end is not None else (conds[-1][2] if conds else lp))
                why_ = (f"`{lead}` lets an iteration of the mode loop end without the per-mode solve"
                        f"{' (and leaves the loop)' if isinstance(end, (ast.Break, ast.Return)) else ''}: the lines of phi of the modes it "
                        "skips keep whatever the buffer held, they are not the solution for this rho")
                break
            chk.ob("F4-output-complete", where_, f"{cls}.{m}: every mode of the local block is solved", v_, why_, file=U.POISSON, func=f"{cls}.{m}")
        # operator for mode I: restricted to the unknowns of the global mode index, every per-mode table read at that index
        R = ranges_of(chk)
        per_mode_tables = set(TABLES) | set(R.tables) | set(R.int_tables) | R.mt.tables() | R.bases
        oko, bad, und = False, None, None
        tabs = []
        for s_ in ast.walk(lp):
            if isinstance(s_, ast.stmt):
                for e_ in _own_exprs(s_):
                    ex = env.x(e_, use=s_)
                    tabs += [n for n in ast.walk(ex) if isinstance(n, ast.Subscript) and src(n.value) in per_mode_tables]
        # AUDIT: "looked up with the wrong index" is true of the code only when the index is provably not the global mode index: it
        # is the loop's local index (position in this process's block).  Any other index expression (a conversion, a sub-table taken
        # at the global indices and then read at the local one, ...) is not compared by its text: undecided
        wrong = sorted({src(n) for n in tabs if li is not None and li != gi and src(n.slice) == li})
        foreign = sorted({src(n) for n in tabs if src(n.slice) != gi and not (li is not None and li != gi and src(n.slice) == li)})
        if wrong:
            bad = f"per-mode tables are looked up with {wrong}, the position in the local block, instead of the global mode index `{gi}`"
        elif foreign:
            und = [f"per-mode tables are looked up with {foreign}: not recognised as the global mode index `{gi}`"]
        else:
            # the matrix handed to the per-mode solve: the argument itself, or every definition of the local it names
            cal = flat_view(chk, U.POISSON, CLS, callee)
            cpar = [a_.arg for a_ in cal.args.args]
            # caller and callee are one unit: what the per-mode solve does to its operator argument before the sparse solve (a
            # restriction to the unknowns that moved into it, ...) is composed with the expression the caller passes
            so = solve_operator(chk, callee, cls, m)
            followed = True
            sites = []
            for c in [c for c in ast.walk(lp) if isinstance(c, ast.Call) and isinstance(c.func, ast.Attribute) and c.func.attr == callee]:
                bound = bind_call(c, cpar) if len(cpar) > 3 else None
                arg = bound.get(cpar[3]) if bound else (c.args[2] if len(c.args) > 2 else None)
                if arg is None:
                    continue

                def composed(ex, c=c, bound=bound):
                    if so is None or bound is None:
                        return ex
                    mat, _, _ = so
                    sub = {p_: env.x(a_, use=_stmt_of(c)) for p_, a_ in bound.items() if p_ != cpar[3]}
                    sub[cpar[3]] = ex
                    return _Sub({}, sub).visit(_clone(mat))
                if so is not None and (bound is None or not so[2]):
                    followed = False
                if isinstance(arg, ast.Name) and arg.id in env.bind:
                    # every definition of the local inside the loop, through copies (`a = b` with b defined on several branches)
                    def leaf_defs(name, depth=0):
                        out_ = []
                        for d in env.bind.get(name, []):
                            if d[2] is None or not any(d[1] is x for x in ast.walk(lp)):
                                continue
                            if isinstance(d[2], ast.Name) and d[2].id in env.bind and depth < 4 and \
                                    any(b_[2] is not None and any(b_[1] is x for x in ast.walk(lp)) for b_ in env.bind[d[2].id]):
                                out_ += leaf_defs(d[2].id, depth + 1)
                            else:
                                out_.append(d)
                        return out_
                    sites += [(d[1], composed(env.x(d[2], use=d[1]))) for d in leaf_defs(arg.id)]
                else:
                    sites.append((_stmt_of(c), composed(env.x(arg, use=_stmt_of(c)))))
            generic = [(st_, ex) for st_, ex in sites if any(src(x) == "self._k2PhiPsi" for x in ast.walk(ex))]
            special = [(st_, ex) for st_, ex in sites if not any(src(x) == "self._k2PhiPsi" for x in ast.walk(ex))]
            verdicts = []
            for st_, ex in generic:
                v_, why_ = restricted_to_unknowns(R, ex, FLAG_CASES)
                if v_ and not any(src(x) == "self._stiffnessMatrix" for x in ast.walk(ex)):
                    v_, why_ = None, "the theta-independent operator self._stiffnessMatrix does not enter the operator of the mode"
                verdicts.append((v_, why_, ex))
            for st_, ex in special:
                # an operator without the m^2 term: the mode m = 0 of the derived solver, whose boundary conditions are known (in the
                # derived class, or in the base class on the branch that runs only when a sub-class provided the m = 0 operator)
                cases0 = None
                if cls == QNC or (_guarded_by_m0_operator(st_, fn) and any(src(x) == "self._stiffness0" for x in ast.walk(ex))):
                    cases0 = qn_mode0_case(chk)
                v_, why_ = restricted_to_unknowns(R, ex, cases0) if cases0 else (None, "operator without the k2 block outside the m = 0 branch "
                                                                                 "of the quasi-neutrality solver")
                verdicts.append((v_, why_, ex))
            if not followed:
                verdicts = [(None if v_ is False else v_, why_ if v_ is not False else
                             "the matrix handed to the sparse solve inside the per-mode solve was not followed to its definition", ex)
                            for v_, why_, ex in verdicts]
            wrong2 = sorted({src(n) for _, ex in sites for n in ast.walk(ex) if isinstance(n, ast.Subscript)
                             and src(n.value) in per_mode_tables and li is not None and src(n.slice) == li != gi})
            if wrong2 and followed:
                bad = (f"in the operator handed to the sparse solve, `{src(sites[0][1])[:80]}`, per-mode tables are looked up with {wrong2} "
                       f"instead of the global mode index `{gi}`")
            elif any(v_ is False for v_, _, _ in verdicts):
                v_, why_, ex = [x for x in verdicts if x[0] is False][0]
                bad = f"the operator of mode {gi}, `{src(ex)[:70]}`, is " + why_ if why_.startswith("restricted") else why_
            elif verdicts and generic and all(v_ is True for v_, _, _ in verdicts):
                oko = True
            elif verdicts:
                und = [why_ for v_, why_, _ in verdicts if v_ is None]
        if bad or oko or not und:
            chk.pat("F4-mode-operator", lp, f"{cls}.{m}: operator of mode I", oko,
                    "operator = (theta-independent operator - m_I^2 k2); its rows and columns are the unknowns of mode I for every combination "
                    "of boundary conditions; every per-mode table is read at the global mode index", bad, file=U.POISSON, func=f"{cls}.{m}")
        else:
            chk.ob("F4-mode-operator", lp, f"{cls}.{m}: operator of mode I", None, "restriction of the operator not followed: " + und[0],
                   file=U.POISSON, func=f"{cls}.{m}")
    mode_solve(chk)
    line_buffers(chk)
    output_complete(chk)
    carried_state(chk)


def callee_binding(chk, callee, exclude=()):
    """parameter -> the expression every caller passes for it (resolved in the caller), for the parameters of a per-mode solve that
    receive a computed value (a view of the coefficient buffer, rows of the mass matrix) rather than a plain name: work moved from
    the callee to its callers is thereby composed back.  Only parameters on which all the calling entry points agree."""
    cal = flat_view(chk, U.POISSON, CLS, callee)
    cpar = [a_.arg for a_ in cal.args.args]
    seen = {}
    for cls, m, cl in entry_points(chk):
        if cl != callee:
            continue
        fn, lp, li, gi = mode_loop(chk, cls, m)
        if lp is None:
            return {}
        env = env_of(chk, fn)
        for c in [c for c in ast.walk(lp) if isinstance(c, ast.Call) and isinstance(c.func, ast.Attribute) and c.func.attr == callee]:
            b = bind_call(c, cpar)
            if b is None:
                return {}
            for p_, a_ in b.items():
                ex = env.x(a_, use=_stmt_of(c))
                seen.setdefault(p_, []).append(None if env.amb else ex)
    out = {}
    for p_, exs in seen.items():
        if p_ in exclude or any(e is None for e in exs) or len({src(e) for e in exs}) != 1 or isinstance(exs[0], (ast.Name, ast.Constant)):
            continue
        out[p_] = exs[0]
    return out


def solve_roles(chk, callee):
    """the parameters of a per-mode solve by role, from what its callers pass: (local mode index, global mode index, operator,
    the callers' own names of the global mode index)"""
    cal = flat_view(chk, U.POISSON, CLS, callee)
    cpar = [a_.arg for a_ in cal.args.args]
    li_p = gi_p = op_p = None
    gnames = set()
    for cls, m, cl in entry_points(chk):
        if cl != callee:
            continue
        fn, lp, li, gi = mode_loop(chk, cls, m)
        if lp is None:
            continue
        env = env_of(chk, fn)
        if gi:
            gnames.add(gi)
        for c in [c for c in ast.walk(lp) if isinstance(c, ast.Call) and isinstance(c.func, ast.Attribute) and c.func.attr == callee]:
            b = bind_call(c, cpar)
            for p_, a_ in (b or {}).items():
                t = src(a_)
                if li and t == li:
                    li_p = p_
                if gi and (t == gi or src(env.x(a_, use=_stmt_of(c))) == gi):
                    gi_p = p_
                if any(isinstance(x, ast.Attribute) and src(x) in ("self._k2PhiPsi", "self._stiffness0", "self._stiffnessMatrix")
                       for x in ast.walk(env.x(a_, use=_stmt_of(c)))):
                    op_p = p_
    if len(cpar) >= 6:
        li_p, gi_p, op_p = li_p or cpar[4], gi_p or cpar[5], op_p or cpar[3]
    return li_p or "i", gi_p or "I", op_p or "stiffnessMatrix", gnames


def entry_points(chk):
    """(class, entry point, per-mode solve it calls): the per-mode solve is found by its role - the method of the solver that the
    loop over the modes calls with the potential grid - so that a renamed / merged per-mode solve is followed; the reference names
    are the fallback"""
    cache = _store(chk).setdefault("_c14_entries", [])
    if cache:
        return cache[0]
    out = []
    mod = chk.mod(U.POISSON)
    for cls, m, default in ENTRIES:
        callee = default
        try:
            fn, lp, li, gi = mode_loop(chk, cls, m)
        except AnalysisError:
            lp = None
        if lp is not None:
            cands = []
            for c in ast.walk(lp):
                if isinstance(c, ast.Call) and isinstance(c.func, ast.Attribute) and isinstance(c.func.value, ast.Name) and c.func.value.id == "self" \
                        and _method(mod, cls, c.func.attr)[1] is not None and \
                        any(isinstance(a_, ast.Name) and a_.id == "phi" for a_ in list(c.args) + [k.value for k in c.keywords]):
                    cands.append(c.func.attr)
            if default not in cands and len(set(cands)) == 1:
                callee = cands[0]
        out.append((cls, m, callee))
    cache.append(out)
    return out


def _single_output_buffer(chk, spline_cls="Spline1D", interp_cls="SplineInterpolator1D"):
    """Is `<spline>.coeffs` ONE array for the whole life of the spline, which `<interpolator>.compute_interpolant(values, <spline>)`
    overwrites in place?  (True / None, reason).  Established from the two classes, never assumed:
      * the spline's `coeffs` is a property that returns one attribute of the object, which is bound in __init__ only (and has no setter);
      * compute_interpolant never rebinds an attribute of its spline parameter, and stores into elements of `<spline>.coeffs` - directly
        or in the helpers of its class that receive `<spline>.coeffs` as an argument and only store into its elements."""
    try:
        smod, imod = chk.mod(U.SPLINES), chk.mod(U.INTERP)
        scls = smod.cls(spline_cls)
        ci = chk.func(U.INTERP, f"{interp_cls}.compute_interpolant")
        helpers = imod.methods(interp_cls)
    except AnalysisError as e_:
        return None, str(e_)
    props = [m_ for m_ in scls.body if isinstance(m_, ast.FunctionDef) and m_.name == "coeffs"]
    if len(props) != 1 or [src(d) for d in props[0].decorator_list] != ["property"]:
        return None, f"`coeffs` of {spline_cls} is not a read-only property"
    body = [s_ for s_ in props[0].body if not (isinstance(s_, ast.Expr) and isinstance(s_.value, ast.Constant))]
    if len(body) != 1 or not isinstance(body[0], ast.Return) or not (
            isinstance(body[0].value, ast.Attribute) and isinstance(body[0].value.value, ast.Name) and body[0].value.value.id == "self"):
        return None, f"the property `coeffs` of {spline_cls} does not simply return an attribute of the object"
    attr = body[0].value.attr
    for m_ in scls.body:
        if not isinstance(m_, ast.FunctionDef):
            continue
        for n in ast.walk(m_):
            if isinstance(n, ast.Attribute) and n.attr == attr and isinstance(n.ctx, (ast.Store, ast.Del)) and m_.name != "__init__":
                return None, f"{spline_cls}.{m_.name} rebinds `{attr}`"
            if isinstance(n, ast.Call) and src(n.func) in ("setattr", "delattr"):
                return None, f"{spline_cls}.{m_.name} uses setattr"
    if scls.bases and [src(b) for b in scls.bases] != ["object"]:
        return None, f"{spline_cls} has base classes: not followed"
    a = ci.args
    if a.vararg or a.kwarg or len(a.args) != 3:
        return None, "the signature of compute_interpolant is not (self, values, spline)"
    sp_ = a.args[2].arg
    if any(isinstance(n, ast.Name) and n.id == sp_ and isinstance(n.ctx, ast.Store) for n in ast.walk(ci)):
        return None, f"compute_interpolant rebinds its parameter `{sp_}`"
    if any(isinstance(n, ast.Attribute) and isinstance(n.ctx, ast.Store) and isinstance(n.value, ast.Name) and n.value.id == sp_
           for n in ast.walk(ci)):
        return None, f"compute_interpolant rebinds an attribute of `{sp_}`"
    out_ = f"{sp_}.coeffs"

    def stores_into(fn_, name_txt, depth=0):
        """True when the function stores into elements of the array `name_txt` on some path and never rebinds that name"""
        hit = False
        for n in ast.walk(fn_):
            if isinstance(n, ast.Subscript) and isinstance(n.ctx, ast.Store) and src(n.value) == name_txt:
                hit = True
        return hit
    direct = stores_into(ci, out_)
    passed = []
    for c in ast.walk(ci):
        if isinstance(c, ast.Call) and any(src(x) == out_ for x in list(c.args) + [k.value for k in c.keywords]):
            passed.append(c)
    via = []
    for c in passed:
        if not (isinstance(c.func, ast.Attribute) and isinstance(c.func.value, ast.Name) and c.func.value.id == "self"
                and c.func.attr in helpers) or c.keywords or any(isinstance(x, ast.Starred) for x in c.args):
            return None, f"compute_interpolant hands `{out_}` to `{src(c.func)}`: not followed"
        h = helpers[c.func.attr]
        formals = [x.arg for x in h.args.args][1:]
        k = next(k_ for k_, x in enumerate(c.args) if src(x) == out_)
        if h.args.vararg or h.args.kwarg or k >= len(formals):
            return None, f"the parameters of `{c.func.attr}` were not bound"
        p_ = formals[k]
        if any(isinstance(n, ast.Name) and n.id == p_ and isinstance(n.ctx, ast.Store) for n in ast.walk(h)):
            return None, f"`{c.func.attr}` rebinds its parameter `{p_}`"
        via.append(stores_into(h, p_))
    if not direct and not (via and all(via)):
        return None, f"no store into the elements of `{out_}` was found in compute_interpolant / its helpers"
    return True, (f"`{spline_cls}.coeffs` returns the one array `self.{attr}` allocated by the constructor, and "
                  f"{interp_cls}.compute_interpolant stores the new coefficients into its elements")


def line_buffers(chk):
    """F4-line-buffer: the coefficients of rho of a line are consumed before the interpolation of the next line overwrites them.
    The interpolator fills ONE output array (the spline's coefficients) in place; a reference to that array kept in a list / dict
    across the iterations of the z loop and read after the loop denotes, for every line, the coefficients of the LAST line."""
    eps = entry_points(chk)
    disc = next((cl for c_, m_, cl in eps if c_ == CLS and m_ == "solveEquation"), "_solveMode")
    q = f"{CLS}.{disc}"
    sm = solve_view(chk, disc, CLS, "solveEquation")
    env = env_of(chk, sm)
    fn_init = flat_view(chk, U.POISSON, CLS, "__init__")
    found, emitted = False, 0
    for c in ast.walk(sm):
        if not (isinstance(c, ast.Call) and isinstance(c.func, ast.Attribute) and c.func.attr == "compute_interpolant" and len(c.args) == 2
                and not c.keywords):
            continue
        wst = _stmt_of(c)
        loops = env._loops(wst)
        if not loops:
            continue
        found = True
        lp = loops[-1]          # the outermost loop around the interpolation: nothing collected in it survives as a fresh array
        obj = src(env.x(c.args[1], use=wst))
        buf = obj + ".coeffs"
        in_loop = {id(x) for x in ast.walk(lp)}
        # references to the output array stored into a container inside the loop
        kept = []
        for s_ in ast.walk(lp):
            if not isinstance(s_, ast.stmt):
                continue
            vals = []
            if isinstance(s_, ast.Expr) and isinstance(s_.value, ast.Call) and isinstance(s_.value.func, ast.Attribute) and \
                    s_.value.func.attr in ("append", "insert", "appendleft") and isinstance(s_.value.func.value, ast.Name) and s_.value.args:
                vals.append((s_.value.func.value.id, s_.value.args[-1]))
            elif isinstance(s_, ast.AugAssign) and isinstance(s_.op, ast.Add) and isinstance(s_.target, ast.Name) and \
                    isinstance(s_.value, (ast.List, ast.Tuple)):
                vals += [(s_.target.id, e_) for e_ in s_.value.elts]
            elif isinstance(s_, ast.Assign) and len(s_.targets) == 1 and isinstance(s_.targets[0], ast.Subscript) and \
                    isinstance(s_.targets[0].value, ast.Name):
                vals.append((s_.targets[0].value.id, s_.value))
            for name_, v_ in vals:
                ex = env.x(v_, use=s_)
                b_ = ex
                while isinstance(b_, ast.Subscript) and (isinstance(b_.slice, ast.Slice) or (
                        isinstance(b_.slice, ast.Tuple) and all(isinstance(x, ast.Slice) for x in b_.slice.elts))):
                    b_ = b_.value           # a basic slice of the array is a view of it
                if src(b_) == buf and isinstance(b_, ast.Attribute):
                    kept.append((s_, name_, ex))
        for s_, name_, ex in kept:
            # the container is a Python list / dict created in this method (storing a reference does not copy; an element store
            # into a numpy array would)
            defs = env.bind.get(name_, [])
            is_ref_container = len(defs) == 1 and defs[0][2] is not None and id(defs[0][1]) not in in_loop and (
                (isinstance(defs[0][2], (ast.List, ast.Dict)) and not (getattr(defs[0][2], "elts", None) or getattr(defs[0][2], "keys", None)))
                or (isinstance(defs[0][2], ast.Call) and src(defs[0][2].func) in ("list", "dict") and not defs[0][2].args
                    and not defs[0][2].keywords))
            later = [n for n in ast.walk(sm) if isinstance(n, ast.Name) and n.id == name_ and isinstance(n.ctx, ast.Load)
                     and id(n) not in in_loop and env.order.get(id(_stmt_of(n)), -1) > env.order.get(id(lp), 10 ** 9)]
            # read as a whole (handed to a call, iterated) or at a varying position: more than the last element is used
            whole = [n for n in later if isinstance(parent(n), (ast.Call, ast.For, ast.comprehension, ast.Starred)) and
                     not (isinstance(parent(n), ast.Call) and src(parent(n).func) == "len")
                     or (isinstance(parent(n), ast.Subscript) and parent(n).value is n and not isinstance(parent(n).slice, ast.Constant)
                         and not isinstance(parent(n).slice, ast.UnaryOp))]
            ok_c, why_c = _single_output_buffer(chk)
            # the spline and the interpolator of the solver are objects of those two classes
            kinds = {}
            for role, attr_ in (("spline", obj), ("interp", src(c.func.value))):
                d_ = [n for n in ast.walk(fn_init) if isinstance(n, ast.Assign) and any(src(t) == attr_ for t in n.targets)]
                kinds[role] = src(d_[0].value.func).split(".")[-1] if len(d_) == 1 and isinstance(d_[0].value, ast.Call) else None
            typed = kinds["spline"] == "Spline1D" and kinds["interp"] == "SplineInterpolator1D"
            construct = f"{disc}: `{name_}` collects `{src(ex)[:40]}` for every line"
            if not later:
                continue
            if isinstance(s_, ast.Assign) and len(defs) == 1 and defs[0][2] is not None and _shape_only(defs[0][2]):
                continue            # an element / slice store into a freshly allocated numpy array copies the values
            emitted += 1
            if not (is_ref_container and whole and typed and ok_c):
                why = ("the container is not a list / dict created empty in this method" if not is_ref_container else
                       "how the collected references are read after the loop was not followed" if not whole else
                       f"`{obj}` / its interpolator are not recognised as Spline1D / SplineInterpolator1D objects" if not typed else why_c)
                chk.ob("F4-line-buffer", s_, construct, None,
                       f"a reference to the interpolator's output `{buf}` is kept across the iterations of the loop over the lines; " + why,
                       file=U.POISSON, func=q)
                continue
            # AUDIT: true of the code when (checked above) the value stored is the output array itself or a basic slice of it - no
            # copy, no arithmetic -, the container holds references (a list / dict created empty before the loop), the interpolation
            # that refills the array is in the same loop, the array is one object that compute_interpolant overwrites in place
            # (established from the spline and interpolator classes), and the container is read as a whole after the loop.  The loop
            # runs over the lines of the local block: more than one for any grid with several local z positions.
            chk.ob("F4-line-buffer", s_, construct, False,
                   f"`{name_}` receives `{src(ex)[:40]}` in every iteration of `{src(lp).splitlines()[0][:60]}`, and is read after the loop "
                   f"(`{src(_stmt_of(whole[0])).splitlines()[0][:70]}`). {why_c}: every element of `{name_}` is the SAME array, which holds "
                   "the coefficients of the last line interpolated - all lines (z positions) of the mode are solved with the right-hand "
                   "side of the last one. Each line no longer gets the Galerkin solution of its own rho (visible as soon as rho differs "
                   "between the z positions of a process). A copy per line (`.copy()`) is needed", file=U.POISSON, func=q)
    if found and not emitted:
        chk.ob("F4-line-buffer", sm, f"{disc}: the coefficients of rho of a line are used before the next interpolation", True,
               "no reference to the interpolator's output array is collected across the lines", file=U.POISSON, func=q)


def mode_solve(chk):
    """_solveMode: rhs = mass . coeffs(rho), unknowns written into the mode's coefficient range; both solves: evaluation of the
    full coefficient vector at the radial nodes, real and imaginary part"""
    eps = entry_points(chk)
    disc = next((cl for c_, m_, cl in eps if c_ == CLS and m_ == "solveEquation"), "_solveMode")
    funcs = next((cl for c_, m_, cl in eps if m_ == "solveEquationForFunction"), "_solveModeFunc")
    q = f"{CLS}.{disc}"
    sm = solve_view(chk, disc, CLS, "solveEquation")
    env = env_of(chk, sm)
    li, gi, opn, gnames = solve_roles(chk, disc)
    # what the callers compute and hand over (a view of the coefficients, the rows of the mass matrix) stands for the parameter
    sub_ = callee_binding(chk, disc, exclude={opn})

    def S(e):
        return _Sub({}, sub_).visit(e) if sub_ else e
    sstores = solve_stores(sm)
    solves = [x[0] for x in sstores]
    ok, bad, und = False, None, []
    if len(solves) == 1:
        st, tnode, scall = sstores[0]
        tgt = S(env.x(tnode, use=st))
        mat = S(env.x(scall.args[0], use=st))
        amb_m = set(env.amb)
        rhs = S(env.x(scall.args[1], use=st))
        ts = src(tgt).replace(" ", "")
        R = ranges_of(chk)
        tables_ = set(TABLES) | set(R.tables) | set(R.int_tables) | R.mt.tables() | R.bases
        # where the solution goes: the entries of the coefficient vector that are the unknowns of the mode
        t0 = tgt
        if isinstance(t0, ast.Subscript) and isinstance(t0.slice, ast.Slice) and t0.slice.lower is None and t0.slice.upper is None \
                and t0.slice.step is None and isinstance(t0.value, ast.Subscript):
            t0 = t0.value
        ok_t, why_t = None, f"the solution is stored in `{src(tgt)[:50]}`: not an index range of self._coeffs"
        if isinstance(t0, ast.Subscript) and src(t0.value) == "self._coeffs":
            try:
                ok_t, why_t = True, ""
                for f in FLAG_CASES:
                    got_ = R.rng(t0.slice, f, 10 ** 9, None, NB_SYM)
                    if not _same_range(got_, unknowns_of(f)):
                        ok_t = False
                        why_t = (f"the solution is written to the entries {_fmt(got_)} of self._coeffs for {_case_text(f)}, the unknowns of the "
                                 f"mode are {_fmt(unknowns_of(f))}: the coefficients are shifted / a boundary coefficient is overwritten")
                        break
            except KeyError as e_:
                ok_t, why_t = None, str(e_).strip('"\'')
        # the matrix of the solve is the operator received from the caller (what the callee does to it on the way - a restriction to
        # the unknowns - is composed with the caller's expression and judged by F4-mode-operator)
        ok_m = any(isinstance(x, ast.Name) and x.id == opn for x in ast.walk(mat)) and not (
            {x.id for x in ast.walk(mat) if isinstance(x, ast.Name)} & amb_m) and \
            not any(isinstance(x, ast.Attribute) and src(x) in BLOCKS + ("self._stiffnessMatrix", "self._stiffness0") for x in ast.walk(mat))
        # the right-hand side: the rows of the mass matrix that belong to the unknowns, applied to every coefficient of rho
        ok_r, why_r = None, f"right-hand side `{src(rhs)[:60]}` is not the mass matrix applied to the coefficients of rho"
        mexp = vec = None
        if isinstance(rhs, ast.Call) and isinstance(rhs.func, ast.Attribute) and rhs.func.attr == "dot" and len(rhs.args) == 1 and not rhs.keywords:
            mexp, vec = rhs.func.value, rhs.args[0]
        elif isinstance(rhs, ast.BinOp) and isinstance(rhs.op, ast.MatMult):
            mexp, vec = rhs.left, rhs.right
        # the vector: every spline coefficient of rho, or a range of them (then the columns of the matrix must be that range, and the
        # range must be the whole space: rho, unlike phi, does not vanish at a Dirichlet boundary)
        vsl = None
        if isinstance(vec, ast.Subscript) and src(vec.value) == "self._spline.coeffs" and not isinstance(vec.slice, ast.Tuple):
            vsl = vec.slice
            if _whole_slice(vsl):
                vsl = None
        elif vec is not None and src(vec) != "self._spline.coeffs":
            mexp = None
        if mexp is not None and any(src(x) == "self._massMatrix" for x in ast.walk(mexp)) and \
                not any(isinstance(x, ast.Attribute) and src(x) in BLOCKS and src(x) != "self._massMatrix" for x in ast.walk(mexp)):
            if vsl is None:
                ok_r, why_r = restricted_to_unknowns(R, mexp, FLAG_CASES, want_cols=False)
                if ok_r is False:
                    why_r = "the right-hand side of the solve takes the wrong rows / columns of the mass matrix: " + why_r
            else:
                try:
                    ok_r, why_r = True, ""
                    full = (sp.Integer(0), NB_SYM)
                    for f in FLAG_CASES:
                        rows, cols = R.window(mexp, f)
                        vr = R.rng(vsl, f, 10 ** 9, None, NB_SYM)
                        if not _same_range(vr, full):
                            ok_r = False
                            why_r = (f"the mass matrix is applied to the coefficients {_fmt(vr)} of rho only (`{src(vec)[:60]}`, matrix columns "
                                     f"{_fmt(cols)}) for {_case_text(f)}: rho, unlike phi, does not vanish at a Dirichlet boundary, so the load "
                                     "vector loses the contributions E rho_0 <B_0, B_i> / E rho_last <B_last, B_i> of the boundary coefficients "
                                     "of rho; the result is not the Galerkin solution whenever rho is not zero at a Dirichlet boundary "
                                     "(_solveModeFunc, which projects rho on every basis function, is not affected)")
                            break
                        if not _same_range(cols, vr) or not _same_range(rows, unknowns_of(f)):
                            ok_r = False
                            why_r = (f"for {_case_text(f)} the mass matrix `{src(mexp)[:60]}` holds the rows {_fmt(rows)} and columns {_fmt(cols)} "
                                     f"and is applied to the coefficients {_fmt(vr)} of rho; the rows must be the unknowns "
                                     f"{_fmt(unknowns_of(f))} and the columns the coefficients they multiply")
                            break
                except KeyError as e_:
                    ok_r, why_r = None, str(e_).strip('"\'')
        zl = [n for n in ast.walk(sm) if isinstance(n, ast.For) and any(st is x for x in ast.walk(n))]
        jn = None
        if zl and isinstance(zl[0].target, ast.Tuple) and zl[0].target.elts and isinstance(zl[0].target.elts[0], ast.Name):
            jn = zl[0].target.elts[0].id
        interp = [c for c in ast.walk(sm) if isinstance(c, ast.Call) and isinstance(c.func, ast.Attribute) and c.func.attr == "compute_interpolant"]
        ok_i = False
        if len(interp) == 1 and len(interp[0].args) == 2 and jn is not None:
            a0 = env.x(interp[0].args[0], use=_stmt_of(interp[0]))
            ok_i = src(interp[0].func.value) == "self._interpolator" and src(a0).replace(" ", "") == f"rho.get1DSlice({li},{jn})" \
                and src(env.x(interp[0].args[1], use=_stmt_of(interp[0]))) == "self._spline" and env.before(interp[0], st)
        ok = bool(ok_t and ok_m and ok_r and ok_i)
        if not ok:
            rs = src(rhs)
            # AUDIT: as in F4-mode-operator - only the per-mode solve's own local-index parameter is provably the wrong index
            wrong_idx = sorted({src(n) for e_ in (tgt, rhs, mat) for n in ast.walk(e_) if isinstance(n, ast.Subscript)
                                and src(n.value) in tables_ and src(n.slice) == li and li not in ({gi} | gnames)})
            other_idx = sorted({src(n) for e_ in (tgt, rhs, mat) for n in ast.walk(e_) if isinstance(n, ast.Subscript)
                                and src(n.value) in tables_ and src(n.slice) not in ({gi, li} | gnames)})
            if wrong_idx:
                bad = (f"per-mode tables are looked up with {wrong_idx}, the position in the local block, instead of the global mode "
                       f"index `{gi}`")
            elif other_idx:
                und = [f"per-mode tables are looked up with {other_idx}: not recognised as the global mode index `{gi}`"]
            # AUDIT: the right-hand side, with the callee's locals and the callers' arguments substituted, IS a view of the
            # coefficients of rho (an attribute / a slice of it, no product at all): the mass matrix is not applied anywhere on the
            # way to the solve
            elif "self._spline.coeffs" in rs and "_massMatrix" not in rs and isinstance(rhs, (ast.Attribute, ast.Subscript)):
                bad = ("the right-hand side of the solve is the coefficient vector of rho itself, not the mass matrix applied to it: "
                       "the equation solved is S phi = c(rho) instead of S phi = M c(rho)")
            elif ok_t is False:
                bad = why_t
            elif ok_r is False:
                bad = why_r
            elif ok_m and ok_i:
                und = [w_ for v_, w_ in ((ok_t, why_t), (ok_r, why_r)) if v_ is None]
    if not ok and not bad and und:
        chk.ob("F4-mode-solve", solves[0] if len(solves) == 1 else sm, f"{disc}: coeffs[range_I] = S^-1 M[range_I,:] c(rho)", None,
               "not followed: " + und[0], file=U.POISSON, func=q)
    else:
        chk.pat("F4-mode-solve", solves[0] if len(solves) == 1 else sm, f"{disc}: coeffs[range_I] = S^-1 M[range_I,:] c(rho)", ok,
                "right-hand side is the mass matrix (rows of the mode's unknowns, every column) applied to the spline coefficients of rho; "
                "the solution fills the mode's unknowns, Dirichlet entries keep their zero", bad, file=U.POISSON, func=q)
    fcls = next((c_ for c_, m_, cl in eps if m_ == "solveEquationForFunction"), CLS)
    if funcs != disc or solve_view(chk, funcs, fcls, "solveEquationForFunction") is not sm:
        func_solve(chk, funcs, fcls)
    else:
        chk.ob("F4-mode-solve", sm, f"{funcs}: coeffs[range_I] = S^-1 b[range_I]", None,
               "the per-mode solves for a discrete right-hand side and for a function are one method: its branches are not followed",
               file=U.POISSON, func=q)
    seen_v = set()
    for c_, m_, cl in eps:
        v_ = solve_view(chk, cl, c_, m_)
        if id(v_) not in seen_v:
            seen_v.add(id(v_))
            evaluation(chk, cl, v_)


def func_solve(chk, name="_solveModeFunc", fcls=CLS):
    """_solveModeFunc: the projected right-hand side is taken at the unknowns of the mode and the solution fills the same entries"""
    q = f"{CLS}.{name}"
    sm = solve_view(chk, name, fcls, "solveEquationForFunction")
    env = env_of(chk, sm)
    R = ranges_of(chk)
    _, _, opn_, _ = solve_roles(chk, name)
    sub_ = callee_binding(chk, name, exclude={opn_})
    sstores = solve_stores(sm)
    solves = [x[0] for x in sstores]
    if len(solves) != 1:
        chk.ob("F4-mode-solve", sm, f"{name}: coeffs[range_I] = S^-1 b[range_I]", None, "the call of spsolve was not found", file=U.POISSON, func=q)
        return
    st, tnode, scall = sstores[0]
    parts = []
    for what_, e in (("the solution is written to", env.x(tnode, use=st)), ("the right-hand side is taken at", env.x(scall.args[1], use=st))):
        if sub_:
            e = _Sub({}, sub_).visit(e)
        if isinstance(e, ast.Subscript) and isinstance(e.slice, ast.Slice) and e.slice.lower is None and e.slice.upper is None \
                and e.slice.step is None and isinstance(e.value, ast.Subscript):
            e = e.value
        v_, why_ = None, f"`{src(e)[:50]}` is not an index range of a vector over the spline space"
        if isinstance(e, ast.Subscript) and not isinstance(e.slice, ast.Tuple):
            try:
                v_, why_ = True, ""
                for f in FLAG_CASES:
                    got_ = R.rng(e.slice, f, 10 ** 9, None, NB_SYM)
                    if not _same_range(got_, unknowns_of(f)):
                        v_, why_ = False, (f"{what_} the entries {_fmt(got_)} of `{src(e.value)[:30]}` for {_case_text(f)}; the unknowns of the mode "
                                          f"are {_fmt(unknowns_of(f))}")
                        break
            except KeyError as e_:
                v_, why_ = None, str(e_).strip('"\'')
        parts.append((v_, why_))
    bad_ = [w for v, w in parts if v is False]
    und_ = [w for v, w in parts if v is None]
    chk.ob("F4-mode-solve", st, f"{name}: coeffs[range_I] = S^-1 b[range_I]", False if bad_ else (None if und_ else True),
           bad_[0] if bad_ else ("not followed: " + und_[0] if und_ else
                                 "the right-hand side is restricted to the unknowns of the mode and the solution fills the same entries of the "
                                 "coefficient vector"), file=U.POISSON, func=q)


def evaluation(chk, name, view=None):
    q = f"{CLS}.{name}"
    f_ = view if view is not None else flat_view(chk, U.POISSON, CLS, name)
    env = env_of(chk, f_)
    # the store of the computed solution (a shortcut that writes a constant line is judged by F4-output-complete)
    stores = [n for n in _output_stores(f_, env) if not _is_number(env.x(n.value, use=n))]
    ok, bad = False, None
    if len(stores) == 1:
        st = stores[0]
        blk, k = _block_of(st)
        loaded, mem, pts_ok, pts_bad = None, {}, True, None
        for s_ in blk[:k]:
            if isinstance(s_, ast.Assign) and src(s_.targets[0]).replace(" ", "") in ("self._real_spline.coeffs[:]", "self._real_spline.coeffs"):
                v = env.x(s_.value, use=s_)
                loaded = None
                for part in ("real", "imag"):
                    if same_expr(v, f"np.{part}(self._coeffs)") or same_expr(v, f"self._coeffs.{part}") or \
                            same_expr(v, f"numpy.{part}(self._coeffs)"):
                        loaded = part
                if loaded is None:
                    loaded = "?" + src(v)
            elif isinstance(s_, ast.Expr) and isinstance(s_.value, ast.Call) and isinstance(s_.value.func, ast.Attribute) \
                    and s_.value.func.attr == "eval_vector" and src(s_.value.func.value) == "self._real_spline" and len(s_.value.args) >= 2:
                pts = env.x(s_.value.args[0], use=s_)
                if not same_expr(pts, "phi.getCoordVals(2)"):
                    pts_ok = False
                    if isinstance(pts, ast.Call) and src(pts.func) == "phi.getCoordVals" and len(pts.args) == 1 \
                            and isinstance(pts.args[0], ast.Constant) and pts.args[0].value != 2:
                        pts_bad = src(pts)
                if len(s_.value.args) > 2 or s_.value.keywords:
                    pts_ok = False
                mem[src(env.x(s_.value.args[1], use=s_))] = loaded
            elif isinstance(s_, ast.Assign) and src(s_.targets[0]).replace(" ", "") in ("self._realMem[:]", "self._imagMem[:]") \
                    and isinstance(s_.value, ast.Call) and isinstance(s_.value.func, ast.Attribute) and s_.value.func.attr == "eval" \
                    and src(s_.value.func.value) == "self._real_spline" and len(s_.value.args) == 1:
                pts = env.x(s_.value.args[0], use=s_)
                if not same_expr(pts, "phi.getCoordVals(2)"):
                    pts_ok = False
                mem[src(s_.targets[0]).replace(" ", "")[:-3]] = loaded
        v = env.x(st.value, use=st)
        comb = same_expr(v, "self._realMem + 1j * self._imagMem") or same_expr(v, "self._realMem + self._imagMem * 1j")
        tg = src(st.targets[0].slice).replace(" ", "") == ":"
        if comb and tg and mem.get("self._realMem") == "real" and mem.get("self._imagMem") == "imag" and pts_ok:
            ok = True
        elif comb and tg and pts_bad and _r_is_last_axis(chk):
            # AUDIT: "getCoordVals(2) are the radial coordinates" is the layout contract of the solve: the entry point asserts that the
            # last axis of the layout is r (checked: an assert on dims_order[-1] == 0 / a dims_order tuple ending in 0)
            bad = f"the solution spline is evaluated at `{pts_bad}` instead of the grid's radial coordinates phi.getCoordVals(2)"
        # AUDIT: which part of the coefficients each buffer holds is followed statement by statement (load of the part, evaluation
        # into the buffer) and the recombination is the plain real + 1j * imag: with the parts exchanged or duplicated the result is
        # not the complex solution; any other recombination is undecided
        elif comb and tg and pts_ok and set(mem) >= {"self._realMem", "self._imagMem"} and \
                all(mem[k_] in ("real", "imag") for k_ in ("self._realMem", "self._imagMem")):
            bad = (f"the real-part buffer holds the {mem['self._realMem']} part and the imaginary-part buffer the {mem['self._imagMem']} "
                   "part of the coefficients: the recombined values are not the complex solution")
    chk.pat("F4-mode-solve", stores[0] if len(stores) == 1 else f_, f"{name}: evaluation at the radial nodes", ok,
            "real and imaginary parts are evaluated from the full coefficient vector at the grid's r coordinates and recombined",
            bad, file=U.POISSON, func=q)


def _r_is_last_axis(chk):
    """an entry point of the solver asserts that r (dimension 0) is the last axis of the layout the solve runs in"""
    import re
    for c in chk.mod(U.POISSON).tree.body:
        if isinstance(c, ast.ClassDef) and c.name in (CLS, QNC):
            for n in ast.walk(c):
                if isinstance(n, ast.Assert):
                    t = src(n.test).replace(" ", "")
                    if "dims_order[-1]==0" in t or re.search(r"dims_order==\(\d,\d,0\)", t):
                        return True
    return False


def _is_number(e):
    if isinstance(e, ast.UnaryOp) and isinstance(e.op, (ast.USub, ast.UAdd)):
        e = e.operand
    return isinstance(e, ast.Constant) and isinstance(e.value, (int, float, complex)) and not isinstance(e.value, bool)


def _output_stores(f_, env):
    return [n for n in ast.walk(f_) if isinstance(n, ast.Assign) and isinstance(n.targets[0], ast.Subscript)
            and src(env.x(n.targets[0].value, use=n)).startswith("phi.get1DSlice(")]


def _paths(stmts, stores):
    """paths through a block of the z loop: [(conditions [(test, polarity, if-node)], stores met, how the path ends)], the end being
    None (falls through), or the continue / break / return statement.  Nested loops / with / try blocks are single steps (a store
    inside them is recorded with the marker `maybe`)"""
    paths = [([], [], None)]
    for st in stmts:
        live = [p_ for p_ in paths if p_[2] is None]
        done = [p_ for p_ in paths if p_[2] is not None]
        if not live:
            break
        if isinstance(st, ast.If):
            new = []
            for conds, got, _ in live:
                for branch, pol in ((st.body, True), (st.orelse, False)):
                    for c2, g2, e2 in _paths(branch, stores):
                        new.append((conds + [(st.test, pol, st)] + c2, got + g2, e2))
            paths = done + new
        elif isinstance(st, (ast.Continue, ast.Break, ast.Return, ast.Raise)):
            paths = done + [(c, g, st) for c, g, _ in live]
        elif isinstance(st, (ast.For, ast.While, ast.With, ast.Try)):
            inner = [x for x in ast.walk(st) if any(x is s_ for s_ in stores)]
            leaves = [x for x in ast.walk(st) if isinstance(x, ast.Return)]
            paths = done + [(c, g + [("maybe", x) for x in inner], leaves[0] if leaves else None) for c, g, _ in live]
        else:
            hit = [x for x in stores if x is st]
            paths = done + [(c, g + [("sure", x) for x in hit], None) for c, g, _ in live]
        if len(paths) > 64:
            return None
    return paths


def _zero_test(e, pol, line_ok):
    """'exact' when the condition (with its polarity) says that every value of the right-hand side line is exactly zero, 'tolerance'
    when it says they are small, None otherwise.  `line_ok(expr)` recognises the line of rho"""
    def call(e_, names, nargs=None):
        return isinstance(e_, ast.Call) and src(e_.func) in names and (nargs is None or len(e_.args) == nargs)

    def meth(e_, name):
        return isinstance(e_, ast.Call) and isinstance(e_.func, ast.Attribute) and e_.func.attr == name and not e_.args

    def is_zero(x):
        return isinstance(x, ast.Constant) and not isinstance(x.value, bool) and x.value == 0

    def eq_zero(x):
        return isinstance(x, ast.Compare) and len(x.ops) == 1 and isinstance(x.ops[0], ast.Eq) and \
            ((line_ok(x.left) and is_zero(x.comparators[0])) or (is_zero(x.left) and line_ok(x.comparators[0])))
    if isinstance(e, ast.UnaryOp) and isinstance(e.op, ast.Not):
        return _zero_test(e.operand, not pol, line_ok)
    # a magnitude of the line (max |x|, a norm) compared with a bound: zero bound = exact, any other bound = tolerance
    inner = e
    if meth(e, "all") or meth(e, "any"):
        inner = e.func.value
    elif call(e, ("np.all", "numpy.all", "all", "np.any", "numpy.any", "any"), 1):
        inner = e.args[0]
    if isinstance(inner, ast.Compare) and len(inner.ops) == 1 and isinstance(inner.ops[0], (ast.Lt, ast.LtE, ast.Gt, ast.GtE, ast.Eq, ast.NotEq)):
        MAG = ("abs", "absolute", "norm", "max", "amax", "fabs")

        def magnitude(x):
            return any(line_ok(y) for y in ast.walk(x)) and any(isinstance(y, ast.Call) and src(y.func).split(".")[-1] in MAG for y in ast.walk(x))
        op = type(inner.ops[0])
        l_, r_ = inner.left, inner.comparators[0]
        if magnitude(r_) and not magnitude(l_):
            l_, r_ = r_, l_
            op = {ast.Lt: ast.Gt, ast.LtE: ast.GtE, ast.Gt: ast.Lt, ast.GtE: ast.LtE}.get(op, op)
        if magnitude(l_) and not any(line_ok(y) for y in ast.walk(r_)):
            if not pol:
                op = {ast.Lt: ast.GtE, ast.LtE: ast.Gt, ast.Gt: ast.LtE, ast.GtE: ast.Lt, ast.Eq: ast.NotEq, ast.NotEq: ast.Eq}[op]
            if op in (ast.Lt, ast.LtE, ast.Eq):
                if is_zero(r_):
                    return "exact" if op in (ast.LtE, ast.Eq) else None
                return "tolerance" if op in (ast.Lt, ast.LtE) else None
            return None
    if not pol:
        # not any(line), not count_nonzero(line)
        if (meth(e, "any") and line_ok(e.func.value)) or (call(e, ("np.any", "numpy.any", "np.count_nonzero", "numpy.count_nonzero"), 1)
                                                            and line_ok(e.args[0])):
            return "exact"
        if isinstance(e, ast.Compare) and len(e.ops) == 1 and isinstance(e.ops[0], (ast.NotEq, ast.Gt)) and is_zero(e.comparators[0]) and \
                call(e.left, ("np.count_nonzero", "numpy.count_nonzero"), 1) and line_ok(e.left.args[0]):
            return "exact"
        return None
    if (meth(e, "all") and eq_zero(e.func.value)) or (call(e, ("np.all", "numpy.all"), 1) and eq_zero(e.args[0])):
        return "exact"
    if isinstance(e, ast.Compare) and len(e.ops) == 1 and isinstance(e.ops[0], ast.Eq) and is_zero(e.comparators[0]) and \
            call(e.left, ("np.count_nonzero", "numpy.count_nonzero"), 1) and line_ok(e.left.args[0]):
        return "exact"
    # small, not zero: allclose / isclose
    if call(inner, ("np.allclose", "numpy.allclose", "np.isclose", "numpy.isclose")) and inner.args and \
            any(line_ok(a) for a in inner.args[:2]):
        return "tolerance"
    return None


def output_complete(chk):
    """every (mode, z) line of the output is written with the solution for that line of rho.  Every path through one iteration of
    the z loop is followed: it must store into the line; a path that stores a zero line instead of solving is the solution only
    when its condition says that the right-hand side line is exactly zero (a linear problem with homogeneous boundary values)."""
    eps = entry_points(chk)
    seen_v = set()
    for c_, m_, name in eps:
        f_ = solve_view(chk, name, c_, m_)
        if id(f_) in seen_v:
            continue
        seen_v.add(id(f_))
        q_ = f"{CLS}.{name}"
        env = env_of(chk, f_)
        stores = _output_stores(f_, env)
        main = [n for n in stores if not _is_number(env.x(n.value, use=n))]
        zl = [n for n in f_.body if isinstance(n, ast.For) and main and any(main[-1] is x for x in ast.walk(n))]
        construct = f"{q_}: every z line of the mode is written"
        if len(zl) != 1 or len(main) != 1:
            chk.ob("F4-output-complete", f_, f"{q_}: store into phi.get1DSlice(i, j) inside the z loop", None,
                   "z loop / output store not found", file=U.POISSON, func=q_)
            continue
        loop, st_ = zl[0], main[0]
        paths = _paths(loop.body, stores)
        if paths is None:
            chk.ob("F4-output-complete", loop, construct, None, "too many paths through the z loop", file=U.POISSON, func=q_)
            continue
        want_line = src(env.x(st_.targets[0].value, use=st_)).replace(" ", "")
        rho_line = want_line.replace("phi.", "rho.", 1)

        def line_ok(e_, at):
            return src(env.x(e_, use=at)).replace(" ", "") == rho_line
        # any other way the function may write into phi (a block-wise prefill, a call that receives the grid): then a path without a
        # recognised store is not known to leave the line unwritten
        READERS = {"get1DSlice", "getCoords", "getCoordVals", "getGlobalIdxVals", "getLayout", "getCoord", "getGlobalIndices"}
        other_writes = []
        for n in ast.walk(f_):
            if isinstance(n, (ast.Assign, ast.AugAssign)) and not any(n is x for x in stores):
                for t_ in (n.targets if isinstance(n, ast.Assign) else [n.target]):
                    if isinstance(t_, ast.Subscript) and src(env.x(t_.value, use=n)).startswith("phi."):
                        other_writes.append(n)
            elif isinstance(n, ast.Call):
                if isinstance(n.func, ast.Attribute) and src(n.func.value) == "phi" and n.func.attr not in READERS:
                    other_writes.append(n)
                elif any(isinstance(a_, ast.Name) and a_.id == "phi" for a_ in list(n.args) + [k.value for k in n.keywords]):
                    other_writes.append(n)
        verdicts = []
        for conds, got, end in paths:
            sure = [x for k_, x in got if k_ == "sure"]
            maybe = [x for k_, x in got if k_ == "maybe"]
            if isinstance(end, ast.Raise):
                continue
            if any(x is st_ for x in sure) and not isinstance(end, (ast.Break, ast.Return)):
                verdicts.append((True, st_, ""))
                continue
            where = end if end is not None else (conds[-1][2] if conds else loop)
            if isinstance(end, (ast.Break, ast.Return)) and other_writes:
                verdicts.append((None, where, f"a path leaves the z loop early, but phi is also written by `{src(other_writes[0])[:60]}`: "
                                 "not followed"))
                continue
            if isinstance(end, (ast.Break, ast.Return)):
                verdicts.append((False, where, f"`{src(parent(end)).splitlines()[0][:80]}` leaves the z loop: the remaining lines of the mode are not written, phi "
                                 "keeps whatever the buffer held (the previous solve), so the result is no longer the solution for this rho"))
                continue
            if not sure and not maybe and other_writes:
                verdicts.append((None, where, f"a path through the z loop stores nothing into the output line, but phi is also written by "
                                 f"`{src(other_writes[0])[:60]}`: not followed"))
                continue
            if not sure and not maybe:
                lead = (src(conds[-1][2]) if conds else src(where)).splitlines()[0][:80]
                verdicts.append((False, where, f"`{lead}` leaves the z loop iteration before the output line is written: phi keeps whatever the "
                                 "buffer held (the previous solve), so the result is no longer the solution for this rho (not linear in rho, "
                                 "not zero for rho = 0)"))
                continue
            if maybe and not sure:
                verdicts.append((None, where, "the store into the output line sits inside a nested block: not followed"))
                continue
            z = sure[-1]
            zv = env.x(z.value, use=z)
            same_line = src(env.x(z.targets[0].value, use=z)).replace(" ", "") == want_line and \
                src(z.targets[0].slice).replace(" ", "") in (":", "...")
            if not (isinstance(zv, ast.Constant) and _is_number(zv) and zv.value == 0 and same_line):
                verdicts.append((None, z, f"this path stores `{src(z)[:60]}` instead of the computed solution: not followed"))
                continue
            kinds = [( _zero_test(env.x(t_, use=if_), pol, lambda e_, if_=if_: line_ok(e_, if_)), t_, pol) for t_, pol, if_ in conds]
            if any(k_ == "exact" for k_, _, _ in kinds):
                verdicts.append((True, z, "zero"))
            elif any(k_ == "tolerance" for k_, _, _ in kinds):
                t_, p_ = [(t, pl) for k_, t, pl in kinds if k_ == "tolerance"][0]
                verdicts.append((False, z, f"the line of phi is set to zero without solving whenever `{src(t_)[:70]}` "
                                 f"{'holds' if p_ else 'does not hold'}, a test with a "
                                 "tolerance (absolute bound on |rho|), not a test for an exactly zero right-hand side: a line of rho that is "
                                 "small but not zero gets the solution 0 instead of its own small solution, so the solve is no longer "
                                 "homogeneous / linear in rho (phi(s*rho) != s*phi(rho) once s*|rho| falls below the tolerance) and small "
                                 "modes next to large ones are dropped"))
            else:
                verdicts.append((None, z, f"the line of phi is set to zero without solving under `{' and '.join(('' if pl else 'not ') + src(t)[:50] for _, t, pl in kinds)}`: "
                                 "not recognised as a test for an exactly zero right-hand side line"))
        bad_ = [v for v in verdicts if v[0] is False]
        und_ = [v for v in verdicts if v[0] is None]
        short = [v for v in verdicts if v[0] is True and v[2] == "zero"]
        if bad_:
            chk.ob("F4-output-complete", bad_[0][1], construct, False, bad_[0][2], file=U.POISSON, func=q_)
        elif und_ or not verdicts:
            chk.ob("F4-output-complete", und_[0][1] if und_ else loop, construct, None, und_[0][2] if und_ else "no path through the z loop found",
                   file=U.POISSON, func=q_)
        else:
            chk.ob("F4-output-complete", st_, construct, True,
                   "every path through an iteration of the z loop stores the solution into the output line" +
                   (" (a line of rho that is exactly zero gets the zero solution without a solve)" if short else ""),
                   file=U.POISSON, func=q_)


def block_signs(chk):
    """{"sigma": sign the theta-independent operator is assembled with, "k2": sign the k2 block is stored with} (+1 / -1 / None),
    from the assembly analysis (run silently when this check does not judge the assembly itself)"""
    st = _store(chk)
    if "_c14_signs" not in st:
        try:
            assembly(_Silent(chk))
        except Exception:
            pass
        st.setdefault("_c14_signs", {"sigma": None, "k2": None, "blocks": {}})
    return st["_c14_signs"]


def mode_power(chk):
    """the coefficient of the k2 block in every per-mode operator is -(m_I)^2, counting the squaring done once in the constructor"""
    mt = mode_tables(chk)
    nsites = 0
    sg = block_signs(chk)
    # the coefficient of the stored k2 block must be -m^2 when (sign of the operator) x (sign of the k2 block) is +1, +m^2 when -1
    qf = None if (sg.get("sigma") is None or sg.get("k2") is None) else sp.simplify(sg["sigma"] / sg["k2"])
    if qf is not None and not qf.is_number:
        qf = None
    for cls, m, _ in entry_points(chk):
        fn = flat_view(chk, U.POISSON, cls, m)
        env = env_of(chk, fn)
        sites = []
        for st in ast.walk(fn):
            if not isinstance(st, ast.stmt):
                continue
            for e_ in _own_exprs(st):
                ex = env.x(e_, use=st)
                if not any(isinstance(x, ast.Attribute) and src(x) == "self._k2PhiPsi" for x in ast.walk(ex)):
                    continue
                _relink(ex, None)
                for n in ast.walk(ex):
                    if isinstance(n, ast.BinOp) and any(src(x) == "self._k2PhiPsi" for x in ast.walk(n)) and \
                            not (isinstance(parent(n), ast.BinOp) and any(src(x) == "self._k2PhiPsi" for x in ast.walk(parent(n)))):
                        sites.append((st, n))
        # a named part of the operator (`t = m*K; S - t`) is judged where it is used: keep the maximal expressions, once each
        texts = [src(n) for _, n in sites]
        keep = []
        for k, (st, n) in enumerate(sites):
            if any(j != k and texts[k] in texts[j] and len(texts[j]) > len(texts[k]) for j in range(len(sites))):
                continue
            if texts[k] in texts[:k]:
                continue
            keep.append((st, n))
        sites = keep
        if not sites:
            chk.ob("F4-mode-power", fn, f"{cls}.{m}: coefficient of the k2 block", None, "no expression involving self._k2PhiPsi found",
                   file=U.POISSON, func=f"{cls}.{m}")
            continue
        for st, site in sites:
            nsites += 1
            ok, why = None, ""
            try:
                table = {}
                ex = sp.expand(_sym(site, table))
                K = table["self._k2PhiPsi"]
                co = sp.Poly(ex, K).coeff_monomial(K)
                mk = [k for k in table if "[" in k and k.split("[")[0] in mt.tables()]
                ms = [table[k] for k in mk]
                if len(ms) != 1 or (co.free_symbols - set(ms)):
                    why = f"coefficient of the k2 block is `{co}`: not a power of one mode number"
                else:
                    M = ms[0]
                    idx = mk[0]
                    T = idx.split("[")[0]
                    init_exp = mt.final(T)
                    pw = sp.degree(co, M) if co.has(M) else 0
                    if init_exp is None:
                        fo = [f for f in mt.foreign if f[0] == T]
                        ch = mt.changes(T)
                        why = (f"`{T}` is modified by `{src(fo[0][2])[:60]}` in {fo[0][1]}" if fo else
                               f"`{T}` is built / modified by `{src((ch or [mt.hist[T][0][2]])[-1])[:60]}` in the constructor") + \
                            ": the power of the mode number it holds is not determined"
                    else:
                        eff = pw * init_exp
                        held = "the mode numbers themselves" if init_exp == 1 else f"the mode numbers raised to the power {init_exp} by the constructor"
                        # AUDIT: the coefficient of the stored k2 block is a contract with the assembly: with the operator assembled as
                        # sigma x (weak form) and the k2 block stored as s_k x Q[D phi psi r], -m^2 D needs the coefficient -(sigma/s_k) m^2
                        q_ = qf if qf is not None else sp.Integer(1)
                        minus, plus = sp.simplify(co + q_ * M ** pw) == 0, sp.simplify(co - q_ * M ** pw) == 0
                        conv = "" if q_ == 1 else f" (the assembly stores operator / k2 block with the relative factor {q_})"
                        shown_co = f"({co})".replace(str(M), idx)
                        if (minus or plus) and eff != 2:
                            ok = False
                            why = (f"the k2 block enters with {shown_co} and `{T}` holds {held}: "
                                   f"the operator contains a term in m^{eff} D instead of -m^2 D" +
                                   (" (+m and -m get different operators)" if eff % 2 else "") + conv)
                        elif minus:
                            ok, why = True, f"the k2 block enters with {shown_co}, `{T}` holding {held}: -m^2 D in total{conv}"
                        elif plus and qf is None:
                            why = (f"the k2 block enters with {shown_co}: the sign / factor the k2 block and the operator are stored with "
                                   "by the assembly was not established")
                        elif plus:
                            ok = False
                            why = (f"the k2 block enters with {shown_co} and `{T}` holds {held}: "
                                   f"the operator contains +m^{eff} D instead of -m^2 D{conv}")
                        else:
                            why = f"coefficient of the k2 block is `{co}`"
            except (KeyError, sp.PolynomialError) as e:
                why = f"operator expression `{src(site)[:70]}` not an arithmetic expression: {e}"
            chk.ob("F4-mode-power", st, f"{cls}.{m}: {src(site)[:70]}", ok, why, file=U.POISSON, func=f"{cls}.{m}")
    return nsites


def _conjuncts(e, pol=True):
    """[(atom, polarity)] of a condition read as a conjunction; an atom the split cannot enter is returned whole"""
    if isinstance(e, ast.BoolOp) and isinstance(e.op, ast.And) and pol:
        return [a for v in e.values for a in _conjuncts(v, True)]
    if isinstance(e, ast.BoolOp) and isinstance(e.op, ast.Or) and not pol:
        return [a for v in e.values for a in _conjuncts(v, False)]
    if isinstance(e, ast.UnaryOp) and isinstance(e.op, ast.Not):
        return _conjuncts(e.operand, not pol)
    return [(e, pol)]


def _nonempty_of(e, pol):
    """the collection whose non-emptiness the atom tests (`len(B) != 0`, `len(B) > 0`, `B`, `any(B)`), or None"""
    if not pol:
        if isinstance(e, ast.Compare) and len(e.ops) == 1 and isinstance(e.ops[0], ast.Eq) and src(e.comparators[0]) == "0" \
                and isinstance(e.left, ast.Call) and src(e.left.func) == "len" and len(e.left.args) == 1:
            return e.left.args[0]
        return None
    if isinstance(e, ast.Compare) and len(e.ops) == 1 and isinstance(e.left, ast.Call) and src(e.left.func) == "len" and len(e.left.args) == 1 \
            and src(e.comparators[0]) == "0" and isinstance(e.ops[0], (ast.NotEq, ast.Gt)):
        return e.left.args[0]
    if isinstance(e, ast.Compare) and len(e.ops) == 1 and isinstance(e.left, ast.Call) and src(e.left.func) == "len" and len(e.left.args) == 1 \
            and src(e.comparators[0]) == "1" and isinstance(e.ops[0], ast.GtE):
        return e.left.args[0]
    if isinstance(e, ast.Call) and src(e.func) in ("len", "any", "bool") and len(e.args) == 1 and not e.keywords:
        return e.args[0]
    if isinstance(e, (ast.ListComp, ast.SetComp, ast.BinOp)) or (isinstance(e, ast.Call) and isinstance(e.func, ast.Attribute)
                                                                 and e.func.attr == "intersection"):
        return e
    return None


def _bare_list(e):
    while isinstance(e, ast.Call) and len(e.args) == 1 and not e.keywords and src(e.func) in ("set", "list", "tuple", "frozenset"):
        e = e.args[0]
    return src(e)


def _refusal_path(atoms, left_amb, loopvars, mt, selection):
    """one conjunction guarding a raise of the constructor: ("ok" | "bad" | "m0" | None, diagnosis for "m0", notes, does it concern the
    Neumann lists at all?)"""
    null_pos = null_neg = False
    lists = set()
    extras = []
    notes = []
    m_tests = []
    for e, pol in atoms:
        if isinstance(e, ast.Call) and src(e.func) == "self.funcIsNull" and len(e.args) == 1 and src(e.args[0]) == "rFactor":
            null_pos |= pol
            null_neg |= not pol
            continue
        if pol and isinstance(e, ast.Compare) and len(e.ops) == 1 and isinstance(e.ops[0], ast.In) and isinstance(e.left, ast.Name) \
                and e.left.id in loopvars and _bare_list(e.comparators[0]) in NEUMANN_LISTS:
            # raise inside a loop over the modes / over one of the lists
            it = loopvars[e.left.id]
            lists.add(_bare_list(e.comparators[0]))
            if _bare_list(it) in NEUMANN_LISTS:
                lists.add(_bare_list(it))
            elif not mt._tracked_in(it):
                extras.append(f"loop over `{src(it)[:40]}`")
            continue
        B = _nonempty_of(e, pol)
        if B is None:
            extras.append(src(e)[:60])
            continue
        if isinstance(B, (ast.ListComp, ast.SetComp, ast.GeneratorExp)) and len(B.generators) == 1 and isinstance(B.generators[0].target, ast.Name):
            ls, tests, unk = selection(B)
            lists |= ls
            extras += unk
            for c_, cpol in tests:
                if cpol and isinstance(c_, ast.BoolOp) and isinstance(c_.op, ast.Or) and len(c_.values) == 2 and \
                        any(src(v).replace(" ", "") in ("m==0", "0==m") for v in c_.values) and \
                        any(isinstance(v, ast.Call) and src(v.func) == "self.funcIsNull" and len(v.args) == 1
                            and src(v.args[0]) == "ddThetaFactor" for v in c_.values):
                    # the term -m^2 D phi makes a pure-Neumann mode m != 0 well posed unless D vanishes
                    notes.append("modes m != 0 are kept when the theta term D does not vanish")
                elif cpol and src(c_).replace(" ", "") in ("m==0", "0==m"):
                    m_tests.append(c_)
                else:
                    extras.append(src(c_)[:60])
        else:
            ts = src(B).replace(" ", "")
            if ts in ("set(lNeumannIdx)&set(uNeumannIdx)", "set(uNeumannIdx)&set(lNeumannIdx)", "set(lNeumannIdx).intersection(uNeumannIdx)",
                      "set(uNeumannIdx).intersection(lNeumannIdx)", "set(lNeumannIdx).intersection(set(uNeumannIdx))",
                      "set(uNeumannIdx).intersection(set(lNeumannIdx))"):
                lists |= set(NEUMANN_LISTS)
            else:
                extras.append(src(e)[:60])
    both = lists == set(NEUMANN_LISTS)
    texts = [src(e) for e, _ in atoms] + [src(v) for v in loopvars.values()]
    concerns = bool(lists) or any(n_ in x for x in texts for n_ in tuple(NEUMANN_LISTS) + ("ddThetaFactor",))
    # AUDIT: the polarity of every atom of the conjunction guarding the raise was followed (nested ifs, not / and / or, named
    # intermediate values, values bound on the branches of an earlier if); the refusal fires for modes in both lists exactly when
    # funcIsNull(rFactor) is false
    if both and null_neg and not null_pos and not m_tests:
        return "bad", None, notes, True
    if both and null_pos and not null_neg and not extras and not left_amb and not m_tests:
        return "ok", None, notes, True
    if both and null_pos and not null_neg and not extras and not left_amb and m_tests:
        return "m0", ("modes with Neumann conditions on both boundaries are refused only when the mode number is 0 (`m == 0` selects them, "
                      "with no alternative on the theta term): a mode m != 0 is made well posed by the term -m^2 D phi only when D does "
                      "not vanish. With ddThetaFactor identically zero (and C null) the pure-Neumann problem of every mode is singular "
                      "- defined up to a constant - and is now accepted: the sparse solve returns garbage / NaN instead of the "
                      "constructor raising"), notes, True
    return None, None, notes, concerns


def refusal(chk):
    """a mode with Neumann conditions on both boundaries and no term in phi has no unique solution: the constructor refuses it.
    Followed: the conjunction of every test the `raise` depends on (nested ifs, loops over the modes, named intermediate values),
    the both-ends collection as an intersection of the two lists or as a per-mode selection."""
    fn = flat_view(chk, U.POISSON, CLS, "__init__")
    env = env_of(chk, fn)
    mt = mode_tables(chk)
    q = f"{CLS}.__init__"
    raises = [n for n in ast.walk(fn) if isinstance(n, ast.Raise)]
    ok = False
    bad = None
    notes = []
    def branch_values(name, use):
        """a local bound once on each branch of one `if` (or once before an `if` and once in its body) that precedes the use in an
        enclosing block: [(test of the if, polarity, value, statement)] - the value the name has when the test has that polarity"""
        defs = env.bind.get(name, [])
        if len(defs) != 2 or any(d[2] is None for d in defs) or name in env.mut:
            return None
        (o1, s1, v1), (o2, s2, v2) = defs
        if not (env.order.get(id(use), -1) > o2):
            return None
        p1, p2 = parent(s1), parent(s2)
        if isinstance(p2, ast.If) and p1 is p2 and any(s1 is x for x in p2.body) and any(s2 is x for x in p2.orelse) and \
                env._dominates(p2, use):
            return [(p2.test, True, v1, s1, p2), (p2.test, False, v2, s2, p2)]
        if isinstance(p2, ast.If) and any(s2 is x for x in p2.body) and not p2.orelse and env._dominates(p2, use) and \
                env._dominates(s1, p2):
            return [(p2.test, True, v2, s2, p2), (p2.test, False, v1, s1, p2)]
        return None

    def guard_paths(tests):
        """the conjunction [(test, polarity, statement)] guarding a raise, with locals expanded; a local defined on the branches of
        an earlier `if` splits the guard into one conjunction per branch (the branch test joins the conjunction).  A conjunct that
        tests the non-emptiness of a literally empty collection makes its conjunction infeasible: dropped."""
        paths = [[]]
        for t, pol, at in tests:
            ex = env.x(t, stop=set(COEFF_FUNCS), use=at)
            amb = sorted(env.amb)
            alts = [(ex, [])]
            for nm in amb:
                bv = branch_values(nm, at)
                if bv is None or len(alts) > 4:
                    continue
                nxt = []
                for ex_, more in alts:
                    for bt, bpol, val, st_, ifst in bv:
                        val_x = env.x(val, stop=set(COEFF_FUNCS), use=st_)
                        if env.amb:
                            nxt = None
                            break
                        bt_x = env.x(bt, stop=set(COEFF_FUNCS), use=ifst)
                        if env.amb:
                            nxt = None
                            break
                        nxt.append((_Sub({}, {nm: val_x}).visit(_clone(ex_)), more + _conjuncts(bt_x, bpol)))
                    if nxt is None:
                        break
                if nxt:
                    alts = nxt
                    amb = [a_ for a_ in amb if a_ != nm]
            paths = [p_ + [(ex_, pol, more, tuple(amb))] for p_ in paths for ex_, more in alts]
        out = []
        for p_ in paths:
            atoms_, left = [], set()
            for ex_, pol, more, amb in p_:
                atoms_ += _conjuncts(ex_, pol) + more
                left |= set(amb)
            dead = False
            for e, pol in atoms_:
                B = _nonempty_of(e, pol)
                if B is not None and isinstance(B, (ast.List, ast.Tuple)) and not B.elts:
                    dead = True
            if not dead:
                out.append((atoms_, left))
        return out

    def selection(B, var_to=None):
        """a (nested) selection `[v for v in <list or selection> if <tests>]`: (lists it ranges over / tests membership in, the other
        tests with the variable renamed to `m`, what was not followed)"""
        ls, tests, unk = set(), [], []
        g = B.generators[0]
        var = g.target.id
        if not (isinstance(B.elt, ast.Name) and B.elt.id == var):
            unk.append(f"elements `{src(B.elt)[:30]}` of a selection")
        if _bare_list(g.iter) in NEUMANN_LISTS:
            ls.add(_bare_list(g.iter))
        elif isinstance(g.iter, (ast.ListComp, ast.SetComp, ast.GeneratorExp)) and len(g.iter.generators) == 1 and \
                isinstance(g.iter.generators[0].target, ast.Name):
            l2, t2, u2 = selection(g.iter)
            ls |= l2
            tests += t2
            unk += u2
        elif not mt._tracked_in(g.iter):
            unk.append(f"selection over `{src(g.iter)[:40]}`")
        for c_, cpol in [a_ for i_ in g.ifs for a_ in _conjuncts(i_, True)]:
            if cpol and isinstance(c_, ast.Compare) and len(c_.ops) == 1 and isinstance(c_.ops[0], ast.In) and src(c_.left) == var \
                    and _bare_list(c_.comparators[0]) in NEUMANN_LISTS:
                ls.add(_bare_list(c_.comparators[0]))
            else:
                tests.append((_Sub({var: "m"}, {}).visit(_clone(c_)), cpol))
        return ls, tests, unk

    m0_only = None
    unread = []
    for r in raises:
        tests_ = []
        loopvars = {}
        cur, p = r, parent(r)
        while p is not None and p is not fn:
            if isinstance(p, ast.If):
                tests_.append((p.test, any(cur is x for x in p.body), p))
            elif isinstance(p, ast.For) and isinstance(p.target, ast.Name):
                loopvars[p.target.id] = env.x(p.iter, use=p)
            cur, p = p, parent(p)
        for atoms, left_amb in guard_paths(tests_):
            v_, m0_, note_, concerns = _refusal_path(atoms, left_amb, loopvars, mt, selection)
            if v_ == "bad":
                bad = ("pure-Neumann modes are refused when the reaction term does NOT vanish and accepted when it does: the singular "
                       "problems go through")
            elif v_ == "ok":
                ok = True
                notes += note_
            elif v_ == "m0":
                m0_only = m0_
            elif concerns:
                unread.append(src(r)[:40])
    # AUDIT: "only m = 0 is refused" is true of the code when the guard of the raise was followed completely (every conjunct read, no
    # unresolved local), the collection it tests is the selection of the modes in both Neumann lists restricted by `m == 0` alone
    # (no alternative `or funcIsNull(ddThetaFactor)`), and no other raise / assert / call of the constructor that concerns the Neumann
    # lists or the theta term is left unread (it could refuse the remaining modes): decided below, once those are collected
    # AUDIT: "no refusal is left" needs every place the check may have moved to to have been looked at: the constructor with its new
    # helpers written back; no call left in it that receives a Neumann list (a validation helper that could not be written back)
    BUILTIN_READERS = ("len", "set", "list", "tuple", "frozenset", "sorted", "any", "all", "bool", "slice", "range", "enumerate", "zip")
    handed_over = [c for c in ast.walk(fn) if isinstance(c, ast.Call) and src(c.func) not in BUILTIN_READERS and not src(c.func).startswith(("np.", "numpy."))
                   and any(isinstance(x, ast.Name) and x.id in NEUMANN_LISTS for a_ in list(c.args) + [k.value for k in c.keywords]
                           for x in ast.walk(a_))]
    asserts = [n for n in ast.walk(fn) if isinstance(n, ast.Assert) and
               ({x.id for x in ast.walk(n.test) if isinstance(x, ast.Name)} & (set(NEUMANN_LISTS) | {"ddThetaFactor"}))]
    if not ok and not bad and m0_only and not unread and not handed_over and not asserts:
        bad = m0_only
    if not raises and not handed_over and \
            not any(isinstance(n, ast.Assert) and ({x.id for x in ast.walk(n.test) if isinstance(x, ast.Name)} & set(NEUMANN_LISTS))
                    for n in ast.walk(fn)):
        bad = "no refusal of ill-posed pure-Neumann modes is left in the constructor"
    chk.pat("F4-neumann-refusal", fn, "raise ValueError for modes Neumann at both ends with C == 0", ok,
            "modes with Neumann conditions on both boundaries are refused when the reaction term vanishes" +
            ("; " + "; ".join(sorted(set(notes))) if notes else ""), bad, file=U.POISSON, func=q)


# =========================================================================================================
# complex data path: rho holds Fourier modes (complex numbers); the interpolator that turns a line of rho into spline
# coefficients, the spline that receives them and the coefficient buffer of the solution must all work on complex numbers, or the
# imaginary part of every right-hand side is dropped (the solve is then not linear over C).  The element type is a contract
# between the constructor (the dtype it passes) and the callee (what it does with it): both sides are composed.
# =========================================================================================================

PY_TYPES = {"complex": "complex", "float": "real", "int": "real"}
NP_COMPLEX = {"complex128", "complex_", "cdouble", "complex64", "csingle", "clongdouble", "complex256", "complexfloating"}
NP_REAL = {"float64", "float_", "double", "float32", "single", "longdouble", "float128", "floating", "int64", "int32", "int_"}
STR_COMPLEX = {"complex", "complex128", "complex64", "c16", "c8", "D", "F", "cdouble"}
STR_REAL = {"float", "float64", "float32", "f8", "f4", "d", "f", "double"}


def _dtype_class(e):
    """(family, kind) of an element-type expression: family 'py' (the builtins complex / float), 'np' (a numpy scalar type
    np.complex128, ...), 'str' (a type name), 'dtype' (np.dtype(...)); kind 'complex' / 'real'.  None when not recognised"""
    if isinstance(e, ast.Name) and e.id in PY_TYPES:
        return "py", PY_TYPES[e.id]
    if isinstance(e, ast.Attribute) and isinstance(e.value, ast.Name) and e.value.id in ("np", "numpy"):
        if e.attr in NP_COMPLEX:
            return "np", "complex"
        if e.attr in NP_REAL:
            return "np", "real"
    if isinstance(e, ast.Constant) and isinstance(e.value, str):
        if e.value in STR_COMPLEX:
            return "str", "complex"
        if e.value in STR_REAL:
            return "str", "real"
    if isinstance(e, ast.Call) and src(e.func) in ("np.dtype", "numpy.dtype") and len(e.args) == 1 and not e.keywords:
        inner = _dtype_class(e.args[0])
        return ("dtype", inner[1]) if inner else None
    return None


def _resolve_ctor_value(chk, e, env, use, fn, depth=0):
    """the expression with constructor locals expanded and an attribute of the solver replaced by the one value the constructor
    stores into it (stored once, at the top level of the constructor, before the use, and by no other method of the solver classes);
    None when that cannot be established"""
    ex = env.x(e, use=use)
    if env.amb:
        return None
    if isinstance(ex, ast.Attribute) and isinstance(ex.value, ast.Name) and ex.value.id == "self" and depth < 4:
        key = src(ex)
        stores = [n for n in ast.walk(fn) if isinstance(n, (ast.Assign, ast.AugAssign, ast.AnnAssign))
                  and any(src(t) == key for t in (n.targets if isinstance(n, ast.Assign) else [n.target]))]
        if len(stores) != 1 or not isinstance(stores[0], ast.Assign) or parent(stores[0]) is not fn or not env.before(stores[0], use):
            return None
        for c in chk.mod(U.POISSON).tree.body:
            if isinstance(c, ast.ClassDef) and c.name in (CLS, QNC):
                for m_ in c.body:
                    if isinstance(m_, ast.FunctionDef) and not (c.name == CLS and m_.name == "__init__"):
                        if any(isinstance(n, ast.Attribute) and src(n) == key and isinstance(n.ctx, (ast.Store, ast.Del)) for n in ast.walk(m_)):
                            return None
        return _resolve_ctor_value(chk, stores[0].value, env, stores[0], fn, depth + 1)
    return ex


def _type_test(test, par, cls_):
    """truth of a condition of the callee on its element-type parameter `par`, for an argument of class cls_ = (family, kind);
    None when the condition is not one of the modelled forms"""
    fam, kind = cls_
    if isinstance(test, ast.UnaryOp) and isinstance(test.op, ast.Not):
        v = _type_test(test.operand, par, cls_)
        return None if v is None else not v
    if isinstance(test, ast.BoolOp):
        vals = [_type_test(v, par, cls_) for v in test.values]
        if isinstance(test.op, ast.And):
            return False if any(v is False for v in vals) else (None if any(v is None for v in vals) else True)
        return True if any(v is True for v in vals) else (None if any(v is None for v in vals) else False)

    def same_object(other):
        """is the argument the very object `other` names (type objects compare by identity)?"""
        oc = _dtype_class(other)
        if oc is None or oc[0] not in ("py", "np") or fam not in ("py", "np"):
            return None
        if oc[0] != fam:
            return False                    # the builtin complex and numpy.complex128 are different type objects
        if fam == "py":
            return oc[1] == kind
        return oc[1] == kind if oc[1] != kind else None      # two numpy names of the same kind may or may not be aliases
    if isinstance(test, ast.Compare) and len(test.ops) == 1:
        a, b, op = test.left, test.comparators[0], test.ops[0]
        if isinstance(op, (ast.Eq, ast.NotEq, ast.Is, ast.IsNot)) and (src(a) == par or src(b) == par):
            other = b if src(a) == par else a
            oc = _dtype_class(other)
            if fam == "dtype" or (oc and oc[0] == "dtype"):
                # np.dtype(...) == <anything naming a type> compares the coerced element types
                v = (oc[1] == kind) if (oc and isinstance(op, (ast.Eq, ast.NotEq))) else None
            elif fam == "str" or (oc and oc[0] == "str"):
                v = None
            else:
                v = same_object(other)
            if v is None:
                return None
            return v if isinstance(op, (ast.Eq, ast.Is)) else not v
        if isinstance(op, (ast.In, ast.NotIn)) and src(a) == par and isinstance(b, (ast.Tuple, ast.List, ast.Set)):
            vals = [same_object(x) for x in b.elts]
            v = True if any(x is True for x in vals) else (None if any(x is None for x in vals) else False)
            return None if v is None else (v if isinstance(op, ast.In) else not v)
        # np.dtype(par).kind == 'c'
        if isinstance(op, (ast.Eq, ast.NotEq)) and isinstance(a, ast.Attribute) and a.attr == "kind" and isinstance(a.value, ast.Call) and \
                src(a.value.func) in ("np.dtype", "numpy.dtype") and len(a.value.args) == 1 and src(a.value.args[0]) == par and \
                isinstance(b, ast.Constant) and b.value in ("c", "f"):
            v = (kind == "complex") == (b.value == "c")
            return v if isinstance(op, ast.Eq) else not v
    if isinstance(test, ast.Call) and src(test.func) in ("np.issubdtype", "numpy.issubdtype") and len(test.args) == 2 and \
            src(test.args[0]) == par and not test.keywords:
        oc = _dtype_class(test.args[1])
        if oc and src(test.args[1]).split(".")[-1] in ("complexfloating", "floating"):
            return kind == oc[1]
    return None


def complex_data(chk):
    """F4-complex-data: the interpolator of rho, the spline of rho and the solution buffer are built for complex numbers"""
    q = f"{CLS}.__init__"
    fn = flat_view(chk, U.POISSON, CLS, "__init__")
    env = env_of(chk, fn)
    # roles: the object whose compute_interpolant receives a line of rho in the per-mode solve, and the spline it fills
    disc = next((cl for c_, m_, cl in entry_points(chk) if c_ == CLS and m_ == "solveEquation"), "_solveMode")
    sm = solve_view(chk, disc, CLS, "solveEquation")
    senv = env_of(chk, sm)
    uses = [c for c in ast.walk(sm) if isinstance(c, ast.Call) and isinstance(c.func, ast.Attribute) and c.func.attr == "compute_interpolant"
            and len(c.args) == 2 and not c.keywords and src(senv.x(c.args[0], use=_stmt_of(c))).replace(" ", "").startswith("rho.")]
    if len(uses) != 1 or not (src(uses[0].func.value).startswith("self.") and src(uses[0].args[1]).startswith("self.")):
        chk.ob("F4-complex-data", sm, "interpolation of the (complex) line of rho", None,
               "the call <interpolator>.compute_interpolant(<line of rho>, <spline>) of the per-mode solve was not found", file=U.POISSON,
               func=f"{CLS}.{disc}")
        return
    interp_attr, spline_attr = src(uses[0].func.value), src(uses[0].args[1])

    def ctor_call(attr):
        d = [n for n in ast.walk(fn) if isinstance(n, ast.Assign) and any(src(t) == attr for t in n.targets)]
        if len(d) == 1 and isinstance(d[0].value, ast.Call) and parent(d[0]) is fn:
            return d[0]
        return None

    def type_argument(site, callee_fn, skip_self=True):
        """(resolved argument expression or None, the callee's parameter name) for the element-type parameter `dtype`"""
        a = callee_fn.args
        if a.vararg or a.kwarg:
            return None, None
        formals = [x.arg for x in a.args]
        b = bind_call(site.value, formals, skip_self=skip_self)
        par = "dtype" if "dtype" in formals else None
        if b is None or par is None:
            return None, par
        if par in b:
            return _resolve_ctor_value(chk, b[par], env, site, fn), par
        dflt = dict(zip(formals[len(formals) - len(a.defaults):], a.defaults))
        return dflt.get(par), par

    # --- the interpolator: which LAPACK routines its constructor selects for the element type it is given
    site = ctor_call(interp_attr)
    ok, why = None, f"the construction of `{interp_attr}` was not found"
    if site is not None and src(site.value.func).split(".")[-1] == "SplineInterpolator1D":
        try:
            cal = chk.func(U.INTERP, "SplineInterpolator1D.__init__")
        except AnalysisError:
            cal = None
        arg, par = type_argument(site, cal) if cal is not None else (None, None)
        cls_ = _dtype_class(arg) if arg is not None else None
        why = f"the element type `{src(arg) if arg is not None else '?'}` handed to SplineInterpolator1D was not resolved to a known type"
        if cal is not None and cls_ is not None:
            def dispatch(fnode, par_, depth=0):
                """(selections [(test, nodes run when true, nodes run when false)] on the element-type parameter, its name there, is it
                rebound?) in a function, or - when it only hands the parameter on to one other class / function of the module - there"""
                sel = [(n.test, n.body, n.orelse) for n in ast.walk(fnode) if isinstance(n, ast.If)
                       and any(isinstance(x, ast.Name) and x.id == par_ for x in ast.walk(n.test))]
                sel += [(n.test, [n.body], [n.orelse]) for n in ast.walk(fnode) if isinstance(n, ast.IfExp)
                        and any(isinstance(x, ast.Name) and x.id == par_ for x in ast.walk(n.test))]
                stored_ = any(isinstance(x, ast.Name) and x.id == par_ and isinstance(x.ctx, ast.Store) for x in ast.walk(fnode))
                if sel or depth >= 2:
                    return sel, par_, stored_
                tree = chk.mod(U.INTERP).tree
                onward = []
                for c_ in ast.walk(fnode):
                    if not (isinstance(c_, ast.Call) and isinstance(c_.func, ast.Name)):
                        continue
                    pos = [k_ for k_, a_ in enumerate(c_.args) if isinstance(a_, ast.Name) and a_.id == par_]
                    kws = [k_.arg for k_ in c_.keywords if isinstance(k_.value, ast.Name) and k_.value.id == par_ and k_.arg]
                    if not pos and not kws:
                        continue
                    target = next((x for x in tree.body if isinstance(x, (ast.ClassDef, ast.FunctionDef)) and x.name == c_.func.id), None)
                    if isinstance(target, ast.ClassDef):
                        init = next((m_ for m_ in target.body if isinstance(m_, ast.FunctionDef) and m_.name == "__init__"), None)
                        formals_ = [a_.arg for a_ in init.args.args][1:] if init is not None else None
                        target = init
                    elif isinstance(target, ast.FunctionDef):
                        formals_ = [a_.arg for a_ in target.args.args]
                    else:
                        formals_ = None
                    if target is None or formals_ is None or any(isinstance(a_, ast.Starred) for a_ in c_.args):
                        onward.append(None)
                    elif kws:
                        onward.append((target, kws[0]))
                    elif pos[0] < len(formals_):
                        onward.append((target, formals_[pos[0]]))
                    else:
                        onward.append(None)
                if onward and all(o_ is not None for o_ in onward) and not stored_:
                    # handed on to several helpers (one per kind of basis): the one that selects routines by the element type
                    subs_ = [dispatch(o_[0], o_[1], depth + 1) for o_ in onward]
                    subs_ = [x_ for x_ in subs_ if x_[0]]
                    if len(subs_) == 1:
                        return subs_[0]
                return [], par_, stored_
            tests, par, stored = dispatch(cal, par)
            why = "the selection of the solve routines by the element type in SplineInterpolator1D.__init__ was not found"
            if len(tests) == 1 and not stored:
                class _T:
                    pass
                t = _T()
                t.test, t.body, t.orelse = tests[0]
                v = _type_test(t.test, par, cls_)

                def routines(stmts):
                    names = {x.id for s_ in stmts for x in ast.walk(s_) if isinstance(x, ast.Name)} | \
                        {x.attr for s_ in stmts for x in ast.walk(s_) if isinstance(x, ast.Attribute)}
                    z = {n_ for n_ in names if n_.startswith("zgb")}
                    d = {n_ for n_ in names if n_.startswith("dgb")}
                    return "complex" if z and not d else ("real" if d and not z else None)
                taken = routines(t.body if v else t.orelse) if v is not None else None
                other = routines(t.orelse if v else t.body) if v is not None else None
                why = (f"the test `{src(t.test)}` of SplineInterpolator1D.__init__ on the element type `{src(arg)}` / the routines of its "
                       "branches were not decided")
                if taken == "complex":
                    ok, why = True, (f"SplineInterpolator1D is built with `{src(arg)}`, for which its test `{src(t.test)}` selects the complex "
                                     "band solver (zgbtrf / zgbtrs): the imaginary part of rho is interpolated")
                elif taken == "real" and other == "complex":
                    # AUDIT: true of the code when the argument was resolved to one type object (done), the callee has exactly one
                    # selection on the parameter and does not rebind it (done), the branch taken holds the real routines only and the
                    # data is complex (the line of rho of the per-mode solve: Fourier modes)
                    ok = False
                    ident = ""
                    if cls_[0] == "np" and cls_[1] == "complex":
                        ident = (f" (`{src(arg)}` is numpy's scalar type, a different object from the builtin `complex`, and type objects "
                                 "compare by identity)")
                    why = (f"SplineInterpolator1D is built with the element type `{src(arg)}`; its constructor selects the routines with "
                           f"`{src(t.test)}`, which is {'true' if v else 'false'} for this argument{ident}: the real band solver "
                           "(dgbtrf / dgbtrs) is used for the lines of rho, which hold complex Fourier modes - their imaginary part is cast "
                           "away (a ComplexWarning only), so solveEquation returns the solution for Re(rho): not linear over the complex "
                           "numbers, wrong for every mode with a non-zero imaginary part")
    chk.ob("F4-complex-data", site if site is not None else fn, f"{interp_attr} = SplineInterpolator1D(<basis>, dtype=complex)", ok, why,
           file=U.POISSON, func=q)
    # --- the spline that receives the coefficients of rho, and the solution buffer: arrays of complex numbers
    site = ctor_call(spline_attr)
    ok, why = None, f"the construction of `{spline_attr}` was not found"
    if site is not None and src(site.value.func).split(".")[-1] == "Spline1D":
        try:
            cal = chk.func(U.SPLINES, "Spline1D.__init__")
        except AnalysisError:
            cal = None
        arg, par = type_argument(site, cal) if cal is not None else (None, None)
        cls_ = _dtype_class(arg) if arg is not None else None
        why = f"the element type `{src(arg) if arg is not None else '?'}` handed to Spline1D was not resolved to a known type"
        if cal is not None and cls_ is not None:
            # the callee hands the parameter to the allocation of its coefficients
            allocs = [c for c in ast.walk(cal) if isinstance(c, ast.Call) and src(c.func).split(".")[-1] in ("zeros", "empty", "ones")
                      and (any(k.arg == "dtype" and src(k.value) == par for k in c.keywords) or (len(c.args) == 2 and src(c.args[1]) == par))]
            why = "the allocation of the coefficients with the element type in Spline1D.__init__ was not found"
            if len(allocs) == 1:
                ok = cls_[1] == "complex"
                why = (f"the coefficients of `{spline_attr}` are allocated with `{src(arg)}`: complex numbers" if ok else
                       f"the spline `{spline_attr}` that receives the interpolant of rho is built with the element type `{src(arg)}`: its "
                       "coefficients are real, the imaginary part of the Fourier modes of rho is dropped when they are stored")
    chk.ob("F4-complex-data", site if site is not None else fn, f"{spline_attr} = Spline1D(<basis>, <complex type>)", ok, why,
           file=U.POISSON, func=q)
    d = [n for n in ast.walk(fn) if isinstance(n, ast.Assign) and any(src(t) == COEFFS for t in n.targets)]
    ok, why = None, "the allocation of the solution buffer self._coeffs was not found"
    if len(d) == 1 and isinstance(d[0].value, ast.Call) and src(d[0].value.func).split(".")[-1] in ("empty", "zeros", "ones") and \
            src(d[0].value.func).split(".")[0] in ("np", "numpy"):
        c = d[0].value
        targ = c.args[1] if len(c.args) > 1 else next((k.value for k in c.keywords if k.arg == "dtype"), None)
        arg = _resolve_ctor_value(chk, targ, env, d[0], fn) if targ is not None else ast.Name(id="float", ctx=ast.Load())
        cls_ = _dtype_class(arg) if arg is not None else None
        why = f"the element type `{src(targ) if targ is not None else '?'}` of the solution buffer was not resolved to a known type"
        if cls_ is not None:
            ok = cls_[1] == "complex"
            why = ("the solution buffer holds complex numbers" if ok else
                   f"the solution buffer self._coeffs is allocated with the element type `{src(arg)}`: the imaginary part of the solved "
                   "coefficients is dropped when they are stored")
    chk.ob("F4-complex-data", d[0] if len(d) == 1 else fn, "self._coeffs = np.empty(<nbasis>, <complex type>)", ok, why, file=U.POISSON, func=q)


def run(chk):
    chk.explanation = (
        "Element-wise model of the assembly in DiffEqSolver.__init__: each np.sum(weights*halfwidth*...) integrand is parsed "
        "(local names expanded to their definitions) into a polynomial over {W, MF, A..E, phi, phi', psi, psi', r} and compared "
        "with the weak form of A phi'' + B phi' + C phi - m^2 D phi = E rho in cylindrical measure (integration by parts of the A "
        "term for constant A, derivative on the trial/column function on both the upper and the mirrored diagonals); number of "
        "Gauss-Legendre points against the requested degree (2n-1 >= degree for all degrees); cell mapping of the points; operator "
        "composition; mode-number def-use order (which power of m every table holds from its creation on); the shared coefficient "
        "buffer followed path by path through the mode loop and the per-mode solve as one unit (boundary entries reset for every "
        "mode, unknowns stored for every line before they are evaluated, no memoised per-mode value kept in the solver); per-mode "
        "operator composed from what the caller passes and what the per-mode solve does to it, with the global mode index (helper "
        "methods written back in place, merged siblings specialised by their bound flags); right-hand side and evaluation; "
        "pure-Neumann refusal; plus the "
        "index-space typing of the per-mode tables (engine C). The sparse solve and evaluation accuracy are not decided.")
    chk.in_file(U.POISSON)
    assembly(chk)
    per_mode(chk)
    complex_data(chk)
    refusal(chk)
    solver_index_spaces(ViewedCheck(chk))
    chk.floor("F4-weak-form", 7)
    chk.floor("F4-", 20)
    chk.floor("C-", 10)


# --- engine I (pgverif/oneshot.py): one-shot iterators handed out by the grid accessors are walked once per creation and never memoised.
# Run first so that its reports do not depend on the idiom recognition of the rules above.
_run_before_engine_I = run


def run(chk):  # noqa: F811
    from ..oneshot import attach
    attach(chk, [(U.POISSON, {"DiffEqSolver"})])
    _run_before_engine_I(chk)
