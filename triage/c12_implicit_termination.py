"""Triage (not part of any check): does the implicit poloidal advection terminate for a strong drift near a small inner radius?
Run with cwd=/repo.  Uses a fake single-process mpi4py."""
import os, sys, types, signal
sys.path.insert(0, os.getcwd())
_m = types.ModuleType('mpi4py'); _M = types.ModuleType('mpi4py.MPI')
class _Comm:
    def Get_rank(self): return 0
    def Get_size(self): return 1
_M.Comm = _Comm; _M.Intracomm = _Comm; _M.COMM_WORLD = _Comm()
for _n in ('DOUBLE', 'MIN', 'MAX', 'SUM', 'INT', 'COMPLEX', 'DOUBLE_COMPLEX'):
    setattr(_M, _n, object())
_m.MPI = _M; sys.modules['mpi4py'] = _m; sys.modules['mpi4py.MPI'] = _M
import numpy as np
from pygyro import splines as spl
from pygyro.initialisation.constants import Constants
from pygyro.advection.advection import PoloidalAdvection

class Timeout(Exception): pass
def _alarm(s, f): raise Timeout()

def run(rlim, A, dt, nq=16, nr=12):
    breaks_r = np.linspace(*rlim, nr - 2)
    breaks_q = np.linspace(0, 2*np.pi, nq + 1)
    br = spl.BSplines(spl.make_knots(breaks_r, 3, False), 3, False, True)
    bq = spl.BSplines(spl.make_knots(breaks_q, 3, True), 3, True, True)
    r, q = np.array(br.greville), np.array(bq.greville)
    c = Constants()
    adv = PoloidalAdvection([r, q, np.linspace(0, 1, 4), np.linspace(0, 1, 4)], [bq, br], c, False, False, 1e-10)
    Q, R = np.meshgrid(q, r, indexing='ij')
    interp = spl.SplineInterpolator2D(bq, br)
    phi = spl.Spline2D(bq, br)
    interp.compute_interpolant(A*R*np.sin(Q) + 0.1*(R-np.mean(rlim))**2*np.cos(2*Q) + 0.15*R*R, phi)
    f = np.exp(-(R-np.mean(rlim))**2*0.35 - 2.0*(1-np.cos(Q-np.pi)))
    signal.signal(signal.SIGALRM, _alarm); signal.alarm(20)
    try:
        adv.step(f, dt, phi, 0.2)
        signal.alarm(0)
        return "terminated"
    except Timeout:
        return "DID NOT TERMINATE within 20 s"

for rlim, A, dt in (((2.0, 10.0), 1.2, 0.8), ((1.0, 9.0), 1.2, 0.8), ((0.5, 8.5), 1.2, 0.8), ((1.0, 9.0), 0.3, 0.2)):
    print(f"r in {rlim}, phi = {A} r sin(theta) + ..., dt = {dt}: {run(rlim, A, dt)}")
