"""C06 - all ranks issue matching collectives; no layout change can deadlock.

Engine B (pgverif/spmd.py): rules B0-B4 over every function that (transitively)
issues a collective, in the units below.
"""
from __future__ import annotations

import ast

from ..core import src, AnalysisError, parent
from ..resolve import Program, inline_locals, expand
from .. import units as U
from ..spmd import run_spmd

UNITS = [U.LAYOUT, U.GRID, U.DIAG, U.SAVING, U.SETUPS, U.DRIVER, U.NORMS, U.ENERGY, U.ADV, U.POISSON, U.INITIALISER]


# ------------------------------------------------------------------ B4
def unordered_sites(fn: ast.FunctionDef):
    """order-sensitive uses of set-typed locals in fn -> list of (node, kind, setname)"""
    setvars = set()
    for n in ast.walk(fn):
        if isinstance(n, ast.Assign):
            v = n.value
            is_set = isinstance(v, (ast.Set, ast.SetComp)) or \
                (isinstance(v, ast.Call) and isinstance(v.func, ast.Name) and v.func.id in ("set", "frozenset"))
            if is_set:
                for t in n.targets:
                    if isinstance(t, ast.Name):
                        setvars.add(t.id)
    out = []

    def is_setexpr(e):
        return (isinstance(e, ast.Name) and e.id in setvars) or isinstance(e, (ast.Set, ast.SetComp)) or \
            (isinstance(e, ast.Call) and isinstance(e.func, ast.Name) and e.func.id in ("set", "frozenset"))

    for n in ast.walk(fn):
        if isinstance(n, ast.Call):
            f = n.func
            if isinstance(f, ast.Name) and f.id in ("min", "max", "next", "list", "tuple", "iter", "enumerate", "zip") \
                    and n.args and is_setexpr(n.args[0]):
                out.append((n, f.id, src(n.args[0])))
            if isinstance(f, ast.Attribute) and f.attr == "pop" and is_setexpr(f.value) and not n.args:
                out.append((n, "pop", src(f.value)))
        if isinstance(n, (ast.For, ast.comprehension)) and is_setexpr(n.iter):
            out.append((n, "for", src(n.iter)))
    return out, setvars


def b4_route_determinism(chk, mod):
    """The hash-ordered choice in the route search is compensated by a total-order
    tie-break on equal distances (DESIGN 4.1 B4 / 5 C06-4)."""
    fn = mod.func("LayoutManager._makeConnectionMap")
    chk.functions.add(f"{mod.rel}:LayoutManager._makeConnectionMap")
    sites, setvars = unordered_sites(fn)
    ok_all = True
    env = inline_locals(fn)
    for node, kind, sname in sites:
        # find the relaxation If-chain in the same loop as the choice
        loop = node
        while loop is not None and not isinstance(loop, (ast.While, ast.For)):
            loop = parent(loop)
        found = None
        detail = "no relaxation `if d_new < d_old ... elif d_new == d_old` chain found in the loop of the choice"
        if loop is not None:
            for n in ast.walk(loop):
                if isinstance(n, ast.If) and isinstance(n.test, ast.Compare) and len(n.test.ops) == 1:
                    t = expand(n.test, env)
                    if isinstance(t.ops[0], (ast.Lt, ast.LtE, ast.Gt, ast.GtE)) and "distanceMap" in src(t) or \
                            (isinstance(t.ops[0], (ast.Lt, ast.LtE, ast.Gt, ast.GtE)) and _is_relax(n)):
                        found = n
                        break
        ok = None if found is None else False
        if found is None:
            detail = ("the route search was not recognised (no `if d_new < d_old ... elif d_new == d_old` relaxation chain): whether "
                      f"equally short routes are chosen independently of the hash order of `{sname}` is not decided")
        if found is not None:
            t = expand(found.test, env)
            op = t.ops[0]
            lhs, rhs = src(t.left), src(t.comparators[0])
            strict = isinstance(op, (ast.Lt, ast.Gt))
            # equal-distance branch: `elif lhs == rhs:` (either operand order)
            eq = None
            if len(found.orelse) == 1 and isinstance(found.orelse[0], ast.If):
                e = found.orelse[0]
                et = expand(e.test, env)
                if isinstance(et, ast.Compare) and len(et.ops) == 1 and isinstance(et.ops[0], ast.Eq) and \
                        {src(et.left), src(et.comparators[0])} == {lhs, rhs}:
                    eq = e
            if not strict:
                detail = f"first relaxation test `{src(found.test)}` is not strict: equal-length routes overwrite " \
                         f"each other in visiting order, which is the hash order of `{sname}`"
            elif eq is None:
                detail = "no equal-distance branch: among equal-length routes the first visited wins, " \
                         f"and the visiting order is the hash order of `{sname}`"
            else:
                # inside: a strict total-order comparison of candidate vs stored route, then both map directions stored
                inner = [x for x in eq.body if isinstance(x, ast.If)]
                good = False
                for x in inner:
                    xt = expand(x.test, env)
                    if isinstance(xt, ast.Compare) and len(xt.ops) == 1 and isinstance(xt.ops[0], (ast.Lt, ast.Gt)) \
                            and "_route_map" in src(xt):
                        # candidate route expression appears in the comparison and in the assignment
                        assigns = [a for a in ast.walk(x) if isinstance(a, ast.Assign)
                                   and "_route_map" in src(a.targets[0])]
                        cand = src(xt.left) if isinstance(xt.ops[0], ast.Lt) else src(xt.comparators[0])
                        stored = src(xt.comparators[0]) if isinstance(xt.ops[0], ast.Lt) else src(xt.left)
                        tg = {src(a.targets[0]) for a in assigns}
                        vals = {src(expand(a.value, env)) for a in assigns}
                        if stored in tg and cand in vals and len(assigns) >= 2:
                            good = True
                        else:
                            detail = "tie-break does not store the compared candidate route in both map directions"
                    elif isinstance(xt, ast.Compare):
                        detail = f"tie-break comparison `{src(x.test)}` is not a strict total-order comparison of routes"
                if good:
                    ok = True
                    detail = "equal-distance branch compares candidate and stored route with a total order and " \
                             "stores the smaller in both directions"
                elif not inner:
                    detail = "equal-distance branch contains no route comparison"
        chk.ob("B4-unordered-choice", node, f"{kind}({sname})", ok, detail, file=mod.rel,
               func="LayoutManager._makeConnectionMap")
        ok_all = ok_all and (ok is not False)
    if not sites:
        chk.ob("B4-unordered-choice", fn, "no unordered choice", True,
               "route search no longer iterates over an unordered collection", file=mod.rel,
               func="LayoutManager._makeConnectionMap", nontrivial=False)
    # other order-sensitive uses of sets anywhere in layout.py
    for q, f in mod.functions().items():
        if q == "LayoutManager._makeConnectionMap":
            continue
        s2, _ = unordered_sites(f)
        for node, kind, sname in s2:
            chk.ob("B4-unordered-choice", node, f"{kind}({sname})", False,
                   "order-sensitive use of a hash-ordered set in layout management (ranks are separate "
                   "interpreters with different string hash seeds)", file=mod.rel, func=q)
    return ok_all


def _is_relax(n):
    return any(isinstance(a, ast.Assign) and "_route_map" in src(a.targets[0]) for a in ast.walk(n))


def b4_self_positive(chk):
    """tiny synthetic positive example: the rule must fire on a search without tie-break"""
    code = '''
class LayoutManager:
    def _makeConnectionMap(self, DirectConnections):
        for source in DirectConnections.keys():
            unvisitedNodes = set(DirectConnections.keys())
            while len(unvisitedNodes) > 0:
                via = min(unvisitedNodes, key=lambda x: distanceMap[source][x])
                unvisitedNodes.remove(via)
                for aim in DirectConnections[via]:
                    if distanceMap[source][via] + distanceMap[via][aim] < distanceMap[source][aim]:
                        self._route_map[source][aim] = self._route_map[source][via] + self._route_map[via][aim]
'''
    import types
    from ..core import Module
    m = Module.__new__(Module)
    m.rel = "<synthetic>"
    m.src = code
    m.tree = ast.parse(code)
    for node in ast.walk(m.tree):
        for ch in ast.iter_child_nodes(node):
            ch._parent = node
    m.tree._parent = None
    m._index = {}
    m._build(m.tree.body, "")

    class Dummy:
        functions = set()
        obs = []

        def ob(self, rule, node, construct, ok, msg="", **kw):
            self.obs.append(ok)
    d = Dummy()
    d.obs = []
    b4_route_determinism(d, m)
    if any(o is True for o in d.obs) or not d.obs:
        raise AnalysisError("B4 self-test: rule did not fire on the synthetic search without tie-break")


# ------------------------------------------------------------------ B5
GATHERV_TEMPLATE = """
sizes = [coords.pop() for coords in mpi_data]
starts = np.zeros(len(sizes), int)
starts[1:] = np.cumsum(sizes[:comm.Get_size() - 1])
sliceSize = np.sum(sizes)
mySlice = np.empty(sliceSize, dtype=float)
comm.Gatherv(toSend, (mySlice, sizes, starts, MPI.DOUBLE), rank)
"""


def b5_gatherv_geometry(chk):
    """the root's receive specification of the variable-count gather matches what the members send"""
    from ..core import find, contains
    q = "Grid.getBlockForFig"
    fn = chk.func(U.GRID, q)
    calls = [n for n in ast.walk(fn) if isinstance(n, ast.Call) and isinstance(n.func, ast.Attribute) and n.func.attr == "Gatherv"]
    if len(calls) != 2:
        raise AnalysisError(f"C06: expected the root and the member Gatherv of {q}, found {len(calls)}")
    b = find(fn, GATHERV_TEMPLATE, vars=("comm", "mpi_data", "toSend", "rank", "coords"))
    bad = None
    if b is None:
        root = [c for c in calls if len(c.args) >= 2 and isinstance(c.args[1], (ast.Tuple, ast.List))]
        if root and isinstance(root[0].args[1].elts[0], ast.Name):
            rn = root[0].args[1].elts[0].id
            defs = [n for n in ast.walk(fn) if isinstance(n, ast.Assign) and src(n.targets[0]) == rn]
            if defs and isinstance(defs[-1].value, ast.Subscript) and src(defs[-1].value.value).startswith("self."):
                attr = src(defs[-1].value.value)
                for g in ast.walk(fn):
                    if isinstance(g, ast.Compare) and len(g.ops) == 1 and f"{attr}.size" in (src(g.left), src(g.comparators[0])):
                        need_left = src(g.comparators[0]) == f"{attr}.size"       # S op attr.size
                        grow = isinstance(g.ops[0], (ast.Gt, ast.GtE, ast.NotEq)) if need_left else \
                            isinstance(g.ops[0], (ast.Lt, ast.LtE, ast.NotEq))
                        if not grow:
                            bad = (f"the receive buffer `{rn}` is a view of the kept `{attr}`, which is re-allocated only when `{src(g)}`: "
                                   "a later, larger request gets a receive buffer shorter than the counts the members send")
    chk.pat("B5-gatherv-geometry", calls[0], "root: recv = empty(sum(counts)), displs = exclusive cumsum(counts), counts gathered from the members",
            b is not None, "the counts are the sizes every member reported, the displacements their exclusive prefix sums and the receive "
            "buffer has exactly their total", bad, file=U.GRID, func=q)
    ok = b is not None and contains(fn, "mpi_data = comm.gather(sendInfo, root=rank)", vars=("comm", "sendInfo", "rank"),
                                    bind={k: v for k, v in b.items() if k in ("comm", "mpi_data", "rank")}) is not None and \
        contains(fn, "toSend = np.ndarray(0)\nsendInfo.append(0)", vars=("toSend", "sendInfo"), bind={"toSend": b["toSend"]}) is not None and \
        contains(fn, "sendInfo.append(toSend.size)", vars=("toSend", "sendInfo"), bind={"toSend": b["toSend"]}) is not None
    chk.pat("B5-gatherv-geometry", fn, "every member reports the size of the buffer it then sends", ok,
            "the reported count is the size of the very array passed to Gatherv (0 for an empty contribution)", file=U.GRID, func=q)


def run(chk):
    chk.explanation = (
        "SPMD collective matching by static analysis: rank-variation labels (RANK/AXIS/DATA/CLOCK/FS/HASH) are "
        "propagated flow-sensitively through every function that transitively issues a collective; rule B1: a "
        "collective may only be control dependent on rank-uniform conditions unless every alternative of the "
        "governed region issues the same collective sequence (op, communicator, root, reduction op); loops around "
        "collectives need uniform trip conditions; B2/B3: roots and reduction ops uniform and equal on both arms "
        "of rank splits; interprocedurally every parameter that influences such a guard is uniform at all call "
        "sites; B4: the hash-ordered choice in the route search is compensated by a total-order tie-break.")
    chk.assumptions += [
        "arguments documented as 'the same on all ranks' (layout names, foldername, saveStep, constants, file contents on a shared file system) are rank-uniform at the entry points",
        "1 <= p <= n in every distributed dimension (no empty block except on the dedicated plot-only rank)",
        "mpi4py/h5py collective semantics as listed in DESIGN.md section 3",
        "exceptions (raise/assert) abort the whole MPI job and are not modelled as divergent control flow",
    ]
    for u in UNITS:
        chk.mod(u)
    prog = Program(chk.repo, UNITS)
    lay = chk.mod(U.LAYOUT)
    b4_self_positive(chk)
    b5_gatherv_geometry(chk)
    b4ok = b4_route_determinism(chk, lay)
    s, tracers = run_spmd(chk, prog, UNITS, b4_ok_funcs=("_makeConnectionMap",) if b4ok else ())
    ncoll = sum(len(fi.collective_sites) for fi in s.funcs.values())
    nfun = sum(1 for fi in s.funcs.values() if fi.is_collective)
    chk.extra["collective_call_sites"] = ncoll
    chk.extra["collective_functions"] = nfun
    chk.extra["required_uniform_params"] = {f"{fi.rel}:{fi.qual}": fi.required_uniform for fi in s.funcs.values()
                                            if fi.required_uniform}
    chk.floor("B0-collective-site", 12)
    chk.floor("B1-balanced-region", 3)
    chk.floor("B4-unordered-choice", 1)
