#!/bin/bash
# usage: try_patch.sh <patch.diff> <PID> [<PID>...]   - run checks against a scratch copy of /repo with the patch applied
set -u
patch=$(readlink -f "$1"); shift
d=$(mktemp -d /tmp/pgv_try.XXXXXX)
rsync -a --exclude .git --exclude '*.egg-info' /repo/ $d/repo/
( cd $d/repo && git init -q . >/dev/null 2>&1; git apply --whitespace=nowarn "$patch" ) || { echo "PATCH DOES NOT APPLY"; rm -rf $d; exit 3; }
rc=0
for pid in "$@"; do
  PGVERIF_REPO=$d/repo PGVERIF_EVIDENCE_DIR=$d/ev /venv/bin/python -m pgverif check $pid 2>&1 | grep -E "VIOLATION|VIOLATED|ANALYSIS-ERROR|KNOWN|^\[" | cut -c1-400
  r=${PIPESTATUS[0]}; echo "  -> $pid exit=$r"
done
rm -rf $d
