import sys, os; sys.path.insert(0, os.getcwd())
import types, threading, itertools, warnings
import numpy as np

# ---------------------------------------------------------------- fake mpi4py
class _Group:
    def __init__(self, size):
        self.size = size
        self.slots = [None]*size
        self.barrier = threading.Barrier(size, timeout=60)

class FakeComm:
    def __init__(self, group, rank):
        self.group = group
        self.rank = rank
    def Get_size(self):
        return self.group.size
    def Get_rank(self):
        return self.rank
    def Alltoall(self, send, recv):
        g = self.group
        assert send.size == recv.size and send.size % g.size == 0
        g.slots[self.rank] = send
        g.barrier.wait()
        n = send.size//g.size
        for r in range(g.size):
            recv[r*n:(r+1)*n] = g.slots[r][self.rank*n:(self.rank+1)*n]
        g.barrier.wait()

_mpi4py = types.ModuleType('mpi4py')
_MPI = types.ModuleType('mpi4py.MPI')
_MPI.Comm = FakeComm
_MPI.DOUBLE = 'DOUBLE'
_mpi4py.MPI = _MPI
sys.modules['mpi4py'] = _mpi4py
sys.modules['mpi4py.MPI'] = _MPI

import pygyro
assert os.path.abspath(pygyro.__file__).startswith(os.path.abspath(os.getcwd()) + os.sep), pygyro.__file__
from pygyro.model.layout import LayoutHandler
warnings.simplefilter('ignore')

# ---------------------------------------------------------------- simulation
def make_handlers(grid, layouts, shape):
    """One LayoutHandler per simulated rank of the cartesian grid."""
    nd = len(grid)
    coords_list = list(itertools.product(*[range(p) for p in grid]))
    groups = {}
    handlers = {}
    eta = [np.arange(n, dtype=float) for n in shape]
    for c in coords_list:
        comms = []
        for d in range(nd):
            key = (d,) + tuple(x for k, x in enumerate(c) if k != d)
            if key not in groups:
                groups[key] = _Group(grid[d])
            comms.append(FakeComm(groups[key], c[d]))
        handlers[c] = LayoutHandler(comms, list(c), dict(layouts), list(grid), eta)
    return handlers, list(groups.values())

def global_field(shape, dtype):
    G = np.arange(1, int(np.prod(shape))+1).reshape(shape)
    if np.dtype(dtype).kind == 'c':
        return (G + 1j*(G[::-1]*0.5 + 0.25)).astype(dtype)
    if np.dtype(dtype).kind == 'f':
        return (G*1.5 + 0.125).astype(dtype)
    return G.astype(dtype)

def local_block(G, layout):
    T = np.transpose(G, layout.dims_order)
    sl = tuple(slice(s, e) for s, e in zip(layout.starts, layout.ends))
    return T[sl]

def run_transpose(handlers, groups, G, src, dst, with_buf, dtype, pad=0):
    """Runs the transpose on all ranks (threads). Returns list of problems."""
    problems = []
    lock = threading.Lock()
    def work(c, h):
        try:
            n = int(h.bufferSize) + pad
            s = np.full(n, -7, dtype=dtype)
            d = np.full(n, -9, dtype=dtype)
            b = np.full(n, -11, dtype=dtype) if with_buf else None
            ls, ld = h.getLayout(src), h.getLayout(dst)
            s[:ls.size] = local_block(G, ls).ravel()
            keep = s.copy()
            h.transpose(s, d, src, dst, b)
            got = d[:ld.size].reshape(ld.shape)
            exp = local_block(G, ld)
            if not np.array_equal(got, exp):
                with lock:
                    problems.append('rank %s %s->%s buf=%s: wrong values' % (c, src, dst, with_buf))
            if with_buf and not np.array_equal(s[:ls.size], keep[:ls.size]):
                with lock:
                    problems.append('rank %s %s->%s: source modified although buf given' % (c, src, dst))
        except BaseException as e:
            for g in groups:
                g.barrier.abort()
            if not isinstance(e, threading.BrokenBarrierError):
                with lock:
                    problems.append('rank %s %s->%s buf=%s: %s: %s' % (c, src, dst, with_buf, type(e).__name__, e))
    ths = [threading.Thread(target=work, args=(c, h)) for c, h in handlers.items()]
    for t in ths: t.start()
    for t in ths: t.join()
    for g in groups:
        g.barrier.reset()
    return problems

def check_config(grid, layouts, shape, dtypes=(float,), bufs=(False, True), pairs=None):
    handlers, groups = make_handlers(grid, layouts, shape)
    problems = []
    names = list(layouts)
    for dtype in dtypes:
        G = global_field(shape, dtype)
        for src, dst in (pairs or itertools.product(names, names)):
            for wb in bufs:
                problems += run_transpose(handlers, groups, G, src, dst, wb, dtype)
    return problems

# ---------------------------------------------------------------- the check
L4 = {'flux_surface': [0, 3, 1, 2], 'v_parallel': [0, 2, 1, 3], 'poloidal': [3, 2, 1, 0]}
AB = {'A': [0, 1, 2], 'B': [1, 0, 2]}
ABC = {'A': [0, 1, 2], 'B': [1, 0, 2], 'C': [2, 0, 1]}
all_problems = []
for grid, lay, shape in [((2, 2), L4, (4, 6, 5, 8)), ((2, 3), L4, (5, 7, 6, 9)), ((2,), L4, (4, 6, 5, 8)),
                         ((3,), AB, (7, 5, 2)),
                         # process grids whose leading extent is 1
                         ((1, 2), L4, (4, 6, 4, 8)), ((1, 2), L4, (5, 3, 7, 9)), ((1, 3), L4, (4, 5, 7, 8)),
                         ((1, 2), AB, (4, 6, 3)), ((1, 2), AB, (8, 2, 3)), ((1, 3), AB, (9, 3, 2)),
                         ((1, 3), AB, (7, 5, 2)), ((1, 2), ABC, (4, 6, 4)), ((1, 3), ABC, (6, 9, 3))]:
    p = check_config(grid, lay, shape, dtypes=(float, complex, np.int64))
    print(grid, lay, shape, 'ok' if not p else 'FAILED')
    all_problems += p
if all_problems:
    print('PROPERTY VIOLATED (%d problems)' % len(all_problems))
    for q in all_problems[:8]:
        print('  ', q)
    sys.exit(1)
print('property holds')
sys.exit(0)
