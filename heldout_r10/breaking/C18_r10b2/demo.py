import sys, os; sys.path.insert(0, os.getcwd())
import types, tempfile, shutil, json
import numpy as np


def _install_fake_mpi():
    """Single-process stand-in for mpi4py (no MPI library in the sandbox)."""
    class Comm:
        def __init__(self, ndims=1):
            self._ndims = ndims

        def Get_rank(self): return 0
        def Get_size(self): return 1
        def Create_cart(self, dims, periods=None, reorder=False): return Comm(len(dims))
        def Sub(self, remain_dims): return Comm(1)
        def Get_coords(self, rank): return [0]*self._ndims
        def Split(self, color=0, key=0): return self
        def bcast(self, obj, root=0): return obj
        def gather(self, obj, root=0): return [obj]
        def allreduce(self, obj, op=None): return obj
        def reduce(self, obj, op=None, root=0): return obj
        def Barrier(self): pass

        @staticmethod
        def _buf(b):
            return b[0] if isinstance(b, (tuple, list)) else b

        def Alltoall(self, send, recv):
            s, r = self._buf(send), self._buf(recv)
            r.reshape(-1)[:s.size] = s.reshape(-1)

        def Allgather(self, send, recv):
            self.Alltoall(send, recv)

    MPI = types.ModuleType('mpi4py.MPI')
    MPI.Comm = Comm
    MPI.COMM_WORLD = Comm()
    for name in ('DOUBLE', 'MIN', 'MAX', 'LAND', 'SUM'):
        setattr(MPI, name, name)
    pkg = types.ModuleType('mpi4py')
    pkg.MPI = MPI
    sys.modules['mpi4py'] = pkg
    sys.modules['mpi4py.MPI'] = MPI
    return MPI


MPI = _install_fake_mpi()

import h5py
_RealFile = h5py.File


def _serial_File(name, mode='r', driver=None, comm=None, **kw):
    # emulate the 'mpio' driver with the serial one
    if driver == 'mpio':
        driver = None
    return _RealFile(name, mode, driver=driver, **kw)


h5py.File = _serial_File

import pygyro
assert os.path.abspath(pygyro.__file__).startswith(os.path.abspath(os.getcwd()) + os.sep), pygyro.__file__
"""C18 (checkpoint part): writeH5Dataset / loadFromFile / setupFromFile round-trip the field
bit for bit in the recorded layout, the restart picks the largest time or the requested one
and resumes at that time.  Independent reference: the files are read back / written with
plain serial h5py and the global field is compared with numpy."""
from pygyro.initialisation.setups import setupCylindricalGrid, setupFromFile
from pygyro.initialisation.constants import Constants
from pygyro.utilities.savingTools import setupSave

LAYOUTS = {'flux_surface': [0, 3, 1, 2], 'v_parallel': [0, 2, 1, 3], 'poloidal': [3, 2, 1, 0]}
NPTS = [8, 10, 4, 6]
comm = MPI.COMM_WORLD
failures = []


def check(cond, msg):
    if not cond:
        failures.append(msg)


def raw_read(path):
    with _RealFile(path, 'r') as f:
        d = f['/dset']
        return np.array(d), [int(i) for i in d.attrs['Layout']], d.dtype


def raw_write(path, arr, order):
    with _RealFile(path, 'w') as f:
        d = f.create_dataset('dset', arr.shape, dtype=arr.dtype)
        d[...] = arr
        d.attrs.create('Layout', np.array(order), (4,), h5py.h5t.STD_I32BE)


rng = np.random.default_rng(2024)
tmp = tempfile.mkdtemp()
try:
    grid, constants, t0 = setupCylindricalGrid('v_parallel', npts=list(NPTS), comm=comm,
                                               allocateSaveMemory=True)
    check(t0 == 0, "fresh set-up does not start at t=0")
    folder = setupSave(constants, os.path.join(tmp, "simulation_0"), comm=comm)

    # ---- 1. write in every layout, times with different digit counts -----------------
    written = {}
    for time, lay in [(0, 'v_parallel'), (8, 'flux_surface'), (10, 'poloidal'),
                      (96, 'v_parallel'), (100, 'flux_surface'), (1000, 'poloidal')]:
        grid.setLayout(lay)
        grid._f[:] = rng.standard_normal(grid._f.shape)
        snap = grid._f.copy()
        grid.writeH5Dataset(folder, time)
        written[time] = (lay, snap)
        path = os.path.join(folder, "grid_%06d.h5" % time)
        check(os.path.exists(path), "checkpoint %s not written" % path)
        if os.path.exists(path):
            arr, order, dt = raw_read(path)
            check(order == LAYOUTS[lay], "layout attribute %s for %s" % (order, lay))
            check(dt == np.float64 and arr.shape == tuple(NPTS[i] for i in LAYOUTS[lay])
                  and np.array_equal(arr, snap), "file content differs at t=%d" % time)
        check(np.array_equal(grid._f, snap), "writing modified the grid at t=%d" % time)

        # load back into the same grid: latest and by time
        grid._f[:] = -1.0
        grid.loadFromFile(folder)
        check(np.array_equal(grid._f, snap), "loadFromFile(latest) after t=%d" % time)
        grid._f[:] = -2.0
        grid.loadFromFile(folder, time)
        check(np.array_equal(grid._f, snap), "loadFromFile(time=%d)" % time)
        # the loaded data is the grid's data: survives a layout round trip
        other = [l for l in LAYOUTS if l != lay][0]
        grid.setLayout(other)
        grid.setLayout(lay)
        check(np.array_equal(grid._f, snap), "loaded data lost by setLayout round trip, t=%d" % time)

    # ---- 2. restart: latest checkpoint, resumes at its time ----------------------------
    g, c, t = setupFromFile(folder, comm=comm, allocateSaveMemory=True, layout='v_parallel')
    lay, snap = written[1000]
    check(t == 1000 and type(t) is int, "restart resumes at t=%r instead of 1000" % (t,))
    check(g.currentLayout == 'v_parallel', "restart layout %s" % g.currentLayout)
    g.setLayout(lay)
    check(np.array_equal(g._f, snap), "restart(latest) field differs")
    for k in ("npts", "dt", "CN0", "rp", "vMin", "zMax", "splineDegrees"):
        check(getattr(c, k) == getattr(constants, k), "restart constant %s" % k)

    # ---- 3. restart from every requested time (including 0), without layout kwarg ------
    for time, (lay, snap) in written.items():
        g, c, t = setupFromFile(folder, comm=comm, timepoint=time)
        check(t == time, "restart(timepoint=%d) resumes at t=%r" % (time, t))
        check(g.currentLayout == lay, "restart(timepoint=%d) layout %s, recorded %s" %
              (time, g.currentLayout, lay))
        if g.currentLayout != lay:
            g.setLayout(lay)
        check(np.array_equal(g._f, snap), "restart(timepoint=%d) field differs" % time)
        g, c, t = setupFromFile(folder, comm=comm, timepoint=np.int64(time), layout='poloidal')
        check(t == time and g.currentLayout == 'poloidal', "restart(np.int64 timepoint=%d)" % time)
        g.setLayout(lay)
        check(np.array_equal(g._f, snap), "restart(np.int64 timepoint=%d) field differs" % time)

    # ---- 4. folder with externally written checkpoints (independent writer) --------------
    folder2 = setupSave(constants, os.path.join(tmp, "run_b.v2"), comm=comm)
    ext = {}
    for time, lay in [(100, 'poloidal'), (20, 'v_parallel'), (0, 'flux_surface'), (3, 'poloidal')]:
        arr = rng.standard_normal(tuple(NPTS[i] for i in LAYOUTS[lay]))
        raw_write(os.path.join(folder2, "grid_%06d.h5" % time), arr, LAYOUTS[lay])
        raw_write(os.path.join(folder2, "phi_%06d.h5" % (time + 200)), arr, LAYOUTS[lay])
        ext[time] = (lay, arr)
    g, c, t = setupFromFile(folder2, comm=comm)
    check(t == 100 and g.currentLayout == 'poloidal' and np.array_equal(g._f, ext[100][1]),
          "restart(latest) from external files: t=%r" % (t,))
    for time, (lay, arr) in ext.items():
        g, c, t = setupFromFile(folder2, comm=comm, timepoint=time, layout=lay)
        check(t == time and np.array_equal(g._f, arr),
              "restart(timepoint=%d) from external files: t=%r" % (time, t))
    # no checkpoint at all: fresh start at t=0
    folder3 = setupSave(constants, os.path.join(tmp, "empty"), comm=comm)
    g, c, t = setupFromFile(folder3, comm=comm, layout='flux_surface')
    check(t == 0 and g.currentLayout == 'flux_surface', "restart from empty folder")
finally:
    shutil.rmtree(tmp)

if failures:
    print("C18 VIOLATED (%d failures)" % len(failures))
    for m in failures[:10]:
        print("  ", m)
    sys.exit(1)
print("C18 checkpoint part holds")
sys.exit(0)
