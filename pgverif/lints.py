"""Engine G: property-specific lints (DESIGN 4.6)."""
from __future__ import annotations

import ast

from .core import src, parent, AnalysisError

VIEW_METHODS = {"reshape", "transpose", "view", "ravel", "squeeze"}
MUTATING_METHODS = {"pop", "append", "extend", "insert", "remove", "sort", "reverse", "clear", "popitem", "update", "setdefault", "fill"}
COPY_CALLS = {"copy", "flatten", "astype", "array", "zeros_like", "empty_like"}


def shared_state_mutations(fn: ast.FunctionDef, shared_pred):
    """Writes through aliases of shared state.

    `shared_pred(expr_src)` says whether an expression denotes shared, stored state
    (e.g. `self._basis.integrals`).  A local becomes an alias when it is assigned the
    shared expression, a slice/view of it, or another alias, without a copy.  Reported:
    subscript stores / augmented assignments through an alias, and calls that receive an
    alias together with an `overwrite_*=True` flag.  -> list of (node, description)"""
    aliases: dict[str, str] = {}
    out = []

    def root_of(e):
        """shared root an expression is a view of, or None"""
        if isinstance(e, ast.Name):
            return aliases.get(e.id)
        if shared_pred(src(e)):
            return src(e)
        if isinstance(e, ast.Subscript):
            return root_of(e.value)
        if isinstance(e, ast.Attribute) and e.attr in ("T", "real", "imag", "flat"):
            return root_of(e.value)
        if isinstance(e, ast.Call) and isinstance(e.func, ast.Attribute):
            if e.func.attr in VIEW_METHODS:
                return root_of(e.func.value)
            return None
        return None

    def visit(stmts):
        for st in stmts:
            if isinstance(st, ast.Assign):
                r = root_of(st.value)
                for t in st.targets:
                    if isinstance(t, ast.Name):
                        if r is not None:
                            aliases[t.id] = r
                        else:
                            aliases.pop(t.id, None)
                    elif isinstance(t, ast.Subscript):
                        rt = root_of(t.value)
                        if rt is not None:
                            out.append((st, f"store through `{src(t.value)}`, a view of the stored `{rt}`"))
                    elif isinstance(t, ast.Tuple):
                        for el in t.elts:
                            if isinstance(el, ast.Name):
                                aliases.pop(el.id, None)
                            elif isinstance(el, ast.Subscript) and root_of(el.value) is not None:
                                out.append((st, f"store through `{src(el.value)}`, a view of the stored `{root_of(el.value)}`"))
            elif isinstance(st, ast.AugAssign):
                t = st.target
                base = t.value if isinstance(t, ast.Subscript) else t
                rt = root_of(base)
                if rt is not None:
                    out.append((st, f"in-place update of `{src(base)}`, a view of the stored `{rt}`"))
            for c in [n for n in ast.walk(st) if isinstance(n, ast.Call)]:
                if isinstance(c.func, ast.Attribute) and c.func.attr in MUTATING_METHODS:
                    rt = root_of(c.func.value)
                    if rt is not None and not (isinstance(st, ast.For) and c is not getattr(st, "iter", None)) or \
                            (isinstance(c.func, ast.Attribute) and c.func.attr in MUTATING_METHODS and root_of(c.func.value) is not None):
                        rt = root_of(c.func.value)
                        if rt is not None and (c, f"`.{c.func.attr}()` modifies `{src(c.func.value)}`, which is the stored `{rt}`") not in out \
                                and not any(x[0] is c for x in out):
                            out.append((c, f"`.{c.func.attr}()` modifies `{src(c.func.value)}`, which is the stored `{rt}`"))
                flags = [k for k in c.keywords if k.arg and k.arg.startswith("overwrite")
                         and isinstance(k.value, ast.Constant) and k.value.value]
                if flags:
                    for a in list(c.args) + [k.value for k in c.keywords]:
                        rt = root_of(a)
                        if rt is not None:
                            out.append((c, f"`{flags[0].arg}=True` lets `{src(c.func)}` overwrite `{src(a)}`, which is the stored `{rt}`"))
            for f in ("body", "orelse", "finalbody"):
                sub = getattr(st, f, None)
                if sub and isinstance(sub, list) and isinstance(sub[0], ast.stmt):
                    visit(sub)
    visit(fn.body)
    return out


def undefined_self_attrs(mod, cls_name: str, extra_defined=()):
    """G-attr: `self.X` reads in methods of cls with no definition of X in the class (or bases in the same module)"""
    cls = mod.cls(cls_name)
    defined = set(extra_defined)
    classes = [cls]
    for b in cls.bases:
        bn = src(b).split(".")[-1]
        if mod.has(bn):
            classes.append(mod.cls(bn))
    for c in classes:
        for st in c.body:
            if isinstance(st, ast.FunctionDef):
                defined.add(st.name)
            elif isinstance(st, ast.Assign):
                for t in st.targets:
                    if isinstance(t, ast.Name):
                        defined.add(t.id)
        for n in ast.walk(c):
            if isinstance(n, ast.Attribute) and isinstance(n.value, ast.Name) and n.value.id == "self" \
                    and isinstance(n.ctx, ast.Store):
                defined.add(n.attr)
            if isinstance(n, ast.Call) and isinstance(n.func, ast.Name) and n.func.id == "setattr" and n.args \
                    and isinstance(n.args[0], ast.Name) and n.args[0].id == "self":
                defined.add("*")
    reads = []
    for st in cls.body:
        if isinstance(st, ast.FunctionDef):
            for n in ast.walk(st):
                if isinstance(n, ast.Attribute) and isinstance(n.value, ast.Name) and n.value.id == "self" \
                        and isinstance(n.ctx, ast.Load) and n.attr not in defined and "*" not in defined:
                    reads.append((st, n))
    return reads, defined
