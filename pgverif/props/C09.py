"""C09 - spline quadrature weights (narrow claim: the mechanism clause).

weights = A^{-T} I with the *same* factorisation A used for interpolation and I = the stored
basis integrals (transposed solve on both paths); on the periodic path the integrals of the
wrapped copies are folded onto the first p entries (because c[n+i] = c[i]) on a *copy*; the
stored integrals are never mutated; interior integrals of the uniform cubic case are dx and the
auxiliary construction of its boundary integrals is translation invariant.  Given correct
integrals, int S = c.I = (A^{-1}u).I = u.(A^{-T}I).  Correctness of _build_integrals itself
(the two defects named in the property text) is numerical and is NOT claimed.

Every rule reads the method as the straight-line code it is on a periodic resp. clamped
(uniform-cubic resp. general) space: branches on the kind of space are resolved, locals that only
rename an attribute and private helper methods are written back (C07.Specialiser), so that
guard clauses, if/else, extracted helpers and renamed locals all look alike.  A rule HOLDS when
the mechanism is recognised, is VIOLATED only for a recognised wrong form, and is UNDECIDED
otherwise.
"""
from __future__ import annotations

import ast

import sympy as sp

from ..core import src, contains, find
from .. import units as U
from .. import lints
from ..npsym import NpSym
from ..symx import alg_equal, Undecided
from .C07 import Specialiser, walk_guarded, own_exprs, _int_attr, _polarity

QF = "SplineInterpolator1D.get_quadrature_coefficients"
INTEGRALS = ("self._basis.integrals", "self._basis._integrals")
N, P = sp.Symbol("n", integer=True, positive=True), sp.Symbol("p", integer=True, positive=True)


def _flat(body):
    """all statements of a specialised body, in order (compound statements included, followed by their parts)"""
    return [st for st, _g in walk_guarded(body)]


def _def_of(name, body, before=None):
    """last assignment `name = ...` / `name, x = ...` of a specialised body (before a statement) -> (statement, value or (value, index))"""
    got = None
    for st in _flat(body):
        if st is before:
            break
        if isinstance(st, ast.Assign) and len(st.targets) == 1:
            t = st.targets[0]
            if isinstance(t, ast.Name) and t.id == name:
                got = (st, st.value, None)
            elif isinstance(t, ast.Tuple):
                for k, el in enumerate(t.elts):
                    if isinstance(el, ast.Name) and el.id == name:
                        got = (st, st.value, k)
    return got


def _interp_table(periodic):
    t = {}
    for a in ("nbasis", "_nbasis"):
        t[f"self._basis.{a}"] = N
    for a in ("degree", "_degree"):
        t[f"self._basis.{a}"] = P
    for a in ("ncells", "_ncells"):
        t[f"self._basis.{a}"] = N if periodic else N - P
    return t


def _slice_bounds(sub, table, length):
    """[lo, hi) of `X[a:b]` as sympy values; None when it is no plain slice"""
    if not isinstance(sub, ast.Subscript) or not isinstance(sub.slice, ast.Slice) or sub.slice.step is not None:
        return None
    lo = sp.Integer(0) if sub.slice.lower is None else _int_attr(sub.slice.lower, table)
    hi = length if sub.slice.upper is None else _int_attr(sub.slice.upper, table)
    if lo is None or hi is None:
        return None
    # a negative bound counts from the end
    lo = lo + length if lo.is_negative else lo
    hi = hi + length if hi.is_negative else hi
    return lo, hi


def _same(a, b):
    return sp.expand(a - b) == 0


def _copy_or_view(e):
    """(inner expression, True if `e` is a fresh array / False if it may share memory / None unknown)"""
    if isinstance(e, ast.Call):
        f = src(e.func)
        if isinstance(e.func, ast.Attribute) and e.func.attr in ("copy", "astype", "flatten") and not e.args:
            return e.func.value, True
        if f in ("np.copy", "np.array", "numpy.array", "numpy.copy") and e.args and not any(k.arg == "copy" for k in e.keywords):
            return e.args[0], True
        if f in ("np.asarray", "np.asanyarray", "np.ascontiguousarray", "np.atleast_1d", "np.require") and e.args:
            return e.args[0], False
        if isinstance(e.func, ast.Attribute) and e.func.attr in ("view", "ravel", "reshape", "squeeze"):
            return e.func.value, False
        return e, None
    if isinstance(e, ast.BinOp):
        return e, True
    return e, False


# --------------------------------------------------------------------------
# abstract reading of the periodic path: every 1-D array is a sum of pieces "entries [t, t+len) hold source[s + k]"
# --------------------------------------------------------------------------
_Q_, _M_ = sp.Symbol("q_", integer=True, nonnegative=True), sp.Symbol("m_", integer=True, nonnegative=True)


def _nonneg(e):
    """e >= 0 for every degree p >= 1 and number of basis functions n >= p (a periodic space has more cells than its degree - 1)?"""
    e = sp.expand(sp.sympify(e).subs({N: 1 + _Q_ + _M_, P: 1 + _Q_}))
    try:
        poly = sp.Poly(e, _Q_, _M_)
    except sp.PolynomialError:
        return None
    if poly.total_degree() > 1:
        return None
    cs = [poly.coeff_monomial(_Q_), poly.coeff_monomial(_M_), poly.coeff_monomial(1)]
    if all(c >= 0 for c in cs):
        return True
    if all(c <= 0 for c in cs) and any(c < 0 for c in cs):
        return False
    return None


def _le(a, b):
    return _nonneg(b - a) is True


class Unk(Exception):
    pass


class _Vec:
    """length, pieces [(t_lo, t_hi, source, s_lo, reversed?)], fresh = owns its memory (not a view of the stored integrals)"""

    def __init__(self, length, pieces, fresh):
        self.length, self.pieces, self.fresh = length, list(pieces), fresh


BS_INTEGRALS = ("self._integrals", "self.integrals")


def _bsplines_table(periodic):
    t = {}
    for a in ("nbasis", "_nbasis"):
        t[f"self.{a}"] = N
    for a in ("degree", "_degree"):
        t[f"self.{a}"] = P
    for a in ("ncells", "_ncells"):
        t[f"self.{a}"] = N if periodic else N - P
    return t


class VecReader:
    def __init__(self, table, integrals=INTEGRALS, periodic=True, smod=None, depth=0):
        self.table = dict(table)
        self.integrals, self.periodic, self.smod, self.depth = tuple(integrals), periodic, smod, depth
        self.ilen = N + P if periodic else N          # the stored integrals: one per unwrapped basis function (ncells + degree)
        self.env = {}
        self.solves = []          # (call node, rhs _Vec, trans node or None)
        self.ret = None
        self.ret_node = None
        self.shared_writes = []   # statements that write through a view of the stored integrals
        self.buffered = []        # (statement, why): in-place fancy-index updates that lose repeated indices

    # -- scalars
    def scalar(self, e):
        v = _int_attr(e, self.table)
        if v is not None:
            return v
        if isinstance(e, ast.Call) and src(e.func) == "len" and len(e.args) == 1:
            return self.vec(e.args[0]).length
        if isinstance(e, ast.Attribute) and e.attr == "size":
            return self.vec(e.value).length
        if isinstance(e, ast.Subscript) and isinstance(e.value, ast.Attribute) and e.value.attr == "shape" and src(e.slice) == "0":
            return self.vec(e.value.value).length
        if isinstance(e, ast.BinOp) and isinstance(e.op, (ast.Add, ast.Sub, ast.Mult)):
            a, b = self.scalar(e.left), self.scalar(e.right)
            return a + b if isinstance(e.op, ast.Add) else a - b if isinstance(e.op, ast.Sub) else a * b
        raise Unk(f"`{src(e)[:50]}` is not an integer combination of nbasis / degree / ncells")

    def bounds(self, sl, length):
        lo = sp.Integer(0) if sl.lower is None else self.scalar(sl.lower)
        hi = length if sl.upper is None else self.scalar(sl.upper)
        lo = lo + length if lo.is_negative else lo
        hi = hi + length if hi.is_negative else hi
        if _le(length, hi) and not _same(length, hi):
            hi = length           # numpy clips the end of a slice
        if not (_le(0, lo) and _le(lo, hi) and _le(hi, length)):
            raise Unk(f"cannot order the slice bounds {lo}, {hi} within the length {length}")
        return lo, hi

    # -- vectors
    def restrict(self, v, lo, hi):
        out = []
        for tlo, thi, s_, slo, rev in v.pieces:
            a = lo if _le(tlo, lo) else tlo if _le(lo, tlo) else None
            b = hi if _le(hi, thi) else thi if _le(thi, hi) else None
            if a is None or b is None:
                raise Unk(f"cannot order piece [{tlo}, {thi}) against the slice [{lo}, {hi})")
            if _le(b, a):
                continue
            if rev:
                raise Unk("slice of a reversed piece")
            out.append((a - lo, b - lo, s_, slo + (a - tlo), rev))
        return out

    def vec(self, e):
        s_ = src(e)
        if s_ in self.integrals:
            return _Vec(self.ilen, [(sp.Integer(0), self.ilen, "I", sp.Integer(0), False)], False)
        if isinstance(e, ast.Attribute) and src(e.value) in ("self._basis", "self.basis") and self.smod is not None and self.depth < 2:
            got = self.basis_property(e.attr)
            if got is not None:
                return got
        if isinstance(e, ast.Name):
            v = self.env.get(e.id)
            if isinstance(v, _Vec):
                return v
            raise Unk(f"`{e.id}` is not an array the analysis follows")
        if isinstance(e, ast.Subscript) and isinstance(e.slice, ast.Slice):
            base = self.vec(e.value)
            step = e.slice.step
            if step is not None and not (isinstance(step, ast.UnaryOp) and isinstance(step.op, ast.USub) and src(step.operand) == "1") \
                    and src(step) != "1":
                raise Unk(f"strided slice `{s_[:40]}`")
            if step is not None and src(step) != "1":
                if e.slice.lower is not None or e.slice.upper is not None:
                    raise Unk(f"reversed slice with bounds `{s_[:40]}`")
                return _Vec(base.length, [(base.length - thi, base.length - tlo, sc, slo, not rev) for tlo, thi, sc, slo, rev in base.pieces], False)
            lo, hi = self.bounds(e.slice, base.length)
            return _Vec(hi - lo, self.restrict(base, lo, hi), False)
        if isinstance(e, ast.Call):
            f = src(e.func)
            if isinstance(e.func, ast.Attribute) and e.func.attr in ("copy", "astype", "flatten") and (e.func.attr == "astype" or not e.args):
                b = self.vec(e.func.value)
                return _Vec(b.length, b.pieces, True)
            if f in ("np.copy", "np.array", "numpy.array", "numpy.copy") and e.args:
                b = self.vec(e.args[0])
                return _Vec(b.length, b.pieces, True)
            if f in ("np.asarray", "np.asanyarray", "np.ascontiguousarray", "np.atleast_1d") and e.args:
                return self.vec(e.args[0])
            if f in ("np.zeros", "np.empty") and e.args:
                a = e.args[0]
                if isinstance(a, (ast.Tuple, ast.List)) and len(a.elts) == 1:
                    a = a.elts[0]
                return _Vec(self.scalar(a), [], True)
            if f in ("np.zeros_like", "np.empty_like") and e.args:
                return _Vec(self.vec(e.args[0]).length, [], True)
            if f == "np.concatenate" and e.args and isinstance(e.args[0], (ast.Tuple, ast.List)):
                off, pieces = sp.Integer(0), []
                for part in e.args[0].elts:
                    b = self.vec(part)
                    pieces += [(tlo + off, thi + off, sc, slo, rev) for tlo, thi, sc, slo, rev in b.pieces]
                    off = off + b.length
                return _Vec(off, pieces, True)
            if f == "np.pad" and len(e.args) == 2 and isinstance(e.args[1], (ast.Tuple, ast.List)) and len(e.args[1].elts) == 2 and \
                    not [k for k in e.keywords if k.arg not in ("mode", "constant_values")]:
                b = self.vec(e.args[0])
                before, after = self.scalar(e.args[1].elts[0]), self.scalar(e.args[1].elts[1])
                return _Vec(b.length + before + after, [(tlo + before, thi + before, sc, slo, rev) for tlo, thi, sc, slo, rev in b.pieces], True)
            if f == "self._splu.solve" and e.args:
                rhs = self.vec(e.args[0])
                tr = [k.value for k in e.keywords if k.arg == "trans"] or list(e.args[1:2])
                self.solves.append((e, rhs, tr[0] if tr else None))
                return _Vec(rhs.length, [(sp.Integer(0), rhs.length, ("solve", len(self.solves) - 1), sp.Integer(0), False)], True)
            raise Unk(f"call `{s_[:50]}`")
        if isinstance(e, ast.BinOp) and isinstance(e.op, ast.Add):
            a, b = self.vec(e.left), self.vec(e.right)
            if not _same(a.length, b.length):
                raise Unk(f"`{s_[:50]}` adds arrays of {a.length} and {b.length} entries")
            return _Vec(a.length, a.pieces + b.pieces, True)
        raise Unk(f"`{s_[:50]}` is not an array expression the analysis follows")

    def basis_property(self, attr):
        """a property of the basis that returns an array built from its stored integrals: its (specialised) body is read by the same
        rules, `self` being the basis"""
        try:
            m = self.smod.methods("BSplines").get(attr)
        except Exception:
            m = None
        if m is None or not any(src(d) == "property" for d in m.decorator_list):
            return None
        try:
            body = Specialiser(self.smod, "BSplines", facts={"self.periodic": self.periodic, "self._periodic": self.periodic}).run(attr)
        except Exception:
            return None
        if not any(isinstance(x, ast.Attribute) and src(x) in BS_INTEGRALS for st in body for x in ast.walk(st)):
            return None
        sub = VecReader(_bsplines_table(self.periodic), integrals=BS_INTEGRALS, periodic=self.periodic, smod=None, depth=self.depth + 1)
        sub.run(body)
        if sub.ret is None:
            raise Unk(f"property `{attr}` of the basis returns nothing the analysis follows")
        self.shared_writes += sub.shared_writes
        self.buffered += sub.buffered
        return sub.ret

    def tracked(self, st):
        for x in ast.walk(st):
            if isinstance(x, ast.Name) and isinstance(self.env.get(x.id), _Vec):
                return True
            if isinstance(x, ast.Attribute) and src(x) in self.integrals:
                return True
            if isinstance(x, ast.Call) and src(x.func) == "self._splu.solve":
                return True
        return False

    def target(self, t, st):
        """(vector object, lo, hi) of a store target `X`, `X[:]`, `X[a:b]`"""
        if isinstance(t, ast.Name):
            v = self.vec(t)
            return v, sp.Integer(0), v.length
        if isinstance(t, ast.Subscript) and isinstance(t.slice, ast.Slice) and t.slice.step is None:
            v = self.vec(t.value)
            owner = v
            if isinstance(t.value, ast.Subscript):
                raise Unk(f"store through a slice of a slice `{src(t)[:40]}`")
            lo, hi = self.bounds(t.slice, v.length)
            return owner, lo, hi
        raise Unk(f"store target `{src(t)[:40]}`")

    def add_into(self, st, owner, lo, hi, val, replace=False):
        if not _same(hi - lo, val.length):
            raise Unk(f"`{src(st)[:60]}`: {val.length} values for {hi - lo} places")
        if not owner.fresh:
            self.shared_writes.append(st)
        if replace:
            kept = []
            for tlo, thi, sc, slo, rev in owner.pieces:
                if _le(thi, lo) or _le(hi, tlo):
                    kept.append((tlo, thi, sc, slo, rev))
                    continue
                if rev:
                    raise Unk("store over a reversed piece")
                if _le(tlo, lo) and not _same(tlo, lo):
                    kept.append((tlo, lo, sc, slo, rev))
                elif not _le(lo, tlo):
                    raise Unk(f"cannot order {tlo} and {lo}")
                if _le(hi, thi) and not _same(hi, thi):
                    kept.append((hi, thi, sc, slo + (hi - tlo), rev))
                elif not _le(thi, hi):
                    raise Unk(f"cannot order {thi} and {hi}")
            owner.pieces = kept
        owner.pieces = owner.pieces + [(tlo + lo, thi + lo, sc, slo, rev) for tlo, thi, sc, slo, rev in val.pieces]

    def wrapped_index(self, e):
        """`np.arange(L) % m` -> (L, m); `np.arange(L)` -> (L, None)"""
        mod = None
        if isinstance(e, ast.BinOp) and isinstance(e.op, ast.Mod):
            mod, e = self.scalar(e.right), e.left
        elif isinstance(e, ast.Call) and src(e.func) in ("np.mod", "np.remainder") and len(e.args) == 2:
            mod, e = self.scalar(e.args[1]), e.args[0]
        if isinstance(e, ast.Call) and src(e.func) in ("np.arange", "range") and len(e.args) == 1:
            return self.scalar(e.args[0]), mod
        return None

    def scatter_add(self, st, owner, idx, val):
        L, m = idx
        if not _same(L, val.length):
            raise Unk(f"`{src(st)[:60]}`: {L} indices for {val.length} values")
        if m is None:
            return self.add_into(st, owner, sp.Integer(0), L, val)
        if not _same(m, owner.length):
            raise Unk(f"`{src(st)[:60]}`: indices modulo {m} into {owner.length} entries")
        if _le(L, m):
            return self.add_into(st, owner, sp.Integer(0), L, val)
        if not _le(L, 2 * m):
            raise Unk(f"`{src(st)[:60]}`: cannot bound {L} by twice {m}")
        first = _Vec(m, self.restrict(val, sp.Integer(0), m), True)
        second = _Vec(L - m, self.restrict(val, m, L), True)
        self.add_into(st, owner, sp.Integer(0), m, first)
        self.add_into(st, owner, sp.Integer(0), L - m, second)

    def run(self, stmts):
        for st in stmts:
            if self.ret is not None:
                break
            self.stmt(st)

    def stmt(self, st):
        if isinstance(st, (ast.Assert, ast.Pass)) or (isinstance(st, ast.Expr) and isinstance(st.value, ast.Constant)):
            return
        if isinstance(st, ast.Return):
            self.ret_node = st
            if st.value is None:
                raise Unk("returns nothing")
            self.ret = self.vec(st.value)
            return
        if isinstance(st, ast.Assign) and len(st.targets) == 1 and isinstance(st.targets[0], ast.Name):
            name = st.targets[0].id
            try:
                self.table[name] = self.scalar(st.value)
                self.env.pop(name, None)
                return
            except Unk:
                self.table.pop(name, None)
            try:
                self.env[name] = self.vec(st.value)
            except Unk:
                self.env.pop(name, None)
                if self.tracked(st.value):
                    raise
            return
        if isinstance(st, ast.Assign) and len(st.targets) == 1 and isinstance(st.targets[0], ast.Subscript) and \
                isinstance(st.targets[0].value, ast.Name) and isinstance(self.env.get(st.targets[0].value.id), _Vec):
            if isinstance(st.value, ast.Constant) and st.value.value == 0:
                owner, lo, hi = self.target(st.targets[0], st)
                return self.add_into(st, owner, lo, hi, _Vec(hi - lo, [], True), replace=True)
            owner, lo, hi = self.target(st.targets[0], st)
            val = self.vec(st.value)
            val = _Vec(val.length, list(val.pieces), True)
            return self.add_into(st, owner, lo, hi, val, replace=True)
        if isinstance(st, ast.AugAssign) and isinstance(st.op, ast.Add) and self.tracked(st.target):
            t = st.target
            if isinstance(t, ast.Subscript) and not isinstance(t.slice, ast.Slice):
                idx = self.wrapped_index(t.slice)
                if idx is not None and idx[1] is not None and not _le(idx[0], idx[1]):
                    self.buffered.append((st, f"`{src(st)[:80]}` adds through an index array in which positions repeat ({idx[0]} indices modulo "
                                              f"{idx[1]}): the in-place operation is buffered, each entry receives only the last of its addends"))
                    owner = self.vec(t.value)
                    return self.scatter_add(st, owner, (idx[0], None) if False else idx, self.vec(st.value))
                raise Unk(f"`{src(st)[:60]}`")
            owner, lo, hi = self.target(t, st)
            return self.add_into(st, owner, lo, hi, self.vec(st.value))
        if isinstance(st, ast.Expr) and isinstance(st.value, ast.Call) and src(st.value.func) in ("np.add", "numpy.add") and len(st.value.args) == 2 \
                and [k.arg for k in st.value.keywords] == ["out"] and self.tracked(st):
            # np.add(a, b, out=a) is `a += b`; np.add(a, b, out=t) is `t[...] = a + b`
            a, b, out = st.value.args[0], st.value.args[1], st.value.keywords[0].value
            for x, y in ((a, b), (b, a)):
                if src(x) == src(out):
                    owner, lo, hi = self.target(out, st)
                    return self.add_into(st, owner, lo, hi, self.vec(y))
            owner, lo, hi = self.target(out, st)
            val = self.vec(ast.BinOp(left=a, op=ast.Add(), right=b))
            return self.add_into(st, owner, lo, hi, _Vec(val.length, list(val.pieces), True), replace=True)
        if isinstance(st, ast.Expr) and isinstance(st.value, ast.Call) and src(st.value.func) in ("np.add.at", "numpy.add.at") and len(st.value.args) == 3:
            owner = self.vec(st.value.args[0])
            idx = self.wrapped_index(st.value.args[1])
            if idx is None:
                raise Unk(f"index of `{src(st)[:60]}`")
            return self.scatter_add(st, owner, idx, self.vec(st.value.args[2]))
        if isinstance(st, (ast.If, ast.For, ast.While, ast.With, ast.Try)):
            if self.tracked(st):
                raise Unk(f"`{src(st)[:50]}...`: control flow on the periodic path is not followed")
            return
        if self.tracked(st):
            raise Unk(f"`{src(st)[:60]}` is not followed")


def _coverage(v, lo, hi):
    """multiset of (source, offset, reversed) of the pieces covering [lo, hi); None when a piece overlaps it partially"""
    out = []
    if _same(lo, hi):
        return out
    for tlo, thi, sc, slo, rev in v.pieces:
        if _le(thi, lo) or _le(hi, tlo):
            continue
        if _le(tlo, lo) and _le(hi, thi):
            out.append((sc, sp.expand(slo - tlo), rev))
        else:
            return None
    return sorted(out, key=str)


def _interp_transposed(imod, periodic):
    """does compute_interpolant, read on a periodic / clamped space, use its factorisation transposed?  True / False / None (not followed:
    no single solve with `self._splu` resp. `self._solveFunc`, a `trans` that is not a literal)"""
    try:
        cb = Specialiser(imod, "SplineInterpolator1D", facts={"self._basis.periodic": periodic, "self._basis._periodic": periodic}).run("compute_interpolant")
    except Exception:
        return None
    want = "self._splu.solve" if periodic else "self._solveFunc"
    calls = [c for st in _flat(cb) for c in own_exprs(st) if isinstance(c, ast.Call) and src(c.func) == want]
    if len(calls) != 1:
        return None
    c = calls[0]
    tr = [k.value for k in c.keywords if k.arg == "trans"] or list(c.args[1:2] if periodic else c.args[5:6])
    if not tr:
        return False
    if not isinstance(tr[0], ast.Constant):
        return None
    if tr[0].value in ("N", 0, False):
        return False
    if tr[0].value in ("T", "H", 1, 2, True):
        return True
    return None


def weights_mechanism(chk):
    imod = chk.mod(U.INTERP)
    fn = chk.func(U.INTERP, QF)
    bodies = {}
    for per in (True, False):
        sp_ = Specialiser(imod, "SplineInterpolator1D", facts={"self._basis.periodic": per, "self._basis._periodic": per})
        bodies[per] = sp_.run("get_quadrature_coefficients")
    # ---- periodic: the value returned is splu.solve(<folded integrals>, trans='T')
    body = bodies[True]
    rets = [st for st in _flat(body) if isinstance(st, ast.Return)]
    smod = chk.mod(U.SPLINES)
    R = VecReader(_interp_table(True), smod=smod)
    why = None
    try:
        R.run(body)
    except Unk as e:
        why = str(e)
    okp, badp, solve = None, None, None
    if why is None and R.ret is not None:
        cov = _coverage(R.ret, sp.Integer(0), N)
        if _same(R.ret.length, N) and cov is not None and len(cov) == 1 and isinstance(cov[0][0], tuple) and _same(cov[0][1], 0) and not cov[0][2]:
            solve = R.solves[cov[0][0][1]]
            call, _rhs, tr = solve
            # ASSUMPTION: the LU kept as `self._splu` is that of the matrix A with A c = u.  What is actually required is RELATIONAL:
            # the interpolation solves with the factorisation one way, the quadrature must solve with it the other way.  `interp_T`
            # says which way compute_interpolant uses it on a periodic space (None: not followed).
            interp_T = _interp_transposed(imod, True)
            quad_T = True if (tr is not None and isinstance(tr, ast.Constant) and tr.value in ("T", "H")) else \
                False if (tr is None or (isinstance(tr, ast.Constant) and tr.value == "N")) else None
            if interp_T is None or quad_T is None:
                okp, why = None, "which of the two systems (A or its transpose) the interpolation and the quadrature solve is not followed"
            elif quad_T != interp_T:
                okp = True
            else:
                okp = False
                badp = (f"the weights returned are the result of `{src(call)[:70]}`, which solves the SAME system as the interpolation does "
                        "(A w = I with the interpolation matrix itself), "
                        "not with its transpose: the result is not the vector of quadrature weights (u.w differs from the integral of the "
                        "interpolant as soon as the collocation matrix is not symmetric, e.g. on a non-uniform periodic grid)")
        elif not R.solves:
            why = "the value returned is not the result of a solve with the interpolation LU"
        else:
            why = "the value returned is not the n-vector produced by one solve"
    elif why is None:
        why = "no value returned on the periodic path"
    chk.ob("Q1-transposed-solve", (solve[0] if solve else None) or (rets[0] if rets else fn), "periodic: splu.solve(folded integrals, trans='T')", okp,
           "the periodic weights solve, with the interpolation LU, the transpose of the system the interpolation solves" if okp else
           (badp or f"periodic path not followed: {why}"), file=U.INTERP, func=QF)
    # ---- periodic: the right-hand side is I[:n] (a copy) with I[n:] added onto its first p entries
    periodic_fold(chk, fn, R, solve, why)
    # ---- clamped: the value returned is solveFunc(bmat, l, u, integrals, ipiv, trans=True)
    body = bodies[False]
    rets = [st for st in _flat(body) if isinstance(st, ast.Return)]
    okc, badc = False, None
    call = None
    if len(rets) == 1 and rets[0].value is not None:
        v = rets[0].value
        if isinstance(v, ast.Name):
            d = _def_of(v.id, body, rets[0])
            if d is not None and d[2] in (None, 0):
                v = d[1]
        elif isinstance(v, ast.Subscript) and isinstance(v.slice, ast.Constant) and v.slice.value == 0:
            v = v.value
        if isinstance(v, ast.Call) and src(v.func) == "self._solveFunc":
            call = v
    if call is not None:
        names = ["ab", "kl", "ku", "b", "ipiv"]
        got = {n_: a for n_, a in zip(names, call.args)}
        for k in call.keywords:
            if k.arg in names:
                got[k.arg] = k.value
        tr = [k.value for k in call.keywords if k.arg == "trans"] or list(call.args[5:6])
        want = {"ab": "self._bmat", "kl": "self._l", "ku": "self._u", "ipiv": "self._ipiv"}
        wrong = [f"`{k}` receives `{src(got[k])}` instead of `{w}`" for k, w in want.items() if k in got and src(got[k]) != w
                 and src(got[k]) in want.values()]
        unknown = [k for k, w in want.items() if k not in got or (src(got[k]) != w and src(got[k]) not in want.values())]
        b = got.get("b")
        for _k in range(3):
            if isinstance(b, ast.Name):
                d = _def_of(b.id, body, rets[0])
                stores = [x for x in _flat(body) if isinstance(x, (ast.Assign, ast.AugAssign)) and
                          any(isinstance(t, ast.Subscript) and src(t.value) == b.id for t in (x.targets if isinstance(x, ast.Assign) else [x.target]))]
                if d is not None and d[2] is None and not stores:
                    b = d[1]
                    continue
            break
        b_in, fresh = _copy_or_view(b) if b is not None else (None, None)
        b_ok = b is not None and (src(b) in INTEGRALS or src(b_in) in INTEGRALS)
        if b is not None and not b_ok:
            # the right-hand side as an array expression over the stored integrals (a property of the basis, a copy, a full slice):
            # on a clamped space it must hold integral k at entry k, for all nbasis entries
            try:
                Rc = VecReader(_interp_table(False), periodic=False, smod=smod)
                before = []
                for x in body:
                    if any(y is call for y in ast.walk(x)):
                        break
                    before.append(x)
                Rc.run(before)
                vb = Rc.vec(got["b"])
                cov = _coverage(vb, sp.Integer(0), N)
                b_ok = _same(vb.length, N) and cov == [("I", sp.Integer(0), False)] and not Rc.shared_writes and not Rc.buffered
            except Unk:
                b_ok = False
        # relational (see the periodic path): the quadrature must use the factors the other way than compute_interpolant does
        interp_Tc = _interp_transposed(imod, False)
        quad_Tc = False if (not tr or (isinstance(tr[0], ast.Constant) and tr[0].value in (False, 0, "N"))) else \
            True if (isinstance(tr[0], ast.Constant) and tr[0].value in (True, 1, 2, "T", "H")) else None
        if wrong:
            badc = "; ".join(wrong) + ": the banded solve is given the factors of the interpolation matrix in the wrong places"
        elif interp_Tc is None or quad_Tc is None:
            badc = None
        elif quad_Tc == interp_Tc:
            badc = (f"`{src(call)[:80]}` solves the same system as the interpolation (A w = I), not the transposed one: the result is not the "
                    "vector of quadrature weights")
        elif not unknown and b_ok:
            okc = True
    chk.pat("Q1-transposed-solve", rets[0] if rets else fn, "clamped: solve(A, integrals, trans=True)", okc,
            "the weights solve the transposed collocation system with the interpolation factors and the stored basis integrals", badc,
            file=U.INTERP, func=QF)
    # ---- the stored integrals are not written through (on either path, helpers included)
    allm = []
    allu = []
    for per, body in bodies.items():
        shell = ast.FunctionDef(name="get_quadrature_coefficients", args=fn.args, body=body or [ast.Pass()], decorator_list=[], lineno=fn.lineno)
        res_ = lints.shared_state_mutations(shell, lambda s: s.endswith(".integrals") or s.endswith("._integrals"))
        for node, d in res_:
            if d not in [x[1] for x in allm]:
                allm.append((node, d))
        for u in (getattr(res_, "undecided", []) or []):
            if u[1] not in [x[1] for x in allu]:
                allu.append(u)
    muts = allm
    verdict_g2 = not muts
    if not muts and allu:
        # possible but unestablished writes (view or copy / alias liveness not known to the engine): UNDECIDED, same rule id
        verdict_g2 = None
    if muts:
        # ASSUMPTION of VIOLATED: `basis.integrals` hands out the array the basis keeps (not a copy made on every access).  Read off the
        # property (or plain attribute) of BSplines; a property that copies, or whose body is not followed, makes the write harmless or
        # unknown: UNDECIDED.
        hands_out = False
        try:
            prop = chk.mod(U.SPLINES).methods("BSplines").get("integrals")
            if prop is not None:
                rets_ = [r.value for r in ast.walk(prop) if isinstance(r, ast.Return)]
                hands_out = bool(rets_) and all(r is not None and isinstance(r, ast.Attribute) and src(r.value) == "self" for r in rets_)
        except Exception:
            hands_out = False
        if not hands_out and not all("._integrals" in d for _n, d in muts):
            verdict_g2 = None
    chk.ob("G2-no-shared-mutation", muts[0][0] if muts else fn, "get_quadrature_coefficients vs basis.integrals", verdict_g2,
           ("the stored basis integrals are only read" if not allu else
            "; ".join(f"{u[1]} ({u[2]})" for u in allu[:3]) + " - possible write through the stored basis integrals, not established")
           if not muts else "; ".join(d for _, d in muts) +
           " - a second request (or another interpolator on the same basis) gets wrong weights", file=U.INTERP, func=QF)
    # ---- the factorisation used here is the one compute_interpolant uses (same attributes)
    found = {}
    for per in (True, False):
        sp_ = Specialiser(imod, "SplineInterpolator1D", facts={"self._basis.periodic": per, "self._basis._periodic": per})
        cb = sp_.run("compute_interpolant")
        chk.functions.add(f"{U.INTERP}:SplineInterpolator1D.compute_interpolant")
        calls = [c for st in _flat(cb) for c in own_exprs(st) if isinstance(c, ast.Call) and
                 src(c.func) == ("self._splu.solve" if per else "self._solveFunc")]
        found[per] = calls
    oks = bool(found[True]) and bool(found[False])
    if oks:
        c = found[False][0]
        oks = [src(a) for a in c.args[:3]] == ["self._bmat", "self._l", "self._u"] or None
    chk.pat("Q1-same-factorisation", fn, "interpolation and quadrature share (bmat, l, u, ipiv) / splu", oks,
            "interpolation solves A c = u and quadrature A^T w = I with one factorisation", file=U.INTERP, func=QF)
    pr = chk.func(U.SPLINES, "BSplines.integrals")
    rets = [r.value for r in ast.walk(pr) if isinstance(r, ast.Return)]
    okr = bool(rets) and all(r is not None and src(_copy_or_view(r)[0] if isinstance(r, ast.Call) else r) == "self._integrals" for r in rets)
    chk.pat("Q1-same-factorisation", pr, "BSplines.integrals returns the stored integrals", okr, "", file=U.SPLINES, func="BSplines.integrals",
            nontrivial=False)


def periodic_fold(chk, fn, R, solve, why):
    """the right-hand side of the periodic solve: entry k holds I[k], plus I[n+k] for k < p, in memory of its own"""
    ok, bad, node = None, None, fn
    if solve is None and R.solves:
        solve = R.solves[-1]
    if solve is not None:
        call, rhs, _tr = solve
        node = call
        first, rest = _coverage(rhs, sp.Integer(0), P), _coverage(rhs, P, N)
        want_first = sorted([("I", sp.Integer(0), False), ("I", sp.expand(N), False)], key=str)
        want_rest = [("I", sp.Integer(0), False)]
        pieces = [(tlo, thi, sc, slo, rev) for tlo, thi, sc, slo, rev in rhs.pieces if not _same(tlo, thi)]
        if R.buffered:
            ok, bad, node = False, R.buffered[0][1] + " - the integrals of the wrapped copies are lost", R.buffered[0][0]
        elif _same(rhs.length, N) and first == want_first and (rest == want_rest or _same(P, N)):
            if R.shared_writes:
                ok, node = False, R.shared_writes[0]
                bad = (f"`{src(R.shared_writes[0])[:80]}` writes through a view of the integrals stored in the basis (no copy was taken): "
                       "the first call is right, every later request (any interpolator on this basis) adds the wrapped integrals again")
            else:
                ok = True
        elif any(sc != "I" for _a, _b, sc, _c, _d in pieces):
            ok = None
        else:
            base = [(tlo, thi, slo) for tlo, thi, sc, slo, rev in pieces if _same(slo, tlo) and not rev]
            base.sort(key=lambda b_: 0 if (_same(b_[0], 0) and _same(b_[1], N)) else 1)
            base = base[:1]
            extra = [(tlo, thi, slo, rev) for tlo, thi, sc, slo, rev in pieces if not (base and _same(tlo, base[0][0]) and _same(thi, base[0][1])
                                                                                        and _same(slo, base[0][2]) and not rev)]
            if not _same(rhs.length, N) or not base or not (_same(base[0][0], 0) and _same(base[0][1], N)):
                lo, hi = (base[0][2], base[0][2] + base[0][1] - base[0][0]) if base else (sp.Integer(0), sp.Integer(0))
                ok = False
                bad = (f"the right-hand side has {rhs.length} entries and starts from the integrals [{lo}, {hi}) instead of the n = nbasis "
                       "integrals [0, n): the periodic system has n unknowns, one per distinct basis function")
            elif not extra:
                ok = False
                bad = ("the integrals of the p wrapped copies (entries n..n+p-1) are never added to the first p entries: because "
                       "c[n+i] = c[i] each of the first p coefficients multiplies two integrals, and the weights lose the second")
            elif any(rev for _a, _b, _c, rev in extra):
                ok = False
                bad = ("the integrals of the wrapped copies are added in reversed order: entry n+i is the wrapped copy of basis function i, "
                       "so it must be added to entry i")
            elif len(extra) == 1:
                tlo, thi, slo, _r = extra[0]
                ok = False
                bad = (f"the integrals [{slo}, {sp.expand(slo + thi - tlo)}) are added onto the entries [{tlo}, {thi}): the wrapped copies are "
                       "the entries [n, n+p) and belong to the first p basis functions [0, p)")
    if ok is False:
        # ASSUMPTION of VIOLATED: the basis stores, on a periodic space, one integral per UNWRAPPED function (ncells + degree entries, the
        # wrapped copies in the last `degree` entries carrying a part of their own).  That is a contract with BSplines._build_integrals: a
        # producer that stores the n full integrals (already folded) needs no fold here.  Read off the producer; otherwise UNDECIDED.
        sizes = _producer_sizes(chk)
        if not (sizes and all(sz is not None and _same(sz, NC + D) for (cu_, per_), sz in sizes.items() if per_)):
            ok, bad = None, ((bad or "") + " - but BSplines._build_integrals was not established to store ncells + degree integrals on a periodic "
                             "space (the fold may have moved to the producer): not decided")
    chk.ob("Q2-periodic-fold", node, "I[:n] (copy) with I[n:] added onto the first p entries", ok,
           "because c[n+i] = c[i], the integrals of the p wrapped copies are added to the first p basis integrals, on a copy" if ok else
           (bad or f"right-hand side of the periodic solve not followed: {why or 'its pieces are not slices of the stored integrals'}"),
           file=U.INTERP, func=QF)


# --------------------------------------------------------------------------
BI = "BSplines._build_integrals"
NC, D = sp.Symbol("ncells", integer=True, positive=True), sp.Symbol("d", integer=True, positive=True)


def _space_table(periodic):
    t = {}
    for a in ("ncells", "_ncells"):
        t[f"self.{a}"] = NC
    for a in ("degree", "_degree"):
        t[f"self.{a}"] = D
    for a in ("nbasis", "_nbasis"):
        t[f"self.{a}"] = NC if periodic else NC + D
    return t


def _facts(cu, per):
    return {"self.cubic_uniform": cu, "self._cubic_uniform_splines": cu, "self.periodic": per, "self._periodic": per}


def _is_integrals(e):
    return src(e) in ("self._integrals", "self.integrals")


# --------------------------------------------------------------------------
# clamped uniform cubic: what each boundary function loses
# --------------------------------------------------------------------------
_DX = sp.Symbol("dx", positive=True)
_V = [sp.Symbol(f"v{k}", positive=True) for k in range(5)]      # the 5 values of the degree-4 basis at the test point


def _outside(m):
    """what function m from a boundary (m = 0, 1, 2) loses: dx x (v0 + ... + v[2-m])"""
    return _DX * sum(_V[:3 - m])


class _Small:
    """symbolic reading of short literal vectors (at most a handful of entries): np.array([...]), values[:3], np.cumsum, [::-1], np.tile,
    np.concatenate, scalar x vector.  Every entry is a sympy expression over dx and the basis values; nothing is executed."""

    def __init__(self, body, before, dx_names, val_names):
        self.body, self.before, self.dx, self.vals = body, before, dx_names, val_names

    def resolve(self, e):
        if isinstance(e, ast.Name) and e.id not in self.dx and e.id not in self.vals:
            d = _def_of(e.id, self.body, self.before)
            if d is not None and d[2] is None:
                return d[1]
        return e

    def scalar(self, e):
        e = self.resolve(e)
        if isinstance(e, ast.Constant) and isinstance(e.value, (int, float)) and not isinstance(e.value, bool):
            return sp.nsimplify(e.value)
        if (isinstance(e, ast.Name) and e.id in self.dx) or src(e) in ("self.knots[2]", "self._knots[2]"):
            return _DX
        if isinstance(e, ast.UnaryOp) and isinstance(e.op, ast.USub):
            return -self.scalar(e.operand)
        if isinstance(e, ast.BinOp) and isinstance(e.op, (ast.Add, ast.Sub, ast.Mult, ast.Div)):
            a, b = self.scalar(e.left), self.scalar(e.right)
            return a + b if isinstance(e.op, ast.Add) else a - b if isinstance(e.op, ast.Sub) else a * b if isinstance(e.op, ast.Mult) else a / b
        if isinstance(e, ast.Call) and src(e.func) in ("sum", "np.sum") and len(e.args) == 1 and not e.keywords:
            return sum(self.vector(e.args[0]), sp.Integer(0))
        if isinstance(e, ast.Subscript) and isinstance(e.value, ast.Name) and e.value.id in self.vals and isinstance(e.slice, ast.Constant) \
                and isinstance(e.slice.value, int) and 0 <= e.slice.value < 5:
            return _V[e.slice.value]
        raise Unk(f"scalar `{src(e)[:40]}`")

    def const_int(self, e):
        if e is None:
            return None
        if isinstance(e, ast.Constant) and isinstance(e.value, int) and not isinstance(e.value, bool):
            return e.value
        if isinstance(e, ast.UnaryOp) and isinstance(e.op, ast.USub) and isinstance(e.operand, ast.Constant) and isinstance(e.operand.value, int):
            return -e.operand.value
        raise Unk(f"bound `{src(e)[:30]}` is not a literal integer")

    def vector(self, e):
        e = self.resolve(e)
        if isinstance(e, ast.Name) and e.id in self.vals:
            return list(_V)
        if isinstance(e, ast.Subscript) and isinstance(e.slice, ast.Slice):
            base = self.vector(e.value)
            return base[slice(self.const_int(e.slice.lower), self.const_int(e.slice.upper), self.const_int(e.slice.step))]
        if isinstance(e, (ast.List, ast.Tuple)):
            return [self.scalar(x) for x in e.elts]
        if isinstance(e, ast.Call):
            f = src(e.func)
            if f in ("np.array", "np.asarray") and e.args:
                return self.vector(e.args[0])
            if f == "np.cumsum" and len(e.args) == 1:
                v, out, acc = self.vector(e.args[0]), [], sp.Integer(0)
                for x in v:
                    acc = acc + x
                    out.append(acc)
                return out
            if f in ("np.flip", "np.flipud") and len(e.args) == 1:
                return list(reversed(self.vector(e.args[0])))
            if f == "np.tile" and len(e.args) == 2:
                return self.vector(e.args[0]) * self.const_int(e.args[1])
            if f in ("np.concatenate", "np.hstack") and e.args and isinstance(e.args[0], (ast.List, ast.Tuple)):
                return [x for part in e.args[0].elts for x in self.vector(part)]
            if f == "np.arange" and len(e.args) == 1:
                return [sp.Integer(k) for k in range(self.const_int(e.args[0]))]
            raise Unk(f"vector `{src(e)[:40]}`")
        if isinstance(e, ast.UnaryOp) and isinstance(e.op, ast.USub):
            return [-x for x in self.vector(e.operand)]
        if isinstance(e, ast.BinOp) and isinstance(e.op, (ast.Mult, ast.Add, ast.Sub, ast.Div)):
            def side(x):
                try:
                    return self.scalar(x), False
                except Unk:
                    return self.vector(x), True
            (a, av), (b, bv) = side(e.left), side(e.right)
            op = {ast.Mult: lambda x, y: x * y, ast.Add: lambda x, y: x + y, ast.Sub: lambda x, y: x - y, ast.Div: lambda x, y: x / y}[type(e.op)]
            if av and bv:
                if len(a) != len(b):
                    raise Unk("lengths")
                return [op(x, y) for x, y in zip(a, b)]
            if av:
                return [op(x, b) for x in a]
            if bv:
                return [op(a, y) for y in b]
        raise Unk(f"vector `{src(e)[:40]}`")

    def indices(self, sub):
        """literal positions of a subscript of the integrals array: slice with literal bounds at one end, or a literal index vector"""
        sl = sub.slice
        if isinstance(sl, ast.Slice):
            lo, hi, step = self.const_int(sl.lower), self.const_int(sl.upper), self.const_int(sl.step)
            if step not in (None, 1):
                raise Unk("strided slice")
            if lo is None and hi is not None and hi > 0:
                return list(range(0, hi)), "slice"
            if hi is None and lo is not None and lo < 0:
                return list(range(lo, 0)), "slice"
            raise Unk(f"slice `{src(sub)[:40]}`")
        v = self.vector(sl)
        if not all(x.is_Integer for x in v):
            raise Unk("index vector is not literal")
        return [int(x) for x in v], "fancy"


class _SmallW(_Small):
    """_Small + reads of the correction vector W (entries counted from the start only) and literal arithmetic in bounds"""

    def __init__(self, body, before, dx_names, val_names, W, state):
        super().__init__(body, before, dx_names, val_names)
        self.W, self.state = W, state

    def const_int(self, e):
        if e is None:
            return None
        v = _int_attr(e, {})
        if v is not None and sp.sympify(v).is_Integer:
            return int(v)
        raise Unk(f"bound `{src(e)[:30]}` is not a literal integer")

    def resolve(self, e):
        if isinstance(e, ast.Name) and e.id == self.W:
            return e
        return super().resolve(e)

    def vector(self, e):
        if isinstance(e, ast.Subscript) and isinstance(e.value, ast.Name) and e.value.id == self.W and isinstance(e.slice, ast.Slice):
            lo, hi, step = self.const_int(e.slice.lower), self.const_int(e.slice.upper), self.const_int(e.slice.step)
            fwd = step in (None, 1) and hi is not None and 0 < hi <= 6 and (lo is None or 0 <= lo < hi)
            bwd = step == -1 and lo is not None and 0 <= lo < 6 and hi is None
            if not (fwd or bwd):
                raise Unk(f"part `{src(e)[:30]}` of the correction vector")
            if any(v != 0 for v in self.state["end"].values()):
                raise Unk("entries counted from the start are read after entries counted from the end were written")
            return [self.state["start"].get(k, sp.Integer(0)) for k in list(range(6))[slice(lo, hi, step)]]
        return super().vector(e)

    def scalar(self, e):
        if isinstance(e, ast.Subscript) and isinstance(e.value, ast.Name) and e.value.id == self.W and not isinstance(e.slice, ast.Slice):
            k = self.const_int(e.slice)
            if k < 0 or any(v != 0 for v in self.state["end"].values()):
                raise Unk(f"entry `{src(e)[:30]}` of the correction vector")
            return self.state["start"].get(k, sp.Integer(0))
        return super().scalar(e)


def _correction_vector(cu, flat, whole, dx_names, val_names):
    """`integrals -= W` with W a zero vector as long as the integrals, filled at literal positions counted from its start / from its end
    (by statements or by a loop over a literal range, read once per value of the loop index).  The entries counted from the start and
    those counted from the end are kept apart (they are different entries when there are three cells or more); a plain ASSIGNMENT at
    one end made after the other end received its values replaces, with one or two cells, what the other end put there.
    -> (verdict, diagnosis, node) or None when the construction is not of this form"""
    from .C07 import _Sub, clone as _clone
    W = whole.value.id
    table = dict(_space_table(False))
    for st in flat:
        if isinstance(st, ast.Assign) and len(st.targets) == 1 and isinstance(st.targets[0], ast.Name):
            v_ = _int_attr(st.value, table)
            if v_ is not None:
                table[st.targets[0].id] = v_
    allocs = [st for st in flat if isinstance(st, ast.Assign) and len(st.targets) == 1 and isinstance(st.targets[0], ast.Name) and st.targets[0].id == W]
    if len(allocs) != 1 or not isinstance(allocs[0].value, ast.Call) or not allocs[0].value.args:
        return None
    a = allocs[0].value
    if src(a.func) == "np.zeros_like":
        if not _is_integrals(a.args[0]):
            return None
    elif src(a.func) == "np.zeros":
        size = _int_attr(a.args[0], table)
        if size is None or not _same(size, NC + D):
            return None
    else:
        return None
    state = {"start": {}, "end": {}}
    overwrite = []

    def store(st, target, value, op, env):
        rd = _SmallW(cu, allocs[0], dx_names, val_names, W, state)
        tgt = _Sub(env).visit(_clone(target)) if env else target
        val = _Sub(env).visit(_clone(value)) if env else value
        if isinstance(tgt.slice, ast.Slice):
            pos, _how = rd.indices(tgt)
        else:
            pos = [rd.const_int(tgt.slice)]
        try:
            vals = [rd.scalar(val)] * len(pos)
        except Unk:
            vals = rd.vector(val)
        if len(vals) != len(pos):
            raise Unk("lengths")
        for k, v in zip(pos, vals):
            side, m, other = ("start", k, "end") if k >= 0 else ("end", -k - 1, "start")
            if m > 2 and v != 0:
                raise Unk("position beyond the three boundary functions")
            if op is None:
                if v != 0 and any(x != 0 for x in state[other].values()):
                    overwrite.append(st)
                state[side][m] = v
            else:
                state[side][m] = state[side].get(m, sp.Integer(0)) + (v if isinstance(op, ast.Add) else -v)

    def mentions(st):
        return any(isinstance(x, ast.Name) and x.id == W for x in ast.walk(st))
    try:
        started = False
        for st in cu:
            if st is allocs[0]:
                started = True
                continue
            if st is whole:
                break
            if not mentions(st):
                if any(_is_integrals(x) for x in ast.walk(st)) and isinstance(st, (ast.For, ast.While, ast.If, ast.AugAssign)):
                    return None
                continue
            if not started:
                return None
            if isinstance(st, ast.For):
                if not (isinstance(st.iter, ast.Call) and src(st.iter.func) == "range" and len(st.iter.args) == 1 and isinstance(st.target, ast.Name)
                        and not st.orelse):
                    return None
                cnt = _int_attr(st.iter.args[0], {})
                if cnt is None or not sp.sympify(cnt).is_Integer or not (0 < int(cnt) <= 6):
                    return None
                for k in range(int(cnt)):
                    env = {st.target.id: ast.Constant(value=k)}
                    for b in st.body:
                        if isinstance(b, ast.Assign) and len(b.targets) == 1 and isinstance(b.targets[0], ast.Name) and b.targets[0].id != W:
                            env[b.targets[0].id] = _Sub(env).visit(_clone(b.value))
                        elif isinstance(b, ast.Assign) and len(b.targets) == 1 and isinstance(b.targets[0], ast.Subscript) and src(b.targets[0].value) == W:
                            store(b, b.targets[0], b.value, None, env)
                        elif isinstance(b, ast.AugAssign) and isinstance(b.op, (ast.Add, ast.Sub)) and isinstance(b.target, ast.Subscript) and src(b.target.value) == W:
                            store(b, b.target, b.value, b.op, env)
                        else:
                            return None
            elif isinstance(st, ast.Assign) and len(st.targets) == 1 and isinstance(st.targets[0], ast.Subscript) and src(st.targets[0].value) == W:
                store(st, st.targets[0], st.value, None, {})
            elif isinstance(st, ast.AugAssign) and isinstance(st.op, (ast.Add, ast.Sub)) and isinstance(st.target, ast.Subscript) and src(st.target.value) == W:
                store(st, st.target, st.value, st.op, {})
            else:
                return None
    except Unk:
        return None, None, whole
    if overwrite:
        # ASSUMPTION of VIOLATED: spaces with one or two cells (4 or 5 integrals) take these statements - no branch on the number of cells
        small_case = any(isinstance(x, ast.If) and any((isinstance(y, ast.Attribute) and y.attr in ("ncells", "_ncells", "nbasis", "_nbasis")) or
                                                       (isinstance(y, ast.Name) and (y.id == "n" or "ncell" in y.id.lower()))
                                                       for y in ast.walk(x.test)) for x in flat)
        if small_case:
            return None, None, overwrite[0]
        o = overwrite[0]
        return False, (f"`{src(o)[:70]}` ASSIGNS the correction of one end into `{W}` after the other end received its own: with one or two cells "
                       "(4 or 5 integrals) entries counted from the end ARE entries counted from the start, and the assignment replaces the part "
                       "already there instead of adding to it - a function cut by both boundaries loses only one of its two outside parts, "
                       "the stored integrals (hence the quadrature weights) are wrong"), o
    for which in ("start", "end"):
        nz = {m: v for m, v in state[which].items() if v != 0}
        if set(nz) != {0, 1, 2}:
            if not nz:
                return False, (f"nothing is subtracted from the three functions at the {which} of the domain: they keep the full integral dx although "
                               "part of their support lies outside the domain"), whole
            return False, f"the functions {sorted(nz)} from the {which} of the domain are reduced: the functions cut by a boundary are 0, 1, 2", whole
        for m, v in nz.items():
            if sp.expand(v - _outside(m)) != 0:
                return False, (f"`{src(whole)[:70]}`: function {m} from the {which} loses {sp.factor(v)}; the mass outside the domain is "
                               f"{_outside(m)} (v_k = k-th basis value at the test point)"), whole
    return True, None, whole


def boundary_reduction(cu, dx_names, val_names):
    """-> (verdict, diagnosis, node).  Every function m = 0, 1, 2 counted from the start of the domain and every function m counted from its end
    must lose dx x sum(values[:3 - m]), by a subtraction that is applied once per END (a function that reaches both ends loses both parts)."""
    flat = _flat(cu)
    I_ = sp.Symbol("i_", integer=True)
    node = None

    def is_int_sub(t):
        return isinstance(t, ast.Subscript) and _is_integrals(t.value)

    # ---- loops over the three boundary functions (one loop for both ends, or one loop per end)
    loops = [st for st in flat if isinstance(st, ast.For) and any(isinstance(x, (ast.AugAssign, ast.Assign)) and
                                                                  is_int_sub(x.target if isinstance(x, ast.AugAssign) else x.targets[0])
                                                                  for x in ast.walk(st))]
    vec_subs = [st for st in flat if not any(st in list(ast.walk(lp)) for lp in loops) and
                ((isinstance(st, ast.AugAssign) and isinstance(st.op, ast.Sub) and is_int_sub(st.target)) or
                 (isinstance(st, ast.Expr) and isinstance(st.value, ast.Call) and src(st.value.func) in ("np.subtract.at", "numpy.subtract.at")
                  and len(st.value.args) == 3 and _is_integrals(st.value.args[0])))]
    whole = [st for st in flat if isinstance(st, ast.AugAssign) and isinstance(st.op, ast.Sub) and isinstance(st.value, ast.Name) and
             (_is_integrals(st.target) or (is_int_sub(st.target) and isinstance(st.target.slice, ast.Slice) and st.target.slice.lower is None
                                           and st.target.slice.upper is None and st.target.slice.step is None))]
    if not loops and len(whole) == 1 and all(x is whole[0] for x in vec_subs):
        r_ = _correction_vector(cu, flat, whole[0], dx_names, val_names)
        if r_ is not None:
            return r_
    if loops and vec_subs:
        return None, None, loops[0]
    ends = {"start": [], "end": []}
    from .C07 import _Sub, clone as _clone
    for loop in loops:
        node = node or loop
        if not (isinstance(loop.iter, ast.Call) and src(loop.iter.func) == "range" and 1 <= len(loop.iter.args) <= 2 and isinstance(loop.target, ast.Name)):
            return None, None, loop
        bounds = [_int_attr(a, {}) for a in loop.iter.args]
        if any(b is None for b in bounds):
            return None, None, loop
        lo, hi = (sp.Integer(0), bounds[0]) if len(bounds) == 1 else bounds
        iv = loop.target.id
        env, reds = {}, []
        counts = {}
        for x in ast.walk(loop):
            if isinstance(x, ast.Name) and isinstance(x.ctx, ast.Store):
                counts[x.id] = counts.get(x.id, 0) + 1
        for st in loop.body:
            st2 = _Sub(env).visit(_clone(st))
            if isinstance(st2, ast.Assign) and len(st2.targets) == 1 and isinstance(st2.targets[0], ast.Name) and counts.get(st2.targets[0].id) == 1:
                env[st2.targets[0].id] = st2.value
                continue
            if isinstance(st2, ast.AugAssign) and isinstance(st2.op, ast.Sub) and is_int_sub(st2.target):
                reds.append(st2)
                continue
            if isinstance(st2, ast.Assign) and is_int_sub(st2.targets[0]):
                return None, None, loop           # assigned, not reduced: the caller names this form
            if any(_is_integrals(y) for y in ast.walk(st2)):
                return None, None, loop
        for r in reds:
            idx = _int_attr(r.target.slice, {iv: I_})
            v = r.value
            K = None
            if isinstance(v, ast.BinOp) and isinstance(v.op, ast.Mult):
                for a, b in ((v.left, v.right), (v.right, v.left)):
                    is_dx = (isinstance(a, ast.Name) and a.id in dx_names) or src(a) in ("self.knots[2]", "self._knots[2]")
                    if is_dx and isinstance(b, ast.Call) and src(b.func) in ("sum", "np.sum") and len(b.args) == 1 and not b.keywords and \
                            isinstance(b.args[0], ast.Subscript) and isinstance(b.args[0].value, ast.Name) and b.args[0].value.id in val_names and \
                            isinstance(b.args[0].slice, ast.Slice) and b.args[0].slice.step is None and \
                            (b.args[0].slice.lower is None or src(b.args[0].slice.lower) == "0") and b.args[0].slice.upper is not None:
                        K = _int_attr(b.args[0].slice.upper, {iv: I_})
            if idx is None or K is None:
                return None, None, r
            c = sp.expand(idx).coeff(I_)
            if c == 1:
                ends["start"].append((idx, K, r, lo, hi))                      # function number m = idx from the start
            elif c == -1:
                ends["end"].append((sp.expand(-idx - 1), K, r, lo, hi))       # entry -m-1 is function m from the end
            else:
                return None, None, r
    if loops:
        if not ends["start"] and not ends["end"]:
            return None, None, node
        for which, other in (("start", "end"), ("end", "start")):
            if not ends[which]:
                return False, (f"only the functions at the {other} of the domain are reduced: the three functions cut by the other boundary keep "
                               "the full integral dx although part of their support lies outside the domain"), node
            if len(ends[which]) > 1:
                return None, None, node
            m, K, r, lo, hi = ends[which][0]
            mlo, mhi = sp.expand(m.subs(I_, lo)), sp.expand(m.subs(I_, hi - 1) + 1)
            if not (_same(mlo, 0) and _same(mhi, 3)):
                return False, (f"`{src(r)[:70]}` runs over the functions {mlo}..{mhi - 1} counted from the {which} of the domain: the functions cut "
                               "by a boundary are the first three (0, 1, 2)"), r
            if not _same(K, 3 - m):
                M_ = sp.Symbol("m")
                K_m = sp.expand(K.subs(I_, M_ - sp.expand(m - I_)))
                return False, (f"`{src(r)[:70]}`: function m (m = 0, 1, 2) from the {which} loses dx x the first {K_m} basis values at the "
                               "test point; the mass outside the domain is that of the first 3 - m"), r
        return True, None, node
    # ---- whole-array subtractions over literal positions
    subs = vec_subs
    if not subs:
        return None, None, None
    node = subs[0]
    seen = {"start": {}, "end": {}}
    try:
        for st in subs:
            rd = _Small(cu, st, dx_names, val_names)
            if isinstance(st, ast.AugAssign):
                pos, how = rd.indices(st.target)
                vals = rd.vector(st.value)
                buffered = how == "fancy"
            else:
                fake = ast.Subscript(value=st.value.args[0], slice=st.value.args[1], ctx=ast.Load())
                pos, how = rd.indices(fake)
                vals = rd.vector(st.value.args[2])
                buffered = False
            if len(pos) != len(vals):
                return None, None, st
            if buffered and any(k >= 0 for k in pos) and any(k < 0 for k in pos):
                return False, (f"`{src(st)[:80]}` subtracts through the index array {pos}, which counts from both ends of the array: with one or two "
                               "cells (4 or 5 entries) a position from the start and one from the end denote the same entry, and an in-place "
                               "operation through an index array is buffered - the entry receives only the last of the two subtractions, so a "
                               "function cut by both boundaries loses one of its two outside parts only"), st
            if buffered and len(set(pos)) != len(pos):
                return False, f"`{src(st)[:80]}`: the index array {pos} repeats a position; the buffered in-place subtraction keeps one of them only", st
            for k, v in zip(pos, vals):
                which, m = ("start", k) if k >= 0 else ("end", -k - 1)
                if m in seen[which]:
                    return None, None, st
                seen[which][m] = (v, st)
    except Unk:
        return None, None, node
    for which in ("start", "end"):
        if set(seen[which]) != {0, 1, 2}:
            if not seen[which]:
                return False, (f"nothing is subtracted from the three functions at the {which} of the domain: they keep the full integral dx although "
                               "part of their support lies outside the domain"), node
            return False, f"the functions {sorted(seen[which])} from the {which} of the domain are reduced: the functions cut by a boundary are 0, 1, 2", node
        for m, (v, st) in seen[which].items():
            if sp.expand(v - _outside(m)) != 0:
                return False, (f"`{src(st)[:70]}`: function {m} from the {which} loses {sp.factor(v)}; the mass outside the domain is "
                               f"{_outside(m)} (v_k = k-th basis value at the test point)"), st
    return True, None, node


def _producer_sizes(chk):
    """number of entries BSplines._build_integrals allocates for the integrals on each kind of space: {(cubic uniform, periodic): size | None}"""
    try:
        smod = chk.mod(U.SPLINES)
        out = {}
        for cu in (True, False):
            for per in (True, False):
                body = Specialiser(smod, "BSplines", facts=_facts(cu, per)).run("_build_integrals")
                allocs = [st for st in _flat(body) if isinstance(st, ast.Assign) and _is_integrals(st.targets[0]) and isinstance(st.value, ast.Call)
                          and src(st.value.func) in ("np.empty", "np.zeros", "np.ones", "np.full") and st.value.args]
                out[(cu, per)] = _int_attr(allocs[0].value.args[0], _space_table(per)) if len(allocs) == 1 else None
        return out
    except Exception:
        return None


def _consumer_folds(chk):
    """the quadrature was established to fold the last `degree` stored integrals onto the first ones (rule Q2 holds): it then needs
    ncells + degree stored integrals on a periodic space, the wrapped copies carrying only what is to be added"""
    from ..core import HOLDS
    obs = [o for o in chk.obs if o.rule == "Q2-periodic-fold"]
    return bool(obs) and all(o.status == HOLDS for o in obs)


def uniform_cubic_integrals(chk):
    smod = chk.mod(U.SPLINES)
    fn = chk.func(U.SPLINES, BI)
    bodies = {(cu, per): Specialiser(smod, "BSplines", facts=_facts(cu, per)).run("_build_integrals")
              for cu in (True, False) for per in (True, False)}
    # ASSUMPTION of the VIOLATED verdicts on the periodic storage (number of entries, content of the wrapped entries): the consumer folds the
    # last `degree` entries onto the first ones.  Established by rule Q2; a consumer that does not (the fold moved into the producer) makes
    # another layout right, and these verdicts UNDECIDED.
    folds = _consumer_folds(chk)
    # ---- storage: ncells + degree entries on every kind of space
    okh, badh, node = True, None, fn
    for (cu, per), body in bodies.items():
        table = _space_table(per)
        allocs = [st for st in _flat(body) if isinstance(st, ast.Assign) and _is_integrals(st.targets[0]) and isinstance(st.value, ast.Call)
                  and src(st.value.func) in ("np.empty", "np.zeros", "np.ones", "np.full") and st.value.args]
        if len(allocs) != 1:
            okh = None if okh else okh
            continue
        size = _int_attr(allocs[0].value.args[0], table)
        if size is None:
            okh = None if okh else okh
        elif not _same(size, NC + D):
            if per and not folds:
                okh = None if okh else okh
                badh = (f"`{src(allocs[0])}` has {size} entries on a periodic space, and the quadrature was not established to fold the last "
                        "`degree` entries onto the first ones: which layout the two sides agree on is not decided")
                continue
            okh, node = False, allocs[0]
            badh = (f"`{src(allocs[0])}` has {size} entries on a {'periodic' if per else 'clamped'} space: the integrals are those of the "
                    "ncells + degree unwrapped basis functions (on a periodic space the degree wrapped copies included)")
    chk.ob("Q3-integrals-storage", node, "integrals array has ncells + degree entries (unwrapped basis functions)", okh,
           "" if okh else (badh or "allocation of the integrals array not recognised"), file=U.SPLINES, func=BI, nontrivial=False)
    # ---- periodic uniform cubic: dx for the n functions, 0 for the wrapped copies
    body = bodies[(True, True)]
    table = _space_table(True)
    dxs = set()
    for st in _flat(body):
        if isinstance(st, ast.Assign) and isinstance(st.targets[0], ast.Tuple) and len(st.targets[0].elts) == 4 and src(st.value) in ("self.knots", "self._knots") \
                and isinstance(st.targets[0].elts[2], ast.Name):
            dxs.add(st.targets[0].elts[2].id)
        if isinstance(st, ast.Assign) and isinstance(st.targets[0], ast.Name) and src(st.value) in ("self.knots[2]", "self._knots[2]"):
            dxs.add(st.targets[0].id)
    seg = {"first": None, "wrapped": None}       # value of the entries [0, n) and [n, n+3)

    def fill_value(e):
        if (isinstance(e, ast.Name) and e.id in dxs) or src(e) in ("self.knots[2]", "self._knots[2]"):
            return "dx"
        if isinstance(e, ast.Constant) and e.value == 0 and not isinstance(e.value, bool):
            return "0"
        return None
    for st in _flat(body):
        if isinstance(st, ast.Assign) and _is_integrals(st.targets[0]) and isinstance(st.value, ast.Call):
            f = src(st.value.func)
            if f == "np.zeros":
                seg["first"] = seg["wrapped"] = "0"
            elif f == "np.full" and len(st.value.args) >= 2 and fill_value(st.value.args[1]):
                seg["first"] = seg["wrapped"] = fill_value(st.value.args[1])
    okper, badper = None, None
    stores = [st for st in _flat(body) if isinstance(st, ast.Assign) and isinstance(st.targets[0], ast.Subscript) and _is_integrals(st.targets[0].value)]
    other = [st for st in _flat(body) if isinstance(st, ast.AugAssign) and isinstance(st.target, ast.Subscript) and _is_integrals(st.target.value)]
    decided = (bool(stores) or seg["first"] is not None) and not other
    for st in stores:
        b = _slice_bounds(st.targets[0], table, NC + D)
        v = fill_value(st.value)
        if b is None or v is None:
            decided = False
            break
        lo, hi = b
        if _same(lo, 0) and _same(hi, NC + D):
            seg["first"] = seg["wrapped"] = v
        elif _same(lo, 0) and _same(hi, NC):
            seg["first"] = v
        elif _same(lo, NC) and _same(hi, NC + D):
            seg["wrapped"] = v
        else:
            decided = False
            break
    if decided:
        if seg["first"] == "dx" and seg["wrapped"] == "0":
            okper = True
        elif not folds:
            okper = None
            badper = (f"on a periodic uniform cubic space the n basis functions get `{seg['first']}` and the wrapped copies `{seg['wrapped']}`; the "
                      "quadrature was not established to fold the wrapped copies onto the first entries: not decided")
        else:
            okper = False
            badper = (f"on a periodic uniform cubic space the n basis functions get `{seg['first']}` and the wrapped copies `{seg['wrapped']}`: "
                      "every function integrates to dx and the wrapped copies must carry 0, because the quadrature folds them onto the "
                      "first entries (a non-zero value is counted twice, an unset one is garbage)")
    chk.ob("Q3-uniform-cubic", stores[0] if stores else fn, "periodic uniform cubic: dx for the n functions, 0 for the wrapped copies", okper,
           "every periodic uniform cubic B-spline integrates to dx; the wrapped copies carry nothing extra" if okper else
           (badper or "periodic uniform-cubic integrals not recognised"), file=U.SPLINES, func=BI)
    # ---- clamped uniform cubic: every function starts from the full integral dx and loses what lies outside the domain, at both ends
    cu = bodies[(True, False)]
    V = ["dx", "values"]          # the names of these two locals are free, but they must be the cell size / the basis values
    dx_names = set()
    for st in _flat(cu):
        if isinstance(st, ast.Assign) and isinstance(st.targets[0], ast.Tuple) and len(st.targets[0].elts) == 4 and \
                src(st.value) in ("self.knots", "self._knots") and isinstance(st.targets[0].elts[2], ast.Name):
            dx_names.add(st.targets[0].elts[2].id)
        if isinstance(st, ast.Assign) and isinstance(st.targets[0], ast.Name) and src(st.value) in ("self.knots[2]", "self._knots[2]"):
            dx_names.add(st.targets[0].id)
    val_names = {src(c.args[4]) for st in _flat(cu) for c in own_exprs(st) if isinstance(c, ast.Call) and src(c.func) == "nu_basis_funs"
                 and len(c.args) >= 5}

    def has(fragment):
        b = find(cu, fragment, vars=V)
        return b is not None and b.get("dx", next(iter(dx_names), None)) in dx_names and ("values" not in b or b["values"] in val_names)
    okint = has("self._integrals[:] = dx") or contains(cu, "self._integrals[:] = self.knots[2]")
    old_int = has("self._integrals[d:-d] = dx") or has("self._integrals[self.degree:-self.degree] = dx") or has("self._integrals[3:-3] = dx")
    # ASSUMPTION of VIOLATED: spaces with fewer than three cells take the same statements - no branch on the number of cells treats them apart
    small_case = any(isinstance(st, ast.If) and any(isinstance(x, ast.Attribute) and x.attr in ("ncells", "_ncells") or
                                                    (isinstance(x, ast.Name) and "ncell" in x.id.lower()) for x in ast.walk(st.test))
                     for st in _flat(cu))
    chk.pat("Q3-uniform-cubic", fn, "clamped uniform cubic: all integrals start from dx", okint,
            "a cardinal cubic B-spline integrates to dx; boundary functions lose the part outside the domain (next rule)",
            ("only the interior entries `[d:-d]` are set to dx: with fewer than three cells there is no interior and a function that "
             "reaches both boundaries gets one end's value only") if old_int and not okint and not small_case else None,
            file=U.SPLINES, func=BI)
    # auxiliary construction: knots = linspace(x0, x0 + 11 dx, 12), test point = x0 + 4 dx  (same origin x0)
    xmin, dx = sp.symbols("xmin dx", real=True)
    aux = [c for st in _flat(cu) for c in own_exprs(st) if isinstance(c, ast.Call) and src(c.func) == "nu_basis_funs" and len(c.args) >= 3]
    ok = None
    why = "auxiliary knot vector / test point not found"
    kn_node = None

    def affine_knots(v, n_):
        """(first knot, spacing) of a uniform knot vector expression, or None"""
        if isinstance(v, ast.Call) and src(v.func) == "np.linspace" and len(v.args) == 3:
            a, b, cnt = n_.ev(v.args[0]), n_.ev(v.args[1]), n_.ev(v.args[2])
            return a, (b - a) / (cnt - 1)
        if isinstance(v, ast.Call) and src(v.func) == "np.arange" and len(v.args) == 1:
            return sp.Integer(0), sp.Integer(1)
        if isinstance(v, ast.BinOp) and isinstance(v.op, ast.Mult):
            for x, y in ((v.left, v.right), (v.right, v.left)):
                k = affine_knots(y, n_)
                if k is not None:
                    f = n_.ev(x)
                    return k[0] * f, k[1] * f
        if isinstance(v, ast.BinOp) and isinstance(v.op, (ast.Add, ast.Sub)):
            kl = affine_knots(v.left, n_)
            if kl is not None:
                o = n_.ev(v.right)
                return (kl[0] + o, kl[1]) if isinstance(v.op, ast.Add) else (kl[0] - o, kl[1])
            kr = affine_knots(v.right, n_)
            if kr is not None and isinstance(v.op, ast.Add):
                return kr[0] + n_.ev(v.left), kr[1]
        return None

    if aux:
        call = aux[0]
        st_of = next(st for st in _flat(cu) if any(c is call for c in own_exprs(st)))

        def resolve(e, depth=0):
            if isinstance(e, ast.Name) and depth < 4:
                d_ = _def_of(e.id, cu, st_of)
                if d_ is not None and d_[2] is None:
                    return d_[0], d_[1]
            return None, e
        kn_node, kv = resolve(call.args[0])
        _, tv = resolve(call.args[2])
        env = {"xmin": xmin, "dx": dx}
        # the names the unpacking of self.knots gives to xmin and dx
        for st in _flat(cu):
            if isinstance(st, ast.Assign) and isinstance(st.targets[0], ast.Tuple) and len(st.targets[0].elts) == 4 and \
                    src(st.value) in ("self.knots", "self._knots"):
                a0, a2 = st.targets[0].elts[0], st.targets[0].elts[2]
                if isinstance(a0, ast.Name):
                    env[a0.id] = xmin
                if isinstance(a2, ast.Name):
                    env[a2.id] = dx
        n_ = NpSym(env=env, hooks={"self.knots[0]": xmin, "self.knots[2]": dx, "self._knots[0]": xmin, "self._knots[2]": dx})
        try:
            ak = affine_knots(kv, n_)
            if ak is None:
                raise Undecided(f"knot vector `{src(kv)}` is not a recognised uniform construction")
            a, step_ = ak
            t = n_.ev(tv)
            spacing = alg_equal(step_, dx)
            rel = alg_equal(t - a, 4 * dx)
            ok = bool(spacing and rel)
            if not ok:
                # ASSUMPTION of VIOLATED: the construction is the reference one (12 knots, quartic values taken in the 5th interval).  What the
                # property needs is that the point sits at a FIXED number of cells from the first auxiliary knot; a distance that depends on
                # where the domain starts, or a spacing that is not dx, is wrong whatever the construction; another fixed distance belongs
                # to another (possibly equivalent) construction: UNDECIDED.
                dist = sp.simplify(t - a)
                if spacing and not (dist.free_symbols & {xmin}) and sp.simplify(dist / dx).is_number:
                    ok = None
            why = ("the auxiliary uniform knot vector has spacing dx and the evaluation point is 4 cells from ITS first knot: the "
                   "boundary integrals do not depend on where the domain starts") if ok else \
                (f"auxiliary knots start at {a} with spacing {step_}, evaluation point {t}: a fixed {sp.simplify((t - a) / dx)} cells from the first "
                 "knot, not the 4 of the reference construction - whether the values read afterwards fit this other construction is not followed") \
                if ok is None else \
                (f"auxiliary knots start at {a} with spacing {step_}, evaluation point {t}: the point is {sp.simplify(t - a)} "
                 "from the first knot instead of 4 dx - for a domain that does not start at the knot origin the boundary integrals are wrong")
        except Undecided as e:
            ok, why = None, f"not extractable: {e}"
    chk.ob("Q3-uniform-cubic", kn_node if kn_node is not None else fn, "auxiliary knots and test point share one origin", ok, why, file=U.SPLINES,
           func=BI)
    okb, badb, nodeb = boundary_reduction(cu, dx_names, val_names)
    if okb is False:
        # ASSUMPTION of VIOLATED: the statements the reading has interpreted (the initial fill, the reductions) are ALL the statements that
        # change the integrals on this path.  Any other store into them, or a call that receives the array, may complete the job.
        writers = [st for st in _flat(cu) if (isinstance(st, (ast.Assign, ast.AugAssign)) and
                                               any(isinstance(t_, ast.Subscript) and _is_integrals(t_.value)
                                                   for t_ in (st.targets if isinstance(st, ast.Assign) else [st.target]))) or
                   (isinstance(st, ast.Expr) and isinstance(st.value, ast.Call) and any(_is_integrals(a_) for a_ in st.value.args))]
        known = [st for st in writers if (isinstance(st, ast.Assign) and isinstance(st.targets[0].slice, ast.Slice) and
                                          st.targets[0].slice.lower is None and st.targets[0].slice.upper is None and
                                          not any(_is_integrals(y) for y in ast.walk(st.value))) or
                 (isinstance(st, ast.AugAssign) and isinstance(st.op, ast.Sub)) or
                 (isinstance(st, ast.Expr) and src(st.value.func) in ("np.subtract.at", "numpy.subtract.at"))]
        if len(known) != len(writers):
            other = next(st for st in writers if st not in known)
            okb, badb = None, (badb or "") + f" - but `{src(other)[:60]}` also writes the integrals, in a way the reading does not interpret: not decided"
    assigned = [st for st in _flat(cu) if isinstance(st, ast.For) and
                [x for x in ast.walk(st) if isinstance(x, ast.Assign) and isinstance(x.targets[0], ast.Subscript) and _is_integrals(x.targets[0].value)
                 and src(x.targets[0].slice).replace(" ", "") in ("i", "-i-1", "-1-i", "-(i+1)")
                 and not any(_is_integrals(y) for y in ast.walk(x.value))]]
    if okb is None and assigned:
        okb, badb = False, ("the boundary integrals are assigned, not reduced: with one or two cells the assignments of the two ends overwrite each "
                            "other and the stored integrals (hence the weights) are wrong")
    chk.ob("Q3-uniform-cubic", nodeb if nodeb is not None else fn, "boundary functions lose the part outside the domain, symmetrically, by subtraction",
           okb, "the three functions cut by each boundary lose dx x (the mass outside), subtracted at both ends so that a function cut by "
           "both boundaries (1 or 2 cells) loses both parts" if okb else
           (badb or "the reduction of the boundary integrals is not followed (neither a loop over the three boundary functions with one "
                    "subtraction per end, nor whole-array subtractions over literal index sets)"), file=U.SPLINES, func=BI)
    # ---- general branch: no data-dependent shortcut decides where the integrals come from
    general_single_formula(chk, fn, bodies)
    # ---- general branch: one formula for every unwrapped function, the wrapped copies of a periodic space included
    gen = bodies[(False, True)]
    table = _space_table(True)
    loops = [st for st in _flat(gen) if isinstance(st, ast.For) and
             any(isinstance(x, ast.Assign) and isinstance(x.targets[0], ast.Subscript) and _is_integrals(x.targets[0].value) for x in ast.walk(st))]
    okw, badw = False, None
    gen_ints = {}
    for st in _flat(gen):
        if isinstance(st, ast.Assign) and len(st.targets) == 1 and isinstance(st.targets[0], ast.Name):
            v = _int_attr(st.value, {**table, **gen_ints})
            if v is not None:
                gen_ints[st.targets[0].id] = v
    whole = [st for st, guards in walk_guarded(gen) if isinstance(st, ast.Assign) and isinstance(st.targets[0], ast.Subscript)
             and _is_integrals(st.targets[0].value)]
    if not loops and len(whole) == 1 and not any(_is_integrals(x) or isinstance(x, (ast.Call, ast.IfExp, ast.ListComp)) for x in ast.walk(whole[0].value)):
        # one whole-array expression gives every entry: the same formula for all unwrapped functions by construction
        b = _slice_bounds(whole[0].targets[0], {**table, **gen_ints}, NC + D)
        if b is not None and _same(b[0], 0) and _same(b[1], NC + D):
            okw = True
            loops = [whole[0]]
    elif loops and isinstance(loops[0].iter, ast.Call) and src(loops[0].iter.func) == "range" and 1 <= len(loops[0].iter.args) <= 3 \
            and isinstance(loops[0].target, ast.Name):
        iv = loops[0].target.id
        IV = sp.Symbol("i_", integer=True)
        bnds = [_int_attr(a, {**table, **gen_ints}) for a in loops[0].iter.args]
        stores = [x for x in ast.walk(loops[0]) if isinstance(x, ast.Assign) and isinstance(x.targets[0], ast.Subscript) and
                  _is_integrals(x.targets[0].value)]
        idxs = [_int_attr(x.targets[0].slice, {**table, **gen_ints, iv: IV}) for x in stores]
        lo = hi = None
        if len(bnds) == 3 and all(b is not None for b in bnds) and bnds[2] == -1:
            bnds = [bnds[1] + 1, bnds[0] + 1]          # range(a, b, -1) visits b+1 .. a: the same indices in the other order
        if len(bnds) <= 2 and all(b is not None for b in bnds) and len(stores) == 1 and idxs[0] is not None and sp.expand(idxs[0]).coeff(IV) == 1:
            rlo, rhi = (sp.Integer(0), bnds[0]) if len(bnds) == 1 else bnds
            lo, hi = sp.expand(idxs[0].subs(IV, rlo)), sp.expand(idxs[0].subs(IV, rhi))       # entries [lo, hi) are written
        if lo is not None and _same(lo, 0) and _same(hi, NC + D):
            okw = True
        elif lo is not None and _same(lo, 0) and _same(hi, NC):
            mirror = [x for st in _flat(gen) if isinstance(st, ast.Assign) and isinstance(st.targets[0], ast.Subscript)
                      and _is_integrals(st.targets[0].value) and isinstance(st.value, ast.Subscript) and _is_integrals(st.value.value)
                      for x in [st]]
            if mirror:
                badw = (f"`{src(mirror[0])}` copies the integrals of the wrapped functions from the first ones in reverse order: that "
                        "is their value only when the break points are symmetric (uniform grids); on a periodic non-uniform space "
                        "the stored integrals, and the quadrature weights, are wrong (weights do not sum to the domain length)")
            elif len(loops) == 1 and folds:
                # ASSUMPTION of VIOLATED: nothing else gives the wrapped entries a value (no other store into the integrals on this path)
                # and the consumer adds them onto the first entries (rule Q2): whatever they hold is then counted
                other_w = [st for st in _flat(gen) if st is not loops[0] and not any(st is y for y in ast.walk(loops[0])) and
                           isinstance(st, (ast.Assign, ast.AugAssign)) and
                           any(isinstance(t_, ast.Subscript) and _is_integrals(t_.value) for t_ in (st.targets if isinstance(st, ast.Assign) else [st.target]))]
                alloc_ = [st for st in _flat(gen) if isinstance(st, ast.Assign) and _is_integrals(st.targets[0]) and isinstance(st.value, ast.Call)]
                zeroed = any(src(a_.value.func) == "np.zeros" for a_ in alloc_)
                if not other_w and not zeroed:
                    badw = ("only the first nbasis integrals are computed: on a periodic space the wrapped functions ncells..ncells+d-1 "
                            "keep uninitialised values")
                # (entries that stay 0: right when the first nbasis entries hold the integrals over the whole period - not decided)
    chk.pat("Q3-integrals-storage", loops[0] if loops else fn, "general: for i in range(self.ncells + d) with one formula", okw,
            "every unwrapped basis function, the wrapped copies of a periodic space included, is integrated by the same antiderivative "
            "identity", badw, file=U.SPLINES, func=BI)


APPROX = ("np.allclose", "np.isclose", "numpy.allclose", "numpy.isclose", "math.isclose", "np.array_equal", "np.testing.assert_allclose")


def general_single_formula(chk, fn, bodies):
    """On a general (not uniform-cubic) space the stored integrals come from the same statements on every path: a store into the
    integrals that sits under a test of the DATA (knots, break points) selects another formula for some spaces.  A shortcut selected
    by an approximate comparison is a recognised wrong form: it treats spaces that merely pass the tolerance as if they had the
    special property."""
    ok, bad, node, why = True, None, fn, None
    for per in (True, False):
        body = bodies[(False, per)]
        for st, guards in walk_guarded(body):
            tgt = st.targets[0] if isinstance(st, ast.Assign) and st.targets else st.target if isinstance(st, ast.AugAssign) else None
            if tgt is None or not (isinstance(tgt, ast.Subscript) and _is_integrals(tgt.value)):
                continue
            data_guards = [(t, pol) for t, pol, _n in guards if not (isinstance(t, ast.Compare) and isinstance(t.ops[0], (ast.In, ast.NotIn)))]
            if not data_guards:
                continue
            t, pol = data_guards[-1]
            approx = [c for c in ast.walk(t) if isinstance(c, ast.Call) and src(c.func) in APPROX and src(c.func) != "np.array_equal"]
            tol = [c for c in ast.walk(t) if isinstance(c, ast.Compare) and isinstance(c.ops[0], (ast.Lt, ast.LtE)) and
                   any(isinstance(x, ast.Call) and src(x.func) in ("abs", "np.abs", "np.max", "np.ptp") for x in ast.walk(c.left))]
            if (approx or tol) and pol and ok is not False:
                a = approx[0] if approx else tol[0]
                kw = [k.arg for k in a.keywords] if isinstance(a, ast.Call) else []
                ok, node = False, st
                bad = (f"on a {'periodic' if per else 'clamped'} general space `{src(st)[:60]}` stores the integrals whenever `{src(t)[:90]}` "
                       f"holds, instead of the antiderivative formula: `{src(a)[:70]}` is an approximate comparison"
                       + (" with numpy's default tolerances (absolute 1e-8, relative 1e-5, not scaled to the cell width)"
                          if isinstance(a, ast.Call) and "atol" not in kw and "rtol" not in kw and "close" in src(a.func) else "") +
                       ", so break points that are NOT equidistant but pass it (small domains, slightly perturbed grids) get the integrals "
                       "of a uniform grid: the stored integrals are not those of the basis functions and the quadrature weights do not "
                       "integrate the interpolant")
            elif ok:
                ok, node = None, st
                why = (f"`{src(st)[:60]}` stores integrals of a general space only when `{src(t)[:60]}` is {pol}: which formula a space gets "
                       "depends on a test of its data that is not followed")
    chk.ob("Q3-general-one-formula", node, "general family: the integrals come from the same statements on every path", ok,
           "no store into the integrals of a general space is selected by a test of the knots or break points" if ok else (bad or why),
           file=U.SPLINES, func=BI)


def integrals_not_memoised_on_summary(chk):
    """the stored integrals are a function of ALL break points: a memo table may not be keyed on a summary of them"""
    fn = chk.func(U.SPLINES, BI)
    hits, vague = [], []
    for n in ast.walk(fn):
        if isinstance(n, ast.If) and isinstance(n.test, ast.Compare) and len(n.test.ops) == 1 and isinstance(n.test.ops[0], (ast.In, ast.NotIn)):
            # a table looked up by a key: the integrals are taken from it on one arm
            arm = n.body if isinstance(n.test.ops[0], ast.In) else n.orelse
            table = src(n.test.comparators[0])
            takes = [x for st in arm for x in ast.walk(st) if isinstance(x, ast.Subscript) and src(x.value) == table] or \
                [x for x in ast.walk(fn) if isinstance(x, ast.Subscript) and src(x.value) == table and isinstance(x.ctx, ast.Load)]
            if not takes:
                continue
            key = n.test.left
            # ASSUMPTION of VIOLATED: the whole key is seen.  Names in it are replaced by their (single) definitions, repeatedly; a name
            # of the key that is defined more than once or not by a plain assignment leaves the key unknown (`unresolved`).
            unresolved = False
            for _round in range(4):
                names_ = {x.id for x in ast.walk(key) if isinstance(x, ast.Name) and isinstance(x.ctx, ast.Load)}
                env_ = {}
                for nm in names_:
                    d = [a for a in ast.walk(fn) if isinstance(a, (ast.Assign, ast.AugAssign, ast.For, ast.With)) and
                         any(isinstance(y, ast.Name) and y.id == nm and isinstance(y.ctx, ast.Store) for y in ast.walk(a))]
                    if not d:
                        continue
                    if len(d) == 1 and isinstance(d[0], ast.Assign) and len(d[0].targets) == 1 and isinstance(d[0].targets[0], ast.Name):
                        env_[nm] = d[0].value
                    else:
                        unresolved = True
                if not env_:
                    break
                from .C07 import _Sub, clone as _clone
                key = _Sub(env_).visit(_clone(key))
            # local names of the key that stand for the break points / knots
            arrs = {}
            for a in ast.walk(fn):
                if isinstance(a, ast.Assign) and isinstance(a.targets[0], ast.Name) and src(a.value).split(".")[-1] in ("breaks", "knots", "_knots", "_breaks"):
                    arrs[a.targets[0].id] = src(a.value)
            def is_pts(e):
                s_ = src(e)
                return s_.split(".")[-1] in ("breaks", "knots", "_knots", "_breaks") or s_ in arrs
            # entries of the key that pick single elements of an array of break points / knots
            picks = [x for x in ast.walk(key) if isinstance(x, ast.Subscript) and isinstance(x.slice, (ast.Constant, ast.UnaryOp))
                     and is_pts(x.value)]
            whole = [x for x in ast.walk(key) if (isinstance(x, ast.Call) and src(x.func) in ("tuple", "bytes") and x.args and is_pts(x.args[0])) or
                     (isinstance(x, ast.Call) and isinstance(x.func, ast.Attribute) and x.func.attr in ("tobytes", "tostring") and is_pts(x.func.value))]
            hashed = [x for x in ast.walk(key) if isinstance(x, ast.Call) and src(x.func).split(".")[-1] in ("hash", "sha1", "md5", "sha256", "crc32", "id")]
            if unresolved or (hashed and not whole):
                picks, whole = [], []           # the key is not fully seen / digests something that is not followed: not decided
                vague.append(n)
            hits.append((n, key, picks, whole))
    bad = [(n, key, picks) for n, key, picks, whole in hits if picks and not whole]
    chk.ob("Q3-integrals-not-memoised", bad[0][0] if bad else fn, "no memo table keyed on a summary of the break points",
           (not bad) if (not hits or bad or all(w for _, _, _, w in hits)) else None,
           "the integrals are computed from the knots of this very space" if not bad else
           f"the integrals are taken from a table keyed on `{src(bad[0][1])[:90]}`: the key holds only {[src(p_) for p_ in bad[0][2]]} of the "
           "break points, so a non-uniform space built after another one with the same ends, first cell and cell count receives that "
           "other space's integrals and its quadrature weights no longer integrate its splines",
           file=U.SPLINES, func=BI, nontrivial=False)


def run(chk):
    chk.explanation = (
        "Narrow mechanism claim: quadrature weights are the transposed solve, with the interpolation factorisation, of the stored "
        "basis integrals (periodic: integrals of the wrapped copies folded onto the first p entries of a copy); the stored integrals "
        "are not mutated; the matrix of that system is the collocation matrix with accumulating wrapped columns (analysis shared "
        "with C08); on a general space no test of the knots selects another formula for the integrals; uniform-cubic interior integrals are dx and the auxiliary construction of the boundary integrals is "
        "translation invariant; boundary integrals of the clamped uniform cubic case are reduced (not assigned) at both ends; the "
        "general branch integrates every unwrapped function, wrapped copies included, by one formula. Each method is read as the "
        "straight-line code it is on one kind of space (branches on periodicity / family resolved, attribute aliases and private "
        "helper methods written back). The antiderivative identity itself is numerical and is not re-derived.")
    chk.in_file(U.INTERP)
    weights_mechanism(chk)
    # the matrix whose transposed system the weights solve is the collocation matrix (shared with C08: same analysis, read here because
    # weights = A^{-T} I integrate the interpolant only if A holds B_j(x_i), the sum of both contributions where a periodic function
    # occurs twice in a span)
    from .C08 import collocation_fill
    collocation_fill(chk, chk.func(U.INTERP, "SplineInterpolator1D.collocation_matrix"),
                     rules=("Q1-collocation-columns", "Q1-collocation-accumulate"))
    uniform_cubic_integrals(chk)
    integrals_not_memoised_on_summary(chk)
    chk.floor("Q", 9)
