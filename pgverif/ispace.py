"""Engine C: index-space and window typing (DESIGN 4.2).

Abstract interpretation of the grid-level operators with a domain of *index-space
tags*: an integer is a local or a global index along a physical dimension, a layout
axis or a dimension number; an array carries one window per axis - Global(d),
Local(d), a prefix, a unit/stencil axis.  The rules:

  C-sort     starts/ends/shape/... are subscripted by layout axes, eta_grid/_Vals/...
             by dimensions; `X[starts[a]:ends[a]]` on a Global(d) table needs dim(a) == d
  C-window   a Global(d) axis is subscripted by a global index (a local one only when
             d is not distributed in the ambient layout), a Local(d) axis by a local one;
             a prefix `table[:n_local]` of a global table is not the local block
  C-same-index  one index value used for a Local(d) and a Global(d) axis of a distributed d
  C-slice-param a per-slice routine whose tables need the local index of a looped
             dimension gets that loop's index (not a default constant)

Only tags are computed; no array contents, no index arithmetic.
"""
from __future__ import annotations

import ast
from dataclasses import dataclass, field

from .core import src, AnalysisError, parent
from . import units as U

DIMNAMES = {0: "r", 1: "theta", 2: "z", 3: "v"}

# ---- tags (plain tuples)
OTHER = ("other",)
UNIT = ("1",)
STENCIL = ("S",)


def G(d):
    return ("G", d)


def L(d):
    return ("L", d)


def arr(windows, elem=None):
    return ("arr", tuple(windows), elem)


def is_arr(t):
    return isinstance(t, tuple) and len(t) == 3 and t[0] == "arr"


def wname(w):
    if w is None:
        return "?"
    if w[0] in ("G", "L", "P"):
        d = w[1]
        return {"G": "Global", "L": "Local", "P": "Prefix"}[w[0]] + "(" + (DIMNAMES.get(d, str(d)) if d is not None else "?") + ")"
    if w[0] == "Gm":
        return f"Global({DIMNAMES.get(w[1], w[1])})-{w[2]}"
    return {"1": "unit", "S": "stencil", "U": "uniform"}.get(w[0], str(w))


def tname(t):
    if not isinstance(t, tuple):
        return str(t)
    if t[0] in ("lidx", "gidx", "coord", "dim", "start", "end"):
        return f"{t[0]}({DIMNAMES.get(t[1], t[1])})"
    if t[0] == "arr":
        return "array[" + ", ".join(wname(w) for w in t[1]) + "]"
    return str(t)


@dataclass
class Ctx:
    """ambient layouts: variable name of a grid/layout -> (dims_order tuple or None, ndist or None)"""
    grids: dict = field(default_factory=dict)
    dist_dims: set | None = None          # dims distributed in the ambient layout; None = unknown (assume all may be)

    def distributed(self, d):
        if self.dist_dims is None:
            return True
        return d in self.dist_dims


class IS:
    """one function's abstract interpretation"""

    def __init__(self, chk, rel, q, fn: ast.FunctionDef, env: dict, ctx: Ctx, attrs: dict | None = None,
                 summaries: dict | None = None, rule_prefix="C"):
        self.chk, self.rel, self.q, self.fn = chk, rel, q, fn
        self.env = dict(env)
        self.ctx = ctx
        self.attrs = attrs if attrs is not None else {}      # self.X -> tag
        self.summaries = summaries or {}                     # method name -> {param: required tag}
        self.methods: dict = {}                              # same-class methods available for inlining
        self.obj_summaries: dict = {}                        # (class, method) -> summary, for receivers tagged ('obj', class)
        self.depth = 0
        self.param_req: dict[str, list] = {}                 # param -> [(tag, node, why)]
        self.params = {a.arg for a in fn.args.args}
        self.loopvars: list[tuple] = []                      # (name, tag) of enclosing loops
        self.node_tags: dict = {}                            # id(expr node) -> tag at its (last) evaluation
        self.sort_req: dict[str, list] = {}                  # param -> [(sort 'axis'|'dim', node)]
        self.nobs = 0

    # ------------------------------------------------------------------ reporting
    def ob(self, rule, node, ok, msg, construct=None):
        self.nobs += 1
        self.chk.ob(rule, node, construct or src(node)[:110], ok, msg, file=self.rel, func=self.q)

    # ------------------------------------------------------------------ expressions
    def ev(self, e):
        m = getattr(self, "ev_" + type(e).__name__, None)
        if m is None:
            for ch in ast.iter_child_nodes(e):
                if isinstance(ch, ast.expr):
                    self.ev(ch)
            return OTHER
        t = m(e)
        self.node_tags[id(e)] = t
        return t

    def ev_Constant(self, e):
        if isinstance(e.value, int) and not isinstance(e.value, bool):
            return ("lit", e.value)
        if e.value is None:
            return ("none",)
        return OTHER

    def ev_Name(self, e):
        return self.env.get(e.id, OTHER)

    def ev_Tuple(self, e):
        return [self.ev(x) for x in e.elts]

    ev_List = ev_Tuple

    def ev_ListComp(self, e):
        if len(e.generators) != 1:
            return OTHER
        g = e.generators[0]
        it = self.ev(g.iter)
        names = {n.id for n in ast.walk(g.target) if isinstance(n, ast.Name)}
        used = {n.id for n in ast.walk(e.elt) if isinstance(n, ast.Name)}
        w = None
        tags = OTHER
        if is_arr(it) and it[1]:
            w = it[1][0]
            tags = it[2] if it[2] is not None else OTHER
        elif isinstance(it, tuple) and it[0] == "iter":
            tags = it[1]
            t0 = tags if isinstance(tags, tuple) else (tags[0] if isinstance(tags, list) and tags else OTHER)
            if isinstance(t0, tuple) and t0[0] in ("gidx", "lidx"):
                w = (("G" if t0[0] == "gidx" else "L"), t0[1])
        elif isinstance(it, list):
            saved = dict(self.env)
            out = []
            for x in it:
                self.bind_loop(g.target, x)
                out.append(self.ev(e.elt))
            self.env = saved
            return out
        saved = dict(self.env)
        self.bind_loop(g.target, tags)
        el = self.ev(e.elt)
        self.env = saved
        if w is None:
            return OTHER
        if not (names & used):
            return arr((("U",),), None)
        return arr((w,), el if isinstance(el, tuple) and el and el[0] in ("coord", "gidx", "lidx") else None)

    def ev_Starred(self, e):
        return self.ev(e.value)

    def ev_UnaryOp(self, e):
        v = self.ev(e.operand)
        if is_arr(v):
            return arr(v[1], None)
        if isinstance(v, tuple) and v[0] == "lit" and isinstance(e.op, ast.USub):
            return ("lit", -v[1])
        return OTHER

    def ev_BinOp(self, e):
        a, b = self.ev(e.left), self.ev(e.right)
        if is_arr(a) or is_arr(b):
            return self.broadcast([a, b], e)
        # index arithmetic keeps the index space for +/- literals; start + lidx -> gidx
        if isinstance(a, tuple) and isinstance(b, tuple):
            if isinstance(e.op, (ast.Add, ast.Sub)):
                pair = {a[0], b[0]}
                if a[0] in ("lidx", "gidx") and b[0] in ("lit", "other") and b[0] == "lit":
                    return a
                if b[0] in ("lidx", "gidx") and a[0] == "lit" and isinstance(e.op, ast.Add):
                    return b
                if isinstance(e.op, ast.Add) and pair == {"lidx", "start"} and a[1] == b[1]:
                    return ("gidx", a[1])
                if isinstance(e.op, ast.Sub) and a[0] == "gidx" and b[0] == "start" and a[1] == b[1]:
                    return ("lidx", a[1])
                if isinstance(e.op, ast.Sub) and a[0] == "end" and b[0] == "start" and a[1] == b[1]:
                    return ("size", L(a[1]))
            if isinstance(e.op, ast.Mult) and {a[0], b[0]} == {"rank", "size"}:
                sz = a if a[0] == "size" else b
                if sz[1] and sz[1][0] in ("Lmax", "L"):
                    return ("wrongstart", sz[1][1])
            if isinstance(e.op, ast.Add) and a[0] == "wrongstart":
                return OTHER
        return OTHER

    def ev_Compare(self, e):
        self.ev(e.left)
        for c in e.comparators:
            self.ev(c)
        return OTHER

    def ev_BoolOp(self, e):
        for v in e.values:
            self.ev(v)
        return OTHER

    def ev_IfExp(self, e):
        self.ev(e.test)
        a, b = self.ev(e.body), self.ev(e.orelse)
        return a if a == b else OTHER

    def ev_Attribute(self, e):
        if isinstance(e.value, ast.Name) and e.value.id == "self":
            return self.attrs.get(e.attr, ("selfattr", e.attr))
        base = self.ev(e.value)
        a = e.attr
        if isinstance(base, tuple):
            if base[0] == "arr":
                if a == "size" and len(base[1]) == 1:
                    return ("size", base[1][0])
                if a == "shape":
                    return [("size", w) for w in base[1]]
                if a in ("T",):
                    return arr(tuple(reversed(base[1])), base[2])
                if a in ("real", "imag", "flat"):
                    return base
                return OTHER
            if base[0] == "grid" and a == "eta_grid":
                n = len(base[1]) if base[1] is not None else 4
                return DimList(eta_grid_tag()[:n])
            if base[0] in ("layout", "grid"):
                return (base[0] + "." + a, base)
            if base[0] == "constants":
                if a == "npts":
                    return DimList([("size", G(d)) for d in range(4)])
                return OTHER
        return OTHER

    def layout_axis_to_dim(self, lay, a):
        """dimension carried by axis tag `a` of layout `lay`"""
        order = lay[1]
        if isinstance(a, tuple) and a[0] == "param":
            return ("dim_of_axis", a[1])
        if isinstance(a, tuple) and a[0] == "axis" and isinstance(a[1], str):
            return ("dim_of_axis", a[1])
        if isinstance(a, tuple):
            if a[0] == "axis_of":
                return a[1]
            if a[0] == "lit":
                if order is not None and -len(order) <= a[1] < len(order):
                    return order[a[1]]
                return ("dim_at", a[1])
            if a[0] == "axis":
                if order is not None and isinstance(a[1], int):
                    return order[a[1]]
                return ("dim_at", a[1])
        return None

    def ev_Subscript(self, e):
        base = self.ev(e.value)
        # layout tables
        if isinstance(base, tuple) and isinstance(base[0], str) and base[0].startswith(("layout.", "grid.")):
            kind, attr = base[0].split(".", 1)
            lay = base[1]
            idx = self.ev(e.slice) if not isinstance(e.slice, ast.Slice) else None
            if attr in ("starts", "ends", "shape", "max_block_shape", "nprocs", "fullShape", "ranks"):
                if isinstance(e.slice, ast.Slice):
                    return OTHER
                # C-sort: axis lists are subscripted by axes
                if isinstance(idx, tuple) and idx[0] in ("dim", "dim_at_value"):
                    self.ob("C-sort", e, False, f"`{src(e.value)}` is ordered by layout axis but is subscripted by the "
                            f"dimension number `{src(e.slice)}` (use inv_dims_order to get the axis)")
                    return OTHER
                d = self.layout_axis_to_dim(lay, idx)
                if isinstance(idx, tuple) and idx[0] in ("lit", "axis", "axis_of"):
                    self.ob("C-sort", e, True, f"`{src(e.value)}` subscripted by a layout axis", construct=src(e))
                if isinstance(idx, tuple) and idx[0] == "param":
                    self.sort_req.setdefault(idx[1], []).append(("axis", e))
                if isinstance(idx, tuple) and idx[0] == "dim_of_axis":
                    self.ob("C-sort", e, False, f"`{src(e.value)}` is ordered by layout axis but is subscripted by `{src(e.slice)}`, "
                            "which is a dimension number (dims_order[...] of an axis)")
                    return OTHER
                if d is None or (isinstance(d, tuple) and d[0] != "dim_of_axis"):
                    return OTHER
                if attr == "ranks":
                    return ("rank", d)
                return {"starts": ("start", d), "ends": ("end", d), "shape": ("size", L(d)),
                        "max_block_shape": ("size", ("Lmax", d)), "fullShape": ("size", G(d)),
                        "nprocs": OTHER}[attr]
            if attr == "dims_order":
                if isinstance(e.slice, ast.Slice):
                    return OTHER
                if isinstance(idx, tuple) and idx[0] == "dim":
                    # a dimension number used where an axis is expected
                    return ("dim_at_value", idx[1])
                if isinstance(idx, tuple) and idx[0] in ("lit", "axis"):
                    d = self.layout_axis_to_dim(lay, idx)
                    if isinstance(d, int):
                        return ("dim", d)
                    if isinstance(d, tuple) and d[0] == "dim_of_axis":
                        return ("dim", d)
                    return ("dim_at_value", idx[1])
                if isinstance(idx, tuple) and idx[0] == "param":
                    self.sort_req.setdefault(idx[1], []).append(("axis", e))
                    return ("dim", ("dim_of_axis", idx[1]))
                return OTHER
            if attr == "inv_dims_order":
                if isinstance(idx, tuple) and idx[0] == "param":
                    self.sort_req.setdefault(idx[1], []).append(("dim", e))
                    return ("axis_of", ("param", idx[1]))
                if isinstance(idx, tuple) and idx[0] in ("lit", "dim"):
                    d = idx[1]
                    order = lay[1]
                    if order is not None and d in order:
                        return ("axis", order.index(d))
                    return ("axis_of", d)
                return OTHER
            return OTHER
        # DimLists: python lists of tags
        if isinstance(base, list):
            if isinstance(e.slice, ast.Slice):
                lo = self.ev(e.slice.lower) if e.slice.lower else ("lit", None)
                hi = self.ev(e.slice.upper) if e.slice.upper else ("lit", None)
                st = self.ev(e.slice.step) if e.slice.step else ("lit", None)
                if all(isinstance(x, tuple) and x[0] == "lit" for x in (lo, hi, st)):
                    return base[slice(lo[1], hi[1], st[1])]
                return OTHER
            idx = self.ev(e.slice)
            if isinstance(idx, tuple) and idx[0] in ("lit", "dim") and isinstance(idx[1], int) and -len(base) <= idx[1] < len(base):
                return base[idx[1]]
            if isinstance(idx, tuple) and idx[0] == "param" and isinstance(base, DimList):
                self.sort_req.setdefault(idx[1], []).append(("dim", e))
                d = ("param", idx[1])
                return retag(base[0], d) if base else OTHER
            if isinstance(idx, tuple) and idx[0] == "dim" and isinstance(idx[1], tuple) and isinstance(base, DimList):
                self.ob("C-sort", e, True, f"`{src(e.value)}` (ordered by dimension) subscripted by a dimension number", construct=src(e))
                return retag(base[0], idx[1]) if base else OTHER
            if isinstance(idx, tuple) and idx[0] in ("axis", "axis_of") and isinstance(base, DimList):
                self.ob("C-sort", e, False, f"`{src(e.value)}` is ordered by dimension but is subscripted by a layout axis `{src(e.slice)}`")
            return OTHER
        if is_arr(base):
            return self.index_array(base, e)
        if isinstance(base, tuple) and base[0] == "selfattr":
            self.ev(e.slice) if not isinstance(e.slice, ast.Slice) else None
            return OTHER
        if not isinstance(e.slice, ast.Slice):
            self.ev(e.slice)
        return OTHER

    def index_array(self, base, e):
        wins = list(base[1])
        sl = e.slice
        items = sl.elts if isinstance(sl, ast.Tuple) else [sl]
        out = []
        k = 0
        for it in items:
            if isinstance(it, ast.Constant) and it.value is None:
                out.append(UNIT)
                continue
            if k >= len(wins):
                return OTHER
            w = wins[k]
            if isinstance(it, ast.Slice):
                if it.lower is None and it.upper is None:
                    out.append(w)
                else:
                    out.append(self.slice_window(w, it, e))
                k += 1
                continue
            t = self.ev(it)
            if is_arr(t):
                # fancy indexing by an index array
                el = t[2]
                if el is not None and el[0] in ("gidx", "lidx"):
                    self.check_index(w, el, e, it)
                    out.append(L(el[1]) if t[1] and t[1][0][0] == "L" else t[1][0] if t[1] else w)
                else:
                    out.append(OTHER)
                k += 1
                continue
            self.check_index(w, t, e, it)
            k += 1
        out.extend(wins[k:])
        if not out:
            return base[2] if base[2] is not None else OTHER
        return arr(out, base[2])

    def slice_window(self, w, it: ast.Slice, e):
        lo = self.ev(it.lower) if it.lower is not None else None
        hi = self.ev(it.upper) if it.upper is not None else None
        if w is not None and w[0] == "G":
            d = w[1]
            if lo is not None and hi is not None and isinstance(lo, tuple) and isinstance(hi, tuple) \
                    and lo[0] == "start" and hi[0] == "end":
                ok = lo[1] == hi[1] == d or d is None
                self.ob("C-window", e, ok, f"{wname(w)} table cut to the local block [start:end) of "
                        f"{DIMNAMES.get(lo[1], lo[1])}/{DIMNAMES.get(hi[1], hi[1])}" +
                        ("" if ok else " - start/end belong to a different dimension than the table"))
                return L(d if d is not None else lo[1]) if ok else OTHER
            if lo is None and hi is not None and isinstance(hi, tuple) and hi[0] == "size" and hi[1] and hi[1][0] in ("L", "Lmax"):
                self.ob("C-window", e, False, f"{wname(w)} table cut to its first n_local entries: these are the entries of the "
                        "first block, not of this process's block (must be [start:end))")
                return ("P", d)
            if (lo is not None and isinstance(lo, tuple) and lo[0] in ("start", "end")) or \
                    (hi is not None and isinstance(hi, tuple) and hi[0] in ("start", "end")):
                self.ob("C-window", e, False, f"{wname(w)} table cut by a mixed/partial local range `{src(it)}`")
                return OTHER
        if w is not None and w[0] in ("G", "Gm") and all(x is None or (isinstance(x, tuple) and x[0] == "lit") for x in (lo, hi)):
            k = w[2] if w[0] == "Gm" else 0
            return ("Gm", w[1], k + 1)
        if w is not None and w[0] == "G" and lo is not None and isinstance(lo, tuple) and lo[0] == "wrongstart":
            self.ob("C-window", e, False, f"{wname(w)} table cut from `rank x max block length`: that is not the global start of "
                    "this process's block when the blocks are uneven (use starts/ends or getGlobalIdxVals)")
            return ("P", w[1])
        return w if (lo is None and hi is None) else STENCIL

    def check_index(self, w, t, e, it):
        if w is None or not isinstance(t, tuple):
            return
        if w[0] in ("G", "L", "P") and t[0] in ("lidx", "gidx"):
            d = w[1]
            td = t[1]
            if d is not None and td is not None and isinstance(td, int) and isinstance(d, int) and td != d:
                self.ob("C-window", e, False, f"axis {wname(w)} of `{src(e.value)}` is subscripted by `{src(it)}`, an index along "
                        f"{DIMNAMES.get(td, td)}")
                return
            dd = d if d is not None else td
            if w[0] == "G" and t[0] == "lidx":
                ok = not self.ctx.distributed(dd)
                self.ob("C-window", e, ok, f"axis {wname(w)} of `{src(e.value)}` is subscripted by the local index `{src(it)}`" +
                        (f" ({DIMNAMES.get(dd, dd)} is not distributed in this layout)" if ok else
                         f" while {DIMNAMES.get(dd, dd)} is distributed in this layout: rows of another process's block are used"))
            elif w[0] == "L" and t[0] == "gidx":
                ok = not self.ctx.distributed(dd)
                self.ob("C-window", e, ok, f"axis {wname(w)} of `{src(e.value)}` is subscripted by the global index `{src(it)}`" +
                        ("" if ok else f" while {DIMNAMES.get(dd, dd)} is distributed"))
            elif w[0] == "P":
                self.ob("C-window", e, False, f"axis {wname(w)} of `{src(e.value)}` (a prefix of a global table) is used as a local table")
            else:
                self.ob("C-window", e, True, f"axis {wname(w)} of `{src(e.value)}` subscripted by {tname(t)}")
        elif w[0] in ("G", "L") and t[0] == "param":
            self.param_req.setdefault(t[1], []).append((("gidx" if w[0] == "G" else "lidx", w[1]), e,
                                                        f"subscripts axis {wname(w)} of `{src(e.value)}`"))

    def broadcast(self, vals, node):
        arrs = [v for v in vals if is_arr(v)]
        n = max(len(a[1]) for a in arrs)
        out = []
        for k in range(1, n + 1):
            ws = [a[1][-k] for a in arrs if len(a[1]) >= k]
            ws2 = [w for w in ws if w is not None and w != UNIT]
            w = ws2[0] if ws2 else UNIT
            for w2 in ws2[1:]:
                if w2 != w and w[0] in ("G", "L", "P") and w2[0] in ("G", "L", "P"):
                    same_dim = w[1] == w2[1] or w[1] is None or w2[1] is None
                    d = w[1] if w[1] is not None else w2[1]
                    if not same_dim or ({w[0], w2[0]} != {"G", "L"} or self.ctx.distributed(d)):
                        self.ob("C-window", node, False, f"element-wise combination of axes {wname(w)} and {wname(w2)}: the "
                                "operands cover different index ranges (lengths may agree, rows do not correspond)")
            out.append(w)
        return arr(tuple(reversed(out)), None)

    def ev_Call(self, e):
        f = e.func
        name = f.attr if isinstance(f, ast.Attribute) else f.id if isinstance(f, ast.Name) else ""
        recv = self.ev(f.value) if isinstance(f, ast.Attribute) and not (isinstance(f.value, ast.Name) and f.value.id in ("np", "numpy", "math")) else None
        args = [self.ev(a) for a in e.args]
        kw = {k.arg: self.ev(k.value) for k in e.keywords}
        isnp = isinstance(f, ast.Attribute) and isinstance(f.value, ast.Name) and f.value.id in ("np", "numpy")
        # ---- grid accessors
        if isinstance(recv, tuple) and recv[0] == "grid":
            order, ndist = recv[1], recv[2]

            def dim_of(a):
                if isinstance(a, tuple) and a[0] == "lit" and order is not None and -len(order) <= a[1] < len(order):
                    return order[a[1]]
                return None
            if name == "getCoords" and args:
                d = dim_of(args[0])
                return ("iter", [("lidx", d), ("coord", d)])
            if name == "getCoordVals" and args:
                d = dim_of(args[0])
                return arr((L(d),), ("coord", d))
            if name == "getGlobalIdxVals" and args:
                d = dim_of(args[0])
                return arr((L(d),), ("gidx", d))
            if name in ("get2DSlice", "get1DSlice"):
                nd = len(order) if order is not None else None
                keep = 2 if name == "get2DSlice" else 1
                for k, a in enumerate(args):
                    want = order[k] if order is not None and k < len(order) else None
                    if isinstance(a, tuple) and a[0] in ("lidx", "gidx") and want is not None:
                        ok = a == ("lidx", want) or (a == ("gidx", want) and not self.ctx.distributed(want))
                        self.ob("C-window", e, ok, f"slice selector {k} of `{src(e)[:50]}` must be the local index along "
                                f"{DIMNAMES.get(want, want)}, got {tname(a)}", construct=src(e)[:80] + f" [selector {k}]")
                    elif isinstance(a, tuple) and a[0] == "param":
                        self.param_req.setdefault(a[1], []).append((("lidx", want), e, f"selects the slice in `{src(e)[:40]}`"))
                if order is not None:
                    return arr(tuple(G(d) for d in order[-keep:]), None)
                return OTHER
            if name == "getAllData":
                if order is not None:
                    nd_ = ndist if ndist is not None else 2
                    return arr(tuple(L(d) if k < nd_ else G(d) for k, d in enumerate(order)), None)
                return OTHER
            if name == "getLayout":
                # getLayout(grid.currentLayout) -> ambient layout; getLayout('name') -> named
                if e.args and isinstance(e.args[0], ast.Constant) and isinstance(e.args[0].value, str):
                    o = LAYOUT_ORDERS.get(e.args[0].value)
                    return ("layout", o, None)
                return ("layout", order, ndist)
            if name in ("getSpline", "get2DSpline", "get1DSpline"):
                return OTHER
            return OTHER
        if isinstance(recv, tuple) and recv[0] == "layout" and name in ("mpi_starts", "mpi_lengths"):
            return OTHER
        # ---- builtins
        if name == "enumerate" and args:
            a = args[0]
            if is_arr(a) and a[1]:
                w = a[1][0]
                it = ("gidx", w[1]) if w and w[0] == "G" else ("lidx", w[1]) if w and w[0] == "L" else OTHER
                el = a[2] if len(a[1]) == 1 and a[2] is not None else (arr(a[1][1:], a[2]) if len(a[1]) > 1 else OTHER)
                return ("iter", [it, el])
            if isinstance(a, tuple) and a[0] == "iter":
                return ("iter", [OTHER, a[1]])
            if isinstance(a, list):
                return ("iter", [OTHER, OTHER])
            return ("iter", [OTHER, OTHER])
        if name == "range" and args:
            hi = args[-1] if len(args) <= 2 else args[1]
            if isinstance(hi, tuple) and hi[0] == "size" and hi[1] and hi[1][0] in ("G", "L"):
                return ("iter", ("gidx" if hi[1][0] == "G" else "lidx", hi[1][1]))
            return ("iter", OTHER)
        if name == "zip":
            els = []
            for a in args:
                if isinstance(a, tuple) and a[0] == "iter":
                    els.append(a[1])
                elif is_arr(a):
                    els.append(a[2] if a[2] is not None else OTHER)
                else:
                    els.append(OTHER)
            return ("iter", els)
        if name == "len" and args:
            a = args[0]
            if is_arr(a) and a[1]:
                return ("size", a[1][0])
            return OTHER
        if name in ("float", "int", "abs"):
            return args[0] if args and isinstance(args[0], tuple) and args[0][0] in ("coord", "lidx", "gidx") else OTHER
        # ---- numpy
        if isnp or (isinstance(f, ast.Name) and name in ("empty", "zeros", "ones", "ndarray")):
            if name in ("empty", "zeros", "ones", "ndarray", "full") and args:
                shp = args[0]
                if isinstance(shp, list):
                    return arr(tuple(s[1] if isinstance(s, tuple) and s[0] == "size" else
                                     (UNIT if s == ("lit", 1) else STENCIL) for s in shp), None)
                if isinstance(shp, tuple) and shp[0] == "size":
                    return arr((shp[1],), None)
                if isinstance(shp, tuple) and shp[0] in ("selfattr",):
                    return OTHER
                return arr((STENCIL,), None)
            if name == "array" and e.args and isinstance(e.args[0], ast.List):
                elts = e.args[0].elts
                stars = [x for x in elts if isinstance(x, ast.Starred)]
                if len(stars) == 1:
                    mid = self.ev(stars[0].value)
                    if is_arr(mid) and mid[1] and mid[1][0] and mid[1][0][0] == "Gm" and len(elts) - 1 == mid[1][0][2]:
                        return arr((G(mid[1][0][1]),), None)
                return arr((STENCIL,), None)
            if name in ("real", "imag", "sqrt", "exp", "floor", "abs", "cos", "sin", "mod", "tanh", "conj", "full_like",
                        "empty_like", "zeros_like", "atleast_1d", "array", "asarray"):
                if args and is_arr(args[0]):
                    more = [a for a in args[1:] if is_arr(a)]
                    return self.broadcast([args[0]] + more, e) if more else arr(args[0][1], args[0][2] if name in ("real", "atleast_1d", "array", "asarray") else None)
                return OTHER
            if name in ("prod", "sum", "amin", "amax", "min", "max") and args and is_arr(args[0]):
                ax = kw.get("axis")
                if ax is None and len(e.args) > 1:
                    ax = args[1]
                if isinstance(ax, tuple) and ax[0] == "lit":
                    ws = list(args[0][1])
                    if -len(ws) <= ax[1] < len(ws):
                        del ws[ax[1]]
                    return arr(ws, None)
                return OTHER
            if name == "where":
                arrs = [a for a in args if is_arr(a)]
                return self.broadcast(arrs, e) if arrs else OTHER
            if name in ("arange", "linspace", "eye", "fft.fftfreq", "fftfreq"):
                if name == "fftfreq" and args and isinstance(args[0], tuple) and args[0][0] == "size":
                    return arr((args[0][1],), None)
                if name == "fftfreq":
                    return arr((("G", None),), None)
                if name == "arange" and len(args) == 1 and isinstance(args[0], tuple) and args[0][0] == "size":
                    return arr((args[0][1],), None)
                return arr((STENCIL,) * (2 if name == "eye" else 1), None)
            if name == "atleast_2d" and args and is_arr(args[0]):
                return arr((UNIT,) + tuple(args[0][1]), args[0][2])
            arrs = [a for a in args if is_arr(a)]
            return self.broadcast(arrs, e) if arrs else OTHER
        if isinstance(f, ast.Attribute) and src(f.value) == "np.fft" and name == "fftfreq":
            if args and isinstance(args[0], tuple) and args[0][0] == "size":
                return arr((args[0][1],), None)
            return arr((("G", None),), None)
        # array methods
        if is_arr(recv):
            if name in ("flatten", "copy", "conj", "astype"):
                return recv
            if name in ("min", "max", "sum"):
                return OTHER
            return OTHER
        # calls of repo functions with elementwise semantics (constants.iota(r))
        if name == "iota" and args and is_arr(args[0]):
            return arr(args[0][1], None)
        # method summaries: self.step(...)
        if isinstance(f, ast.Attribute) and isinstance(f.value, ast.Name) and f.value.id == "self" and name in self.summaries:
            self.check_call_against_summary(e, name, args, kw)
            return OTHER
        if isinstance(recv, tuple) and recv[0] == "obj" and (recv[1], name) in self.obj_summaries:
            self.check_call_against_summary(e, name, args, kw, self.obj_summaries[(recv[1], name)])
            return OTHER
        if isinstance(f, ast.Attribute) and isinstance(f.value, ast.Name) and f.value.id == "self" and name in self.methods \
                and self.depth < 3:
            m = self.methods[name]
            ps = [a.arg for a in m.args.args if a.arg != "self"]
            env = {}
            for p_, a_ in zip(ps, args):
                env[p_] = a_
            for k_, v_ in kw.items():
                env[k_] = v_
            sub = IS(self.chk, self.rel, self.q.split(".")[0] + "." + name, m, env, self.ctx, self.attrs, self.summaries)
            sub.methods = self.methods
            sub.depth = self.depth + 1
            sub.run()
            self.nobs += sub.nobs
            self.chk.functions.add(f"{self.rel}:{sub.q}")
            return getattr(sub, "ret", OTHER)
        if isinstance(recv, tuple) and recv[0] == "grid" and name == "getSpline":
            return OTHER
        return OTHER

    def check_call_against_summary(self, e, name, args, kw, summ=None):
        summ = summ or self.summaries[name]            # {"params": [names], "req": {param: tag}}
        params = summ["params"]
        bound = {}
        for p, a in zip(params, args):
            bound[p] = a
        for k, v in kw.items():
            bound[k] = v
        for p, want in summ["req"].items():
            got = bound.get(p)
            if got is None:
                # default used: is a loop over that dimension active?
                active = [n for n, t in self.loopvars if isinstance(t, tuple) and t[0] in ("lidx", "gidx") and t[1] == want[1]]
                if active:
                    self.ob("C-slice-param", e, False,
                            f"`{name}` looks up per-{DIMNAMES.get(want[1], want[1])} tables with parameter `{p}` ({tname(want)}); the call is "
                            f"inside the loop over `{active[0]}` along {DIMNAMES.get(want[1], want[1])} and selects its slice with it, but "
                            f"`{p}` keeps its default: every {DIMNAMES.get(want[1], want[1])} uses the tables of local index 0",
                            construct=src(e)[:90] + f" [{p}]")
                else:
                    self.ob("C-slice-param", e, True, f"`{p}` of `{name}` left at its default outside any loop over that dimension",
                            construct=src(e)[:90] + f" [{p}]")
                continue
            if isinstance(got, tuple) and got[0] in ("lidx", "gidx"):
                ok = got == want or (got[1] == want[1] and not self.ctx.distributed(want[1]))
                self.ob("C-slice-param", e, ok, f"`{p}` of `{name}` needs {tname(want)}; the call passes {tname(got)}",
                        construct=src(e)[:90] + f" [{p}]")
            elif isinstance(got, tuple) and got[0] == "param":
                self.param_req.setdefault(got[1], []).append((want, e, f"passed as `{p}` to `{name}`"))

    # ------------------------------------------------------------------ statements
    def run(self):
        self.block(self.fn.body)
        self.finish_params()
        return self

    def finish_params(self):
        """C-same-index: one parameter must not be required in two index spaces"""
        for p, reqs in self.sort_req.items():
            kinds = {k for k, _ in reqs}
            if kinds == {"axis", "dim"}:
                a = [n for k, n in reqs if k == "axis"][0]
                d = [n for k, n in reqs if k == "dim"][0]
                self.ob("C-sort", d, False, f"parameter `{p}` is used as a layout axis in `{src(a)[:50]}` and as a dimension number in "
                        f"`{src(d)[:50]}`: the two only coincide for the identity ordering", construct=f"{p}: {src(a)[:40]} / {src(d)[:40]}")
            else:
                n = reqs[0][1]
                self.ob("C-sort", n, True, f"parameter `{p}` is consistently a {'layout axis' if 'axis' in kinds else 'dimension number'}",
                        construct=f"{p}: {sorted(kinds)}")
        for p, reqs in self.param_req.items():
            tags = {}
            for t, node, why in reqs:
                tags.setdefault(t, []).append((node, why))
            kinds = {t for t in tags}
            by_dim = {}
            for t in kinds:
                by_dim.setdefault(t[1], set()).add(t[0])
            for d, ks in by_dim.items():
                if ks == {"lidx", "gidx"} and self.ctx.distributed(d if d is not None else 0):
                    a = tags[("lidx", d)][0]
                    b = tags[("gidx", d)][0]
                    self.ob("C-same-index", a[0], False,
                            f"parameter `{p}` {a[1]} (a local index) and also {b[1]} (a global index): for a distributed "
                            f"{DIMNAMES.get(d, d)} one of the two tables is read at another process's rows",
                            construct=f"{p}: {src(a[0])[:40]} / {src(b[0])[:40]}")
                elif len(ks) == 1:
                    pass

    def block(self, stmts):
        for st in stmts:
            self.stmt(st)

    def stmt(self, st):
        if isinstance(st, ast.Assign):
            v = self.ev(st.value)
            for t in st.targets:
                self.assign(t, v, st)
        elif isinstance(st, ast.AugAssign):
            v = self.ev(st.value)
            cur = self.ev(st.target)
            if is_arr(cur) and is_arr(v):
                self.broadcast([cur, v], st)
        elif isinstance(st, ast.AnnAssign) and st.value is not None:
            self.assign(st.target, self.ev(st.value), st)
        elif isinstance(st, ast.Expr):
            self.ev(st.value)
        elif isinstance(st, ast.For):
            it = self.ev(st.iter)
            tags = OTHER
            if isinstance(it, tuple) and it[0] == "iter":
                tags = it[1]
            elif is_arr(it):
                tags = it[2] if it[2] is not None and len(it[1]) == 1 else OTHER
            names = self.bind_loop(st.target, tags)
            self.loopvars.extend(names)
            self.block(st.body)
            for _ in names:
                self.loopvars.pop()
            self.block(st.orelse)
        elif isinstance(st, ast.While):
            self.ev(st.test)
            self.block(st.body)
        elif isinstance(st, ast.If):
            self.ev(st.test)
            env0 = dict(self.env)
            self.block(st.body)
            env1 = self.env
            self.env = dict(env0)
            self.block(st.orelse)
            env2 = self.env
            out = {}
            for k in set(env1) | set(env2):
                a, b = env1.get(k, OTHER), env2.get(k, OTHER)
                out[k] = a if a == b else (a if b == OTHER and k not in env2 else b if a == OTHER and k not in env1 else OTHER)
            self.env = out
        elif isinstance(st, ast.With):
            for it in st.items:
                self.ev(it.context_expr)
            self.block(st.body)
        elif isinstance(st, ast.Return):
            if st.value is not None:
                self.ret = self.ev(st.value)
        elif isinstance(st, ast.Assert):
            self.ev(st.test)
        elif isinstance(st, (ast.Try,)):
            self.block(st.body)

    def bind_loop(self, target, tags):
        names = []
        if isinstance(target, ast.Name):
            t = tags if isinstance(tags, tuple) else OTHER
            self.env[target.id] = t
            names.append((target.id, t))
        elif isinstance(target, ast.Tuple):
            lst = tags if isinstance(tags, list) else [OTHER] * len(target.elts)
            for e, t in zip(target.elts, lst + [OTHER] * len(target.elts)):
                names.extend(self.bind_loop(e, t))
        return names

    def assign(self, t, v, st):
        if isinstance(t, ast.Name):
            self.env[t.id] = v
        elif isinstance(t, ast.Tuple):
            if isinstance(v, list) and len(v) == len(t.elts):
                for e, x in zip(t.elts, v):
                    self.assign(e, x, st)
            else:
                for e in t.elts:
                    self.assign(e, OTHER, st)
        elif isinstance(t, ast.Attribute) and isinstance(t.value, ast.Name) and t.value.id == "self":
            self.attrs[t.attr] = v
        elif isinstance(t, ast.Subscript):
            tv = self.ev(t)      # performs the index checks on the target
            if is_arr(tv) and is_arr(v):
                self.broadcast([tv, v], st)
            # stores through a [:] into an attribute created by np.ndarray keep the attribute's windows


def retag(t, d):
    """the tag of DimList element 0 re-labelled for dimension d"""
    if is_arr(t):
        return arr(tuple((w[0], d) if w and w[0] in ("G", "L") else w for w in t[1]),
                   (t[2][0], d) if t[2] is not None else None)
    if isinstance(t, tuple) and t[0] == "size" and t[1]:
        return ("size", (t[1][0], d))
    return OTHER


# names of standard layouts -> dims_order (filled from the literal dictionaries of setups.py / fullSimulation.py)
LAYOUT_ORDERS: dict[str, tuple] = {}
LAYOUT_NDIST: dict[str, int] = {}


def load_layout_tables(chk):
    """read the literal layout dictionaries of setups.py and fullSimulation.py"""
    LAYOUT_ORDERS.clear()
    LAYOUT_NDIST.clear()
    smod = chk.mod(U.SETUPS)
    dmod = chk.mod(U.DRIVER)
    found = 0
    for mod, fnames in ((smod, ("setupCylindricalGrid", "setupFromFile")), (dmod, ("main",))):
        for q in fnames:
            fn = mod.func(q)
            for n in ast.walk(fn):
                if isinstance(n, ast.Assign) and isinstance(n.value, ast.Dict) and isinstance(n.targets[0], ast.Name) \
                        and n.targets[0].id.startswith("layout"):
                    for k, v in zip(n.value.keys, n.value.values):
                        if isinstance(k, ast.Constant) and isinstance(v, (ast.List, ast.Tuple)):
                            o = tuple(x.value for x in v.elts if isinstance(x, ast.Constant))
                            key = (k.value, len(o))
                            if key in LAYOUT_ORDERS and LAYOUT_ORDERS[key] != o:
                                raise AnalysisError(f"layout `{k.value}` has two different orderings in the set-up code")
                            LAYOUT_ORDERS[key] = o
                            if k.value not in LAYOUT_ORDERS or len(o) == 4:
                                LAYOUT_ORDERS[k.value] = o
                            found += 1
    # number of distributed axes per layout group (driver: [nprocs, nprocs[0], nprocs[1]])
    for nm in ("flux_surface", "v_parallel", "poloidal", "v_parallel_2d", "mode_solve"):
        LAYOUT_NDIST[nm] = 2
    LAYOUT_NDIST["v_parallel_1d"] = 1
    # the 3-D 'poloidal' layout of phi is in a one-direction group, the 4-D one in the 2-D handler: same name,
    # resolved by the number of dimensions where it matters
    if found < 9:
        raise AnalysisError(f"only {found} literal layout entries found in setups.py/fullSimulation.py (9 confirmed by reading)")
    return LAYOUT_ORDERS


def dist_dims(order, ndist):
    return set(order[:ndist]) if order is not None and ndist is not None else None


def ambient_from_asserts(fn: ast.FunctionDef):
    """{grid param name: dims_order tuple} from `assert X.getLayout(X.currentLayout).dims_order == (...)`
    (directly or through a local), and relations `a.dims_order[1:] == b.dims_order`."""
    out = {}
    loc = {}
    for n in fn.body:
        if isinstance(n, ast.Assign) and isinstance(n.targets[0], ast.Name) and isinstance(n.value, ast.Call) \
                and isinstance(n.value.func, ast.Attribute) and n.value.func.attr == "getLayout" \
                and isinstance(n.value.func.value, ast.Name):
            a = n.value.args[0] if n.value.args else None
            g = n.value.func.value.id
            if a is not None and src(a).endswith(".currentLayout"):
                loc[n.targets[0].id] = (g, src(a).split(".")[0])
    rel = []
    for n in ast.walk(fn):
        if isinstance(n, ast.Assert) and isinstance(n.test, ast.Compare) and len(n.test.ops) == 1 \
                and isinstance(n.test.ops[0], ast.Eq):
            lft, rgt = n.test.left, n.test.comparators[0]

            def grid_of(e):
                # X.getLayout(X.currentLayout).dims_order  |  local.dims_order
                if isinstance(e, ast.Attribute) and e.attr == "dims_order":
                    b = e.value
                    if isinstance(b, ast.Name) and b.id in loc:
                        g, cur = loc[b.id]
                        return g, cur
                    if isinstance(b, ast.Call) and isinstance(b.func, ast.Attribute) and b.func.attr == "getLayout" \
                            and isinstance(b.func.value, ast.Name):
                        a = b.args[0]
                        return b.func.value.id, src(a).split(".")[0]
                return None
            gl = grid_of(lft)
            if gl and isinstance(rgt, ast.Tuple) and all(isinstance(x, ast.Constant) for x in rgt.elts):
                if gl[0] == gl[1]:
                    out[gl[0]] = tuple(x.value for x in rgt.elts)
            elif isinstance(lft, ast.Subscript) and isinstance(lft.slice, ast.Slice):
                gl = grid_of(lft.value)
                gr = grid_of(rgt)
                if gl and gr and src(lft.slice) == "1:":
                    rel.append((gl[0], gr[0]))
            elif isinstance(lft, ast.Subscript) and isinstance(rgt, ast.Constant):
                gl = grid_of(lft.value)
                if gl and isinstance(lft.slice, ast.UnaryOp):
                    out.setdefault(gl[0] + "[-1]", rgt.value)
    for a, b in rel:
        if a in out and b not in out:
            out[b] = out[a][1:]
    return out


# --------------------------------------------------------------------------
# class-level drivers
# --------------------------------------------------------------------------

class DimList(list):
    """a python list ordered by physical dimension (eta_grid, _Vals, _splines, npts, ...)"""

    def __getitem__(self, k):
        r = list.__getitem__(self, k)
        return DimList(r) if isinstance(k, slice) else r


def eta_grid_tag():
    return DimList([arr((G(d),), ("coord", d)) for d in range(4)])


def layout_param(order=None, ndist=None):
    return ("layout", order, ndist)


def grid_param(order, ndist=2):
    return ("grid", order, ndist)


def analyse_method(chk, rel, cls, mname, env, ctx, attrs, summaries=None):
    mod = chk.mod(rel)
    q = f"{cls}.{mname}" if cls else mname
    fn = mod.func(q)
    chk.functions.add(f"{rel}:{q}")
    a = IS(chk, rel, q, fn, env, ctx, attrs, summaries)
    a.run()
    return a


def summary_of(chk, rel, cls, mname, attrs, ctx, env_extra=None):
    """required index tags of the parameters of a per-slice method (from its own table look-ups)"""
    mod = chk.mod(rel)
    fn = mod.func(f"{cls}.{mname}")
    env = {a.arg: ("param", a.arg) for a in fn.args.args if a.arg != "self"}
    env.update(env_extra or {})
    a = IS(chk, rel, f"{cls}.{mname}", fn, env, ctx, attrs)
    a.run()
    req = {}
    for p, reqs in a.param_req.items():
        ts = {t for t, _, _ in reqs}
        if len(ts) == 1:
            req[p] = next(iter(ts))
        elif ts:
            # conflicting requirements were reported by finish_params; keep the local one for the callers
            req[p] = sorted(ts)[0]
    params = [x.arg for x in fn.args.args if x.arg != "self"]
    return {"params": params, "req": req}, a


def class_methods(chk, rel, cls):
    return chk.mod(rel).methods(cls)


def ctor_attrs(chk, rel, cls, env, ctx=None):
    """attribute tags established by cls.__init__ (same-class helper methods are inlined)"""
    attrs = {}
    fn = chk.mod(rel).func(f"{cls}.__init__")
    chk.functions.add(f"{rel}:{cls}.__init__")
    a = IS(chk, rel, f"{cls}.__init__", fn, env, ctx or Ctx(dist_dims=None), attrs)
    a.methods = class_methods(chk, rel, cls)
    a.run()
    return attrs, a


def run_method(chk, rel, cls, mname, env, ctx, attrs, summaries=None):
    fn = chk.mod(rel).func(f"{cls}.{mname}" if cls else mname)
    q = f"{cls}.{mname}" if cls else mname
    chk.functions.add(f"{rel}:{q}")
    a = IS(chk, rel, q, fn, env, ctx, attrs, summaries or {})
    if cls:
        a.methods = {k: v for k, v in class_methods(chk, rel, cls).items() if k not in (summaries or {})}
    a.run()
    return a
