"""Engine D: buffer effects and field-location flow for the layout transposes.

An abstract interpreter over *buffer names*: every array value is a view of a
set of root buffers (the array parameters of the entry point).  One abstract
token - "the field" - sits in a root buffer; a write whose right-hand side
reads the buffer holding the token moves the token.  No data, no indices: only
which buffer is read/written, which layout name the data is in, and which
handler is current.  Small integer loop counts (route lengths) are enumerated
concretely and shown 2-periodic.  See DESIGN.md 4.3.

AUDIT (soundness of what callers turn into VIOLATED).  The engine records *problems* on the path token; the kinds in
UNDECIDED_KINDS mean `this path was not followed completely`, every other kind is a diagnosis:
  clobber / stale-read / token location / write set   true when every store and call on the path was read with the complete
      set of arrays its value was computed from (see `event`); every construct that is not modelled records an
      UNDECIDED_KINDS problem instead of being read as `no effect` / `writes nothing` / `pure`: stores of a value that was not
      followed, stores THROUGH a value that was not followed but was computed from the arrays (`<mayalias>` names), views that
      may be a copy (MaybeView), may-writes of one of several buffers, collectives whose buffers were not identified, calls
      that are handed an array and are not analysed, array methods outside the tables, numpy out=/where=, statement kinds that
      are not read (match, async), handlers of try blocks that use the arrays, loops over layout steps whose iterations are
      not enumerated, star-expanded arguments that are not known, joined paths after a state explosion.
  layout-bookkeeping / extent   true when the layouts compared are identified symbols (name / step); anything else is
      `layout-bookkeeping-undecided` / `extent-undecided`.
  Assumptions that are NOT checked (stated to the caller): an unknown iterable is non-empty and its body is stable after two
      passes; exceptions are not part of the normal path; reshape / ravel of the flat buffers are views (the code asserts
      `.base is`); distinct symbols denote distinct layouts; a lookup `self.X[k]` / `self.X.get(k)` finds its key.
"""
from __future__ import annotations

import ast
import copy
from dataclasses import dataclass, field

from .core import src, AnalysisError, parent
from .resolve import Program


class Roots(frozenset):
    """a view of (a subset of) these root buffers; .extent = symbolic element count of the view if known"""
    extent = None

    def __repr__(self):
        return "View(" + ",".join(sorted(self)) + (f"[:{self.extent}]" if self.extent is not None else "") + ")"


def with_extent(r: "Roots", ext):
    v = Roots(r)
    v.extent = ext
    return v


@dataclass(frozen=True)
class Fresh:
    """a new array computed from these roots (copy semantics)"""
    derived: frozenset

    def __repr__(self):
        return "Fresh(" + ",".join(sorted(self.derived)) + ")"


@dataclass(frozen=True, repr=False)
class MaybeView(Fresh):
    """result of an operation that returns its argument itself when no conversion is needed (np.ascontiguousarray, np.require,
    astype(copy=False), np.array(copy=False)): reading it reads `derived`; a store THROUGH it may or may not write those arrays"""

    def __repr__(self):
        return "MaybeView(" + ",".join(sorted(self.derived)) + ")"


class _Opaque:
    def __repr__(self):
        return "?"


OPAQUE = _Opaque()


class Closure:
    """a nested function / lambda bound to a local name: its body reads the locals of the defining call"""

    def __init__(self, node):
        self.node = node

    def __repr__(self):
        return f"closure@{getattr(self.node, 'lineno', 0)}:{getattr(self.node, 'col_offset', 0)}"


class _NotNone:
    def __repr__(self):
        return "notNone"


NOTNONE = _NotNone()


@dataclass(frozen=True)
class Sym:
    """symbolic scalar/name: ('name', 'source_name') / ('step', 3) / ('layout', x) / ('mgr', x) ..."""
    kind: str
    arg: object

    def __repr__(self):
        return f"{self.kind}:{self.arg}"


def _subst_sym(v, old, new, _depth=0):
    """replace the symbol `old` by `new` inside a value (symbols, tuples, lists, sets, dicts, dataclasses)"""
    import dataclasses
    if _depth > 8:
        return v
    if isinstance(v, Sym):
        if v == old:
            return new
        a = _subst_sym(v.arg, old, new, _depth + 1)
        return v if a is v.arg else Sym(v.kind, a)
    if isinstance(v, tuple) and not dataclasses.is_dataclass(v):
        out = tuple(_subst_sym(x, old, new, _depth + 1) for x in v)
        return v if all(a is b for a, b in zip(out, v)) else (type(v)(*out) if hasattr(v, "_fields") else out)
    if isinstance(v, list):
        out = [_subst_sym(x, old, new, _depth + 1) for x in v]
        return v if all(a is b for a, b in zip(out, v)) else out
    if isinstance(v, frozenset):
        out = [_subst_sym(x, old, new, _depth + 1) for x in v]
        if all(a is b or a == b for a, b in zip(out, v)):
            return v
        try:
            return type(v)(out)
        except Exception:
            return v
    if isinstance(v, dict):
        out = {k: _subst_sym(x, old, new, _depth + 1) for k, x in v.items()}
        return v if all(out[k] is v[k] for k in v) else out
    if dataclasses.is_dataclass(v) and not isinstance(v, type):
        ch = {}
        for f in dataclasses.fields(v):
            cur = getattr(v, f.name)
            nv = _subst_sym(cur, old, new, _depth + 1)
            if nv is not cur and nv != cur:
                ch[f.name] = nv
        if ch:
            try:
                return dataclasses.replace(v, **ch)
            except Exception:
                return v
    return v


VIEW_METHODS = {"reshape", "transpose", "view", "swapaxes", "squeeze", "ravel"}
VIEW_ATTRS = {"T", "real", "imag", "flat", "base"}
COPY_METHODS = {"flatten", "copy", "astype", "conj", "conjugate"}
NP_VIEW_FUNCS = {"split", "transpose", "reshape", "real", "imag", "atleast_1d", "atleast_2d", "swapaxes",
                 "moveaxis", "squeeze", "array_split", "asarray", "ravel"}
NP_COPY_FUNCS = {"array", "copy", "concatenate", "stack", "ascontiguousarray", "abs", "sum", "conj"}
# AUDIT (tables): a name that is in none of the tables is UNKNOWN, never `pure`/`view`/`no effect`:
#   numpy function: a new array computed from every array argument (positional and keyword) - this is what every numpy function that
#   has no out= argument and is not one of NP_WRITES_FIRST does; out= is a store into that array; NP_WRITES_FIRST store into their
#   first argument; NP_MAYBE_VIEW may hand back their argument itself
#   method of an array: VIEW_METHODS / COPY_METHODS / ARRAY_PURE_METHODS as named; ARRAY_MUTATING_METHODS and every other name: the
#   path is undecided (`call-undecided`)
NP_ALLOC_FUNCS = {"empty", "zeros", "ones", "full", "ndarray", "empty_like", "zeros_like", "ones_like", "full_like"}
NP_WRITES_FIRST = {"copyto", "put", "place", "putmask", "fill_diagonal", "put_along_axis"}
NP_MAYBE_VIEW = {"ascontiguousarray", "asfortranarray", "require", "asanyarray", "asarray_chkfinite"}
ARRAY_PURE_METHODS = {"sum", "min", "max", "mean", "any", "all", "prod", "std", "var", "argmax", "argmin", "tolist", "tobytes", "item",
                      "dot", "nonzero", "cumsum", "round", "clip", "take", "repeat", "trace", "tostring", "dump",
                      "dumps", "searchsorted", "argsort", "compress", "choose", "ptp", "cumprod"}
ARRAY_MUTATING_METHODS = {"fill", "sort", "partition", "resize", "put", "itemset", "setfield", "byteswap", "setflags"}
META_ATTRS = {"shape", "size", "dtype", "ndim", "itemsize", "nbytes", "strides", "flags"}
COLLECTIVES = ("Alltoall", "Alltoallv", "Allgather", "Allgatherv", "Gather", "Gatherv", "Scatter", "Scatterv", "Bcast",
               "Reduce", "Allreduce", "Sendrecv")
LIST_MUTATORS = {"append", "extend", "insert", "pop", "remove", "clear", "sort", "reverse"}
# builtins that only look at their arguments (never store into an array they are given)
INSPECTING_BUILTINS = {"len", "zip", "enumerate", "list", "tuple", "range", "slice", "reversed", "iter", "next", "sorted",
                       "isinstance", "id", "min", "max", "sum", "any", "all", "int", "float", "bool", "str", "type", "print", "repr",
                       "abs", "divmod", "map", "filter", "hasattr", "getattr", "memoryview", "complex", "round", "format"}
ITERATOR_MAKERS = {"zip", "iter", "enumerate", "reversed", "map", "filter"}
# kinds of recorded problems that mean `this path was not followed completely` (callers must not report a violation from the
# token on such a path); every other kind is a diagnosis
UNDECIDED_KINDS = {"store-undecided", "call-undecided", "array-argument-undecided", "loop-undecided", "contract-args-undecided",
                   "layout-bookkeeping-undecided", "extent-undecided", "stmt-undecided", "merge-undecided", "try-undecided"}
MAX_STATES = 400


@dataclass
class Tok:
    loc: str | None            # root buffer holding the field
    prev: str | None = None    # where the last move came from
    layout: object = None      # symbolic layout name the data is in
    writes: frozenset = frozenset()
    trace: tuple = ()
    problems: tuple = ()       # (kind, msg, node)
    assumed: tuple = ()        # path description
    attrs: tuple = ()          # tracked self attributes ((name, value),...)
    moved: bool = False

    def with_(self, **kw):
        d = dict(loc=self.loc, prev=self.prev, layout=self.layout, writes=self.writes, trace=self.trace,
                 problems=self.problems, assumed=self.assumed, attrs=self.attrs, moved=self.moved)
        d.update(kw)
        return Tok(**d)


class State:
    def __init__(self, env, tok):
        self.env = env
        self.tok = tok
        self.ret = False
        self.retval = None

    def fork(self):
        s = State(dict(self.env), self.tok)
        return s


class Interp:
    """Abstract interpreter.  `step_funcs`: names of single-step transpose
    functions whose (layout_source, layout_dest) parameters advance the layout
    token; `contracts`: functions replaced by their contract when re-entered."""

    def __init__(self, prog: Program, rel: str, cls: str, chk, scenario: dict,
                 assume_false=(), contract_funcs=(), max_depth=8):
        self.prog = prog
        self.rel = rel
        self.cls = cls
        self.chk = chk
        self.scenario = scenario        # e.g. {"nSteps": 4}
        self.assume_false = set(assume_false)
        self.contract_funcs = set(contract_funcs)
        self.stack: list[str] = []
        self.max_depth = max_depth
        self.executed: set[str] = set()
        self.laystack: list = []         # (layout_source, layout_dest) of the single-step routines being read

    # ------------------------------------------------------------ helpers
    def assumed_value(self, test):
        """truth value of a test under the caller's `assume_false` set (texts `L == R`), also when the same comparison is
        written `R == L`, `L != R` or under `not`: the named exemption must not depend on how the guard is spelt"""
        flip = False
        while isinstance(test, ast.UnaryOp) and isinstance(test.op, ast.Not):
            test, flip = test.operand, not flip
        if src(test) in self.assume_false:
            return flip
        if isinstance(test, ast.Compare) and len(test.ops) == 1 and isinstance(test.ops[0], (ast.Eq, ast.NotEq)):
            l_, r_ = src(test.left), src(test.comparators[0])
            if f"{l_} == {r_}" in self.assume_false or f"{r_} == {l_}" in self.assume_false:
                val = isinstance(test.ops[0], ast.NotEq)          # `L == R` is assumed false
                return (not val) if flip else val
        return None

    def problem(self, st: State, kind, msg, node, fq):
        rec = (kind, msg, getattr(node, "lineno", None), src(node)[:160], fq)
        if rec in st.tok.problems:
            return          # the same finding at the same place (a body read twice, an override and the engine both recording it)
        st.tok = st.tok.with_(problems=st.tok.problems + (rec,))

    def roots_of(self, v):
        if isinstance(v, Roots):
            return set(v)
        if isinstance(v, Fresh):
            return set(v.derived)
        if isinstance(v, (list, tuple)):
            out = set()
            for x in v:
                out |= self.roots_of(x)
            return out
        return set()

    # -- values the interpreter lost that may still be (views of) the arrays
    def tainted(self, st: State):
        return set(st.env.get("<mayalias>", ()))

    def set_taint(self, st: State, name, on):
        cur = self.tainted(st)
        if on and name not in cur:
            st.env["<mayalias>"] = tuple(sorted(cur | {name}))
        elif not on and name in cur:
            st.env["<mayalias>"] = tuple(sorted(cur - {name}))

    def mentions_arrays(self, e, st: State):
        """does the expression use (the contents or identity of) one of the arrays, or a name whose unknown value was computed from
        them?  `x.shape`, `x.size`, `len(x)`... read the description of an array, not the array"""
        if e is None:
            return False
        taint = self.tainted(st)
        todo = [e]
        while todo:
            x = todo.pop()
            if isinstance(x, ast.Attribute) and x.attr in META_ATTRS:
                continue
            if isinstance(x, ast.Call) and isinstance(x.func, ast.Name) and x.func.id == "len":
                continue
            if isinstance(x, ast.Name):
                if x.id in taint:
                    return True
                v = st.env.get(x.id)
                if self.roots_of(v) or (isinstance(v, Closure) and self.closure_mentions_arrays(v, st)):
                    return True
            elif isinstance(x, ast.Attribute):
                s = src(x)
                if s in taint or (s in st.env and self.roots_of(st.env[s])):
                    return True
            todo += list(ast.iter_child_nodes(x))
        return False

    def closure_mentions_arrays(self, c: "Closure", st: State):
        own = {a.arg for a in c.node.args.args + c.node.args.kwonlyargs + c.node.args.posonlyargs}
        taint = self.tainted(st)
        body = c.node.body if isinstance(c.node.body, list) else [c.node.body]
        for b in body:
            for x in ast.walk(b):
                if isinstance(x, ast.Name) and x.id not in own and (x.id in taint or self.roots_of(st.env.get(x.id))):
                    return True
        return False

    def write_roots(self, st: State, view, node, fq):
        """the buffers a store through `view` writes.  AUDIT: `event` reads a write as a MUST-write of every buffer named; a view
        that is one of several arrays (an element of an un-enumerated list of buffers) writes only one of them: undecided"""
        if isinstance(view, Roots) and len(view) > 1:
            self.problem(st, "store-undecided", f"`{src(node)[:70]}` stores through a value that is a view of one of {sorted(view)}; "
                         "which one could not be followed", node, fq)
        return set(view)

    @staticmethod
    def unknown_value(val, value_node):
        """is `val` a value the interpreter could not follow (neither a view/copy of known arrays nor a literal number)?"""
        if val is not OPAQUE:
            return False
        v = value_node
        if isinstance(v, ast.UnaryOp) and isinstance(v.op, (ast.USub, ast.UAdd)):
            v = v.operand
        return not (isinstance(v, ast.Constant) and isinstance(v.value, (int, float, complex)) and not isinstance(v.value, bool))

    def check_extent(self, st: State, view, node, fq, side):
        ext = getattr(view, "extent", None)
        if ext is None or not isinstance(view, Roots):
            return
        if st.env.get("<lay_dst>") is None and st.env.get("<lay_src>") is None and self.laystack:
            # inside a kernel called by a single-step routine: the layouts of that step are the ones the data may be in
            saved = (st.env.get("<lay_src>"), st.env.get("<lay_dst>"))
            st.env["<lay_src>"], st.env["<lay_dst>"] = self.laystack[-1]
            try:
                return self.check_extent(st, view, node, fq, side)
            finally:
                st.env["<lay_src>"], st.env["<lay_dst>"] = saved

        def unwrap(x):
            while isinstance(x, Sym) and x.kind == "layout":
                x = x.arg
            return x
        lay = unwrap(ext.arg[0])
        cands = [unwrap(st.tok.layout)]
        if st.env.get("<lay_dst>") is not None:
            cands.append(unwrap(st.env["<lay_dst>"]))
        if st.env.get("<lay_src>") is not None:
            cands.append(unwrap(st.env["<lay_src>"]))
        ok = {repr(c) for c in cands}
        if repr(lay) not in ok:
            # AUDIT `extent` (-> D5 violated): true when the layout whose size cuts the view and the layouts the data may be in are
            # all IDENTIFIED layouts (name / step symbols: distinct symbols are distinct layouts of the route) and differ.  A layout
            # that was not identified (unknown key, a value the interpreter lost) is not `another layout`: undecided
            def known(x):
                return isinstance(x, Sym) and x.kind in ("name", "step")
            if not known(lay) or not all(known(c) for c in cands):
                self.problem(st, "extent-undecided", f"{side} view is cut to the size of layout `{lay}`; whether that is the layout "
                             f"the data is in ({sorted(ok)}) could not be established", node, fq)
                return
            self.problem(st, "extent", f"{side} view is cut to the size of layout `{lay}` but the data is in layout "
                         f"{sorted(ok)}: elements beyond that size are not copied", node, fq)

    def event(self, st: State, reads: set, writes: set, node, fq, what=""):
        """apply a read/write event to the field token.
        AUDIT `clobber` / `stale-read` (-> D3 violated) and the token location itself (-> D2/D1 verdicts): true when (1) `reads` is
        the complete set of buffers the stored value was computed from - every place that builds `reads` from a value it could not
        follow records a `store-undecided` / `array-argument-undecided` problem on the path instead of passing an empty set;
        (2) `writes` are must-writes of single buffers (write_roots); (3) no store or call on the path was skipped - every statement
        or call form that is not modelled records a problem whose kind is in UNDECIDED_KINDS.  The engine cannot withdraw a finding
        it already recorded when the path later turns undecided: callers must demote the diagnoses of a path that carries a problem
        of an UNDECIDED_KINDS kind (the layout checks do: `lost`)."""
        t = st.tok
        if not writes:
            return
        tr = t.trace + ((fq, what or src(node)[:80], tuple(sorted(reads)), tuple(sorted(writes))),)
        neww = t.writes | frozenset(writes)
        for w in sorted(writes):
            if t.loc in reads and w != t.loc:
                t = t.with_(prev=t.loc, loc=w, moved=True)
            elif w == t.loc:
                if t.loc in reads:
                    pass                                   # in-place update of the field
                elif t.prev is not None and t.prev in reads:
                    pass                                   # continuing the same move (block-wise copy)
                elif not reads:
                    st.tok = t
                    self.problem(st, "clobber", f"buffer `{w}` holding the field is overwritten without being read", node, fq)
                    t = st.tok
                else:
                    st.tok = t
                    self.problem(st, "clobber", f"buffer `{w}` holding the field is overwritten from {sorted(reads)}", node, fq)
                    t = st.tok
            else:
                if reads and t.loc not in reads and not (t.prev in reads and w == t.loc):
                    st.tok = t
                    self.problem(st, "stale-read", f"`{w}` is filled from {sorted(reads)} but the field is in `{t.loc}`", node, fq)
                    t = st.tok
        st.tok = t.with_(writes=neww, trace=tr)

    # ------------------------------------------------------------ expressions
    def ev(self, e, st: State, fq):
        env = st.env
        if e is None:
            return None
        if isinstance(e, ast.Constant):
            return e.value if isinstance(e.value, (int, bool, str)) or e.value is None else OPAQUE
        if isinstance(e, ast.Name):
            if e.id in env:
                return env[e.id]
            return OPAQUE
        if isinstance(e, ast.Attribute):
            s = src(e)
            if s in env:
                return env[s]
            base = self.ev(e.value, st, fq)
            if isinstance(base, (Roots, Fresh)):
                if e.attr in VIEW_ATTRS:
                    return base
                return OPAQUE
            if isinstance(base, Sym) and base.kind == "layout":
                if e.attr == "name":
                    return base.arg
                return Sym("lattr", (base.arg, e.attr))
            return OPAQUE
        if isinstance(e, ast.Lambda):
            return Closure(e)
        if isinstance(e, ast.NamedExpr):
            v = self.ev(e.value, st, fq)
            if isinstance(e.target, ast.Name):
                self.assign_name(st, e.target.id, v, e.value)
            return v
        if isinstance(e, ast.IfExp):
            t = self.ev(e.test, st, fq)
            if isinstance(t, bool):
                return self.ev(e.body if t else e.orelse, st, fq)
            a, b = self.ev(e.body, st, fq), self.ev(e.orelse, st, fq)
            return a if repr(a) == repr(b) else OPAQUE
        if isinstance(e, (ast.List, ast.Tuple)) and any(isinstance(x, ast.Starred) for x in e.elts):
            # [a, *xs]: the items of xs, not xs itself, are elements of the new sequence
            out = []
            for x in e.elts:
                if isinstance(x, ast.Starred):
                    v = self.ev(x.value, st, fq)
                    if not isinstance(v, (list, tuple)):
                        return OPAQUE
                    out += list(v)
                else:
                    out.append(self.ev(x, st, fq))
            return out if isinstance(e, ast.List) else tuple(out)
        if isinstance(e, (ast.ListComp, ast.GeneratorExp)):
            return self.comprehension(e, st, fq)
        if isinstance(e, ast.Subscript):
            base = self.ev(e.value, st, fq)
            if isinstance(base, Roots):
                if isinstance(e.slice, ast.Slice) and e.slice.lower is None and e.slice.upper is not None:
                    up = self.ev(e.slice.upper, st, fq)
                    if isinstance(up, Sym) and up.kind == "lattr" and up.arg[1] == "size":
                        return with_extent(base, up)
                # AUDIT: `a view of the same buffers` is true of basic indexing; an index that is itself an array or a list
                # display (advanced indexing) gives a copy
                if not isinstance(e.slice, ast.Slice):
                    iv = self.ev(e.slice, st, fq)
                    if isinstance(iv, (Roots, Fresh)) or isinstance(e.slice, ast.List) \
                            or (isinstance(e.slice, ast.Tuple) and any(isinstance(x, ast.List) for x in e.slice.elts)):
                        return Fresh(frozenset(set(base) | self.roots_of(iv)))
                return base
            if isinstance(base, Fresh):
                return base
            if isinstance(base, tuple):
                if isinstance(e.slice, ast.Slice):
                    lo = self.ev(e.slice.lower, st, fq) if e.slice.lower else None
                    hi = self.ev(e.slice.upper, st, fq) if e.slice.upper else None
                    if all(x is None or (isinstance(x, int) and not isinstance(x, bool)) for x in (lo, hi)) and e.slice.step is None:
                        return base[lo:hi]
                    return OPAQUE
                i = self.ev(e.slice, st, fq)
                if isinstance(i, int) and not isinstance(i, bool) and -len(base) <= i < len(base):
                    return base[i]
                return OPAQUE
            if isinstance(base, list):
                idx = self.ev(e.slice, st, fq)
                if isinstance(e.slice, ast.Slice):
                    lo = self.ev(e.slice.lower, st, fq) if e.slice.lower else None
                    hi = self.ev(e.slice.upper, st, fq) if e.slice.upper else None
                    if (lo is None or isinstance(lo, int)) and (hi is None or isinstance(hi, int)) and e.slice.step is None:
                        return base[lo:hi]
                    return OPAQUE
                if isinstance(idx, int) and not isinstance(idx, bool):
                    try:
                        return base[idx]
                    except IndexError:
                        return OPAQUE
                return OPAQUE
            # self._layouts[name] / self._route_map[a][b] / self._managers[self._handlers[name]]
            v = self.table_lookup(e, st, fq)
            return OPAQUE if v is None else v
        if isinstance(e, ast.Call):
            return self.call_value(e, st, fq)
        if isinstance(e, ast.Tuple):
            return tuple(self.ev(x, st, fq) for x in e.elts)
        if isinstance(e, ast.List):
            return [self.ev(x, st, fq) for x in e.elts]
        if isinstance(e, ast.BinOp):
            a, b = self.ev(e.left, st, fq), self.ev(e.right, st, fq)
            if isinstance(a, int) and isinstance(b, int) and not isinstance(a, bool) and not isinstance(b, bool):
                try:
                    if isinstance(e.op, ast.Add):
                        return a + b
                    if isinstance(e.op, ast.Sub):
                        return a - b
                    if isinstance(e.op, ast.Mult):
                        return a * b
                    if isinstance(e.op, ast.Mod):
                        return a % b
                    if isinstance(e.op, ast.FloorDiv):
                        return a // b
                except ZeroDivisionError:
                    return OPAQUE
            if isinstance(a, (list, tuple)) or isinstance(b, (list, tuple)):
                # sequences: concatenation / repetition, never an array computed from their items
                if isinstance(e.op, ast.Add) and type(a) is type(b):
                    return a + b
                if isinstance(e.op, ast.Mult):
                    s_, k_ = (a, b) if isinstance(a, (list, tuple)) else (b, a)
                    if isinstance(k_, int) and not isinstance(k_, bool) and 0 <= k_ <= 16:
                        return s_ * k_
                return OPAQUE
            r = self.roots_of(a) | self.roots_of(b)
            if r:
                return Fresh(frozenset(r))
            return OPAQUE
        if isinstance(e, ast.UnaryOp):
            v = self.ev(e.operand, st, fq)
            if isinstance(e.op, ast.Not):
                if isinstance(v, bool):
                    return not v
                return OPAQUE
            if isinstance(v, int) and isinstance(e.op, ast.USub):
                return -v
            r = self.roots_of(v)
            return Fresh(frozenset(r)) if r else OPAQUE
        if isinstance(e, ast.Compare) and len(e.ops) == 1:
            a, b = self.ev(e.left, st, fq), self.ev(e.comparators[0], st, fq)
            op = e.ops[0]
            if isinstance(op, (ast.Is, ast.IsNot)):
                res = None
                if isinstance(a, Roots) and isinstance(b, Roots):
                    # identity of two views: decided only for whole single buffers / disjoint buffers
                    if isinstance(e.left, ast.Name) and isinstance(e.comparators[0], ast.Name) and e.left.id == e.comparators[0].id:
                        res = True          # (two different views of one buffer are different objects: not decided)
                    elif not (set(a) & set(b)):
                        res = False
                if a is None and b is not None:
                    a, b = b, a
                if b is None:
                    if a is None:
                        res = True
                    # AUDIT: `is not None` is known for arrays, sequences, numbers, strings and for the symbols that stand for
                    # an object the code has already used (layout, manager, name, route step); an attribute of such an object
                    # (lattr / mattr / cmp ...) may well be None: unknown
                    elif isinstance(a, (Roots, Fresh, _NotNone, int, str, list, tuple)) \
                            or (isinstance(a, Sym) and a.kind in ("name", "step", "layout", "mgr", "handler_idx")):
                        res = False
                if res is None:
                    return OPAQUE
                return res if isinstance(op, ast.Is) else (not res)
            if isinstance(a, int) and isinstance(b, int) and not isinstance(a, bool):
                return {ast.Eq: a == b, ast.NotEq: a != b, ast.Lt: a < b, ast.LtE: a <= b,
                        ast.Gt: a > b, ast.GtE: a >= b}.get(type(op), OPAQUE)
            if isinstance(a, Sym) and isinstance(b, Sym) and isinstance(op, (ast.Eq, ast.NotEq)) and a == b:
                return isinstance(op, ast.Eq)
            return OPAQUE
        if isinstance(e, ast.BoolOp):
            vals = [self.ev(v, st, fq) for v in e.values]
            if isinstance(e.op, ast.And):
                if any(v is False for v in vals):
                    return False
                if all(v is True for v in vals):
                    return True
            else:
                if any(v is True for v in vals):
                    return True
                if all(v is False for v in vals):
                    return False
            return OPAQUE
        if isinstance(e, ast.Starred):
            # AUDIT: a starred expression outside a display/call argument list never reaches here in valid code; its value is the
            # unpacked items, not the sequence: unknown
            return OPAQUE
        # AUDIT (default branch): Dict / Set / Lambda / JoinedStr / Await / Yield / chained comparisons / slices ...: unknown value
        return OPAQUE

    def comprehension(self, e, st: State, fq):
        """a comprehension over a sequence whose items are known is the list of its element expression (its own variables are
        bound in a copy of the state); over an unknown sequence: views of an array stay views of that array; anything else unknown"""
        if len(e.generators) != 1 or e.generators[0].is_async:
            return OPAQUE
        g = e.generators[0]
        it = self.ev(g.iter, st, fq)
        if isinstance(it, (list, tuple)) and not g.ifs:
            out = []
            for x in it:
                s2 = st.fork()
                self.bind_target(g.target, x, s2)
                out.append(self.ev(e.elt, s2, fq))
            return out
        s2 = st.fork()
        self.bind_target(g.target, self.abstract_elem(g.iter, st, fq), s2)
        v = self.ev(e.elt, s2, fq)
        if isinstance(v, Roots):
            return Roots(v)
        if isinstance(v, Fresh):
            return v
        return OPAQUE

    def abstract_elem(self, e, st: State, fq):
        """what the loop variable(s) of `for ... in e` stand for when the items cannot be enumerated: an item of (a view of) an
        array is a view of that array; enumerate/zip give tuples of such items; anything else is unknown"""
        if isinstance(e, ast.Call) and isinstance(e.func, ast.Name) and not any(isinstance(a, ast.Starred) for a in e.args):
            nm = e.func.id
            if nm == "enumerate" and e.args:
                return (OPAQUE, self.abstract_elem(e.args[0], st, fq))
            if nm == "zip" and e.args and not e.keywords:
                return tuple(self.abstract_elem(a, st, fq) for a in e.args)
            if nm in ("reversed", "list", "tuple", "iter", "sorted") and len(e.args) == 1:
                return self.abstract_elem(e.args[0], st, fq)
        v = self.ev(e, st, fq)
        if isinstance(v, Roots):
            return Roots(v)
        if isinstance(v, Fresh):
            return v
        if isinstance(v, (list, tuple)) and v:
            if len({repr(x) for x in v}) == 1:
                return v[0]
            if all(isinstance(x, Roots) for x in v):
                return Roots(self.roots_of(v))
        return OPAQUE

    def generator_items(self, e, st: State, fq):
        """the list of values a call of a generator function of the analysed module yields, when its body can be followed on one
        path with known loop items and touches none of the arrays (it only hands names and buffers on); else None"""
        try:
            tg = [(r, q, n) for r, q, n in self.prog.resolve(e, self.rel) if r == self.rel]
        except Exception:
            return None
        if len(tg) != 1:
            return None
        _, q, fn = tg[0]
        if not any(isinstance(y, ast.Yield) for y in ast.walk(fn)) \
                or any(isinstance(y, (ast.YieldFrom, ast.Return)) and getattr(y, "value", None) is not None for y in ast.walk(fn)):
            return None
        if q in self.stack or len(self.stack) >= self.max_depth:
            return None
        params = [a.arg for a in fn.args.posonlyargs + fn.args.args]
        static = any(isinstance(d, ast.Name) and d.id == "staticmethod" for d in fn.decorator_list)
        if params and params[0] in ("self", "cls") and not static:
            params = params[1:]
        if any(isinstance(a, ast.Starred) for a in e.args) or e.keywords or len(e.args) != len(params) \
                or fn.args.vararg or fn.args.kwarg or fn.args.kwonlyargs:
            return None
        env2 = {k: v for k, v in st.env.items() if k.startswith("self.")}
        env2.update({p_: self.ev(a, st, fq) for p_, a in zip(params, e.args)})
        env2["self"] = OPAQUE
        env2["<yields>"] = ()
        s2 = State(env2, st.tok)
        self.stack.append(q)
        try:
            outs = self.run(fn, s2, q)
        except AnalysisError:
            return None
        finally:
            self.stack.pop()
        if len(outs) != 1 or outs[0].tok.problems != st.tok.problems or outs[0].tok.writes != st.tok.writes \
                or outs[0].tok.loc != st.tok.loc or outs[0].env.get("<yields>") is None:
            return None
        return list(outs[0].env["<yields>"])

    def call_value(self, e: ast.Call, st: State, fq):
        f = e.func
        name = f.id if isinstance(f, ast.Name) else f.attr if isinstance(f, ast.Attribute) else ""
        recv = f.value if isinstance(f, ast.Attribute) else None
        if any(isinstance(a, ast.Starred) for a in e.args):
            # f(*xs): the items of xs are the arguments
            args = []
            for a in e.args:
                if isinstance(a, ast.Starred):
                    v = self.ev(a.value, st, fq)
                    if not isinstance(v, (list, tuple)):
                        args = None
                        break
                    args += list(v)
                else:
                    args.append(self.ev(a, st, fq))
            if args is None:
                if self.mentions_arrays(e, st) and not (isinstance(f, ast.Name) and f.id in INSPECTING_BUILTINS):
                    self.problem(st, "call-undecided", f"the star-expanded arguments of `{src(e)[:70]}` could not be followed", e, fq)
                return OPAQUE
        else:
            args = [self.ev(a, st, fq) for a in e.args]
        kwvals = {k.arg: self.ev(k.value, st, fq) for k in e.keywords}
        if recv is None and name in ("zip", "enumerate", "reversed") and args \
                and all(k == "start" and name == "enumerate" for k in kwvals):
            allv = args + list(kwvals.values())
            if name == "zip" and all(isinstance(a, (list, tuple)) for a in allv):
                return [tuple(x) for x in zip(*allv)]
            if name == "enumerate" and isinstance(allv[0], (list, tuple)) and (len(allv) == 1 or
                                                                                 (isinstance(allv[1], int) and not isinstance(allv[1], bool))):
                return [tuple(x) for x in enumerate(allv[0], *allv[1:2])]
            if name == "reversed" and isinstance(allv[0], (list, tuple)):
                return list(reversed(allv[0]))
            return OPAQUE
        if recv is None and name == "next" and 1 <= len(e.args) <= 2 and isinstance(e.args[0], ast.Name):
            nm = e.args[0].id
            if nm in st.env.get("<iters>", ()) and isinstance(st.env.get(nm), list):
                # an iterator hands out its first remaining item and keeps the rest
                items = st.env[nm]
                if items:
                    st.env[nm] = list(items[1:])
                    return items[0]
                return args[1] if len(args) == 2 else OPAQUE
            # AUDIT: next() of something whose items are not known CONSUMES it: the name no longer stands for the full sequence
            if isinstance(st.env.get(nm), (list, tuple)):
                st.env[nm] = OPAQUE
            return OPAQUE
        if recv is None and isinstance(st.env.get(name), Closure) and isinstance(f, ast.Name):
            return self.nested_call(e, st, fq)
        if recv is not None and isinstance(recv, ast.Name) and recv.id in ("np", "numpy"):
            out = kwvals.get("out")
            if out is not None or name in NP_WRITES_FIRST:
                return self.np_store_call(e, name, args, kwvals, st, fq)
            if name in NP_ALLOC_FUNCS:
                return Fresh(frozenset())          # a new local array that holds no field data yet
            if name in NP_VIEW_FUNCS and args:
                r = self.roots_of(args[0])
                if isinstance(args[0], Roots):
                    if name == "split" and len(args) > 1 and isinstance(args[1], list) and len(args[1]) == 1 \
                            and isinstance(args[1][0], Sym) and args[1][0].kind == "lattr" and args[1][0].arg[1] == "size":
                        return [with_extent(args[0], args[1][0]), Roots(args[0])]
                    if name in ("split", "array_split"):
                        # AUDIT: the number of parts is what the second argument says: one cut -> two parts (the form modelled
                        # from the start); a longer list of cuts / an integer: that many views; unknown: `some views of the array`
                        cuts = args[1] if len(args) > 1 else kwvals.get("indices_or_sections")
                        if isinstance(cuts, list):
                            return [Roots(args[0]) for _ in range(len(cuts) + 1)]
                        if isinstance(cuts, int) and not isinstance(cuts, bool) and 0 < cuts <= 64:
                            return [Roots(args[0]) for _ in range(cuts)]
                        if isinstance(e.args[1] if len(e.args) > 1 else None, ast.List) and len(e.args[1].elts) == 1:
                            return [Roots(args[0]), Roots(args[0])]
                        return Roots(args[0])
                    return args[0]
                return Fresh(frozenset(r)) if r else OPAQUE
            r = set()
            for a in list(args) + list(kwvals.values()):
                r |= self.roots_of(a)
            if name in NP_MAYBE_VIEW or (name == "array" and "copy" in kwvals and kwvals["copy"] is not True):
                return MaybeView(frozenset(r)) if r else OPAQUE
            return Fresh(frozenset(r)) if r else OPAQUE
        if recv is None and name == "len" and args:
            if isinstance(args[0], (list, tuple)):
                return len(args[0])
            return OPAQUE
        if recv is None and name == "range":
            if all(isinstance(a, int) for a in args) and args and not kwvals:
                try:
                    return list(range(*args))
                except (TypeError, ValueError):
                    return OPAQUE
            return OPAQUE
        if recv is None and name in ("list", "tuple") and len(args) == 1 and isinstance(args[0], (list, tuple)):
            return list(args[0]) if name == "list" else tuple(args[0])
        if recv is None and name == "iter" and len(args) == 1 and isinstance(args[0], (list, tuple)):
            return list(args[0])
        if recv is not None and name in LIST_MUTATORS:
            key = recv.id if isinstance(recv, ast.Name) else src(recv)
            cur = st.env.get(key)
            if isinstance(cur, list):
                # AUDIT: a list that is changed inside an expression is no longer the list that was known (it was left as it
                # was: a stale fact).  pop() of a known position is followed; anything else makes the list unknown.  The name
                # is bound to a NEW list: the old object may be shared with other paths
                if name == "pop" and len(args) <= 1 and not kwvals and cur \
                        and (not args or (isinstance(args[0], int) and not isinstance(args[0], bool) and -len(cur) <= args[0] < len(cur))):
                    new = list(cur)
                    item = new.pop(*args)
                    st.env[key] = new
                    return item
                tainted = self.mentions_arrays(e, st)
                st.env[key] = OPAQUE
                if isinstance(recv, ast.Name):
                    self.set_taint(st, key, tainted)
                return OPAQUE
        if recv is not None:
            base = self.ev(recv, st, fq)
            if isinstance(base, Roots):
                if name in VIEW_METHODS:
                    return base
                if name == "astype" and kwvals.get("copy", True) is not True:
                    return MaybeView(frozenset(base))
                if name in COPY_METHODS:
                    return Fresh(frozenset(base))
                if name in ARRAY_PURE_METHODS:
                    return Fresh(frozenset(base | self.roots_of(args)))
                # AUDIT (default branch): a method of an array that is in none of the tables may store into it
                self.problem(st, "call-undecided", f"`{src(e)[:70]}`: what the method `{name}` does with the array is not known", e, fq)
                return OPAQUE
            if isinstance(base, Fresh):
                return base if name in VIEW_METHODS | COPY_METHODS else OPAQUE
            if name == "getLayout" and args:
                return Sym("layout", args[0])
            if name == "get" and len(args) == 1 and not kwvals:
                # self.X.get(k) reads the table like self.X[k] (a key that is absent gives None, on which the code then fails:
                # not a silent wrong result)
                sub = ast.Subscript(value=recv, slice=e.args[0], ctx=ast.Load())
                v = self.table_lookup(sub, st, fq)
                if v is not None:
                    return v
        # a routine of the analysed module called inside an expression: followed when it does not fork the path
        gen = self.generator_items(e, st, fq)
        if gen is not None:
            return gen
        return self.nested_call(e, st, fq)

    def table_lookup(self, e: ast.Subscript, st: State, fq):
        """self._layouts[name] / self._handlers[name] / self._managers[k] / self._route_map[a][b] -> symbol, else None"""
        s = src(e.value)
        if s == "self._layouts":
            return Sym("layout", self.ev(e.slice, st, fq))
        if s == "self._handlers":
            return Sym("handler_idx", self.ev(e.slice, st, fq))
        if s == "self._managers":
            k = self.ev(e.slice, st, fq)
            if isinstance(k, Sym) and k.kind == "handler_idx":
                return Sym("mgr", k.arg)
            return Sym("mgr", k)
        inner = e.value
        is_row = (isinstance(inner, ast.Subscript) and src(inner.value) == "self._route_map") or \
            (isinstance(inner, ast.Call) and isinstance(inner.func, ast.Attribute) and inner.func.attr == "get"
             and src(inner.func.value) == "self._route_map" and len(inner.args) == 1 and not inner.keywords)
        if is_row:
            n = self.scenario.get("nSteps")
            if n is None:
                return OPAQUE
            return [Sym("step", i) for i in range(n)]
        return None

    def np_store_call(self, e, name, args, kwvals, st: State, fq):
        """np.<f>(..., out=X) and the numpy functions that store into their first argument: the store X[...] = f(other arguments)"""
        if name in NP_WRITES_FIRST:
            dst = args[0] if args else kwvals.get("dst", kwvals.get("a", OPAQUE))
            rest = list(args[1:]) + [v for k, v in kwvals.items() if k not in ("dst", "a")]
            dnode = e.args[0] if e.args else e
        else:
            dst = kwvals.get("out")
            rest = list(args) + [v for k, v in kwvals.items() if k != "out"]
            dnode = next(k.value for k in e.keywords if k.arg == "out")
        if isinstance(dst, (tuple, list)) and len(dst) == 1:
            dst = dst[0]
        reads = set()
        for v in rest:
            reads |= self.roots_of(v)
        if isinstance(dst, MaybeView):
            self.problem(st, "store-undecided", f"`{src(e)[:70]}` stores through `{src(dnode)[:40]}`, which may be a copy or the array itself", e, fq)
            return dst
        if isinstance(dst, Fresh):
            self.grow_fresh(dnode, dst, reads, st)
            return Fresh(frozenset(dst.derived | reads))
        if isinstance(dst, Roots):
            lost = [a for a, v in zip(list(e.args) + [k.value for k in e.keywords], list(args) + list(kwvals.values()))
                    if v is not dst and v is OPAQUE and self.mentions_arrays(a, st)]
            if lost:
                self.problem(st, "store-undecided", f"the value stored by `{src(e)[:70]}` could not be followed back to the arrays of the transpose", e, fq)
            if "where" in kwvals:
                self.problem(st, "store-undecided", f"`{src(e)[:70]}` stores only where the mask says; which elements keep their old value is not followed", e, fq)
            self.check_extent(st, dst, e, fq, "destination")
            for v in rest:
                self.check_extent(st, v, e, fq, "source")
            self.event(st, reads | (set(dst) if name not in ("copyto",) and name in NP_WRITES_FIRST else set()),
                       self.write_roots(st, dst, e, fq), e, fq)
            return dst
        if self.mentions_arrays(dnode, st) or dst is OPAQUE and any(self.roots_of(v) for v in rest):
            self.problem(st, "array-argument-undecided", f"the target of `{src(e)[:60]}` could not be followed", e, fq)
        return OPAQUE

    def grow_fresh(self, node, cur, reads, st: State):
        """a local array (the name under subscripts / view methods of `node`) now also holds what was stored into it"""
        b = node
        for _ in range(8):
            if isinstance(b, ast.Subscript):
                b = b.value
            elif isinstance(b, ast.Call) and isinstance(b.func, ast.Attribute) and b.func.attr in VIEW_METHODS:
                b = b.func.value
            elif isinstance(b, ast.Attribute) and b.attr in VIEW_ATTRS:
                b = b.value
            else:
                break
        if isinstance(b, ast.Name) and isinstance(st.env.get(b.id), Fresh) and not isinstance(st.env.get(b.id), MaybeView):
            st.env[b.id] = Fresh(frozenset(st.env[b.id].derived | set(reads)))
            return True
        return False

    def nested_call(self, e: ast.Call, st: State, fq):
        """value of a call met inside an expression.  A routine of the analysed module (or a local function) is followed in place
        when that gives ONE resulting state; AUDIT: otherwise its effects are not `none`: a call that is given (or, for a local
        function, can see) the arrays and is not followed makes the path undecided"""
        f = e.func
        clo = st.env.get(f.id) if isinstance(f, ast.Name) else None
        outs = None
        if isinstance(clo, Closure):
            outs = self.invoke_closure(e, clo, st, fq)
        else:
            try:
                tg = [(r, q, n) for r, q, n in self.prog.resolve(e, self.rel) if r == self.rel]
            except Exception:
                tg = []
            if tg and any(isinstance(y, (ast.Yield, ast.YieldFrom)) for _, _, n in tg for y in ast.walk(n)):
                outs = []          # a generator that generator_items could not read
            elif tg and (self.mentions_arrays(e, st) or any(self.returns_new_array(n) for _, _, n in tg)):
                outs = self.exec_call(e, st.fork(), fq, want_value=True)
            elif tg:
                return OPAQUE      # an analysed routine that is handed none of the arrays: its value is not needed
        if outs is None:
            self.unfollowed_call(e, st, fq)
            return OPAQUE
        live = [(s, v) for s, v in outs]
        if len(live) == 1:
            s, v = live[0]
            st.env, st.tok = s.env, s.tok
            return v
        if self.mentions_arrays(e, st) or any(s.tok.writes != st.tok.writes or s.tok.loc != st.tok.loc for s, _ in live):
            self.problem(st, "call-undecided", f"`{src(e)[:70]}` (inside an expression) could not be followed on a single path", e, fq)
        return OPAQUE

    @staticmethod
    def returns_new_array(fn):
        """does the routine return something it obtained from numpy (a helper that allocates a work array)?"""
        return any(isinstance(r, ast.Return) and r.value is not None and any(
            isinstance(c, ast.Call) and isinstance(c.func, ast.Attribute) and isinstance(c.func.value, ast.Name) and c.func.value.id in ("np", "numpy")
            for c in ast.walk(fn)) for r in ast.walk(fn))

    def unfollowed_call(self, e: ast.Call, st: State, fq):
        """AUDIT: a call that is none of the analysed routines, not a numpy function, not a method of an array and not a builtin
        that only inspects its arguments may store into an array it is handed: the path is undecided, the call is not `no effect`"""
        f = e.func
        nm = f.attr if isinstance(f, ast.Attribute) else f.id if isinstance(f, ast.Name) else ""
        if nm in COLLECTIVES or nm in ("warn", "print", "format", "Barrier", "barrier"):
            return
        if isinstance(f, ast.Name) and f.id in INSPECTING_BUILTINS:
            # map(f, xs) / filter / sorted(key=f) with a local function that sees the arrays
            for a in list(e.args) + [k.value for k in e.keywords]:
                if isinstance(a, ast.Name) and isinstance(st.env.get(a.id), Closure) and self.closure_mentions_arrays(st.env[a.id], st):
                    self.problem(st, "call-undecided", f"`{src(e)[:70]}` hands on a local function that uses the arrays", e, fq)
            return
        if isinstance(f, ast.Attribute) and isinstance(f.value, ast.Name) and f.value.id in ("np", "numpy", "math", "warnings"):
            return
        # (decided on the text of the arguments: evaluating them a second time would consume iterators twice)
        given = [a for a in list(e.args) + [k.value for k in e.keywords] if self.mentions_arrays(a, st)]
        recv_arr = isinstance(f, ast.Attribute) and self.mentions_arrays(f.value, st)     # (array receivers were handled by call_value)
        if given or recv_arr:
            self.problem(st, "call-undecided", f"`{src(e)[:70]}` hands an array of the transpose to a routine that was not analysed", e, fq)

    # ------------------------------------------------------------ statements
    def run(self, fn: ast.FunctionDef, st: State, fq: str) -> list[State]:
        self.executed.add(fq)
        outs = self.block(fn.body, [st], fq)
        for s in outs:
            s.ret = False
        return outs

    def block(self, stmts, states: list[State], fq) -> list[State]:
        for stn in stmts:
            nxt = []
            for s in states:
                if s.ret:
                    nxt.append(s)
                else:
                    nxt.extend(self.stmt(stn, s, fq))
            states = self.merge(nxt)
            if len(states) > MAX_STATES:
                states = self.widen(states, stn, fq)
        return states

    @staticmethod
    def _key(s: "State"):
        t = s.tok
        env = tuple(sorted((k, repr(v)) for k, v in s.env.items()))
        return (s.ret, repr(s.retval), t.loc, t.prev, repr(t.layout), t.writes,
                tuple((p[0], p[2], p[4]) for p in t.problems), repr(t.attrs), env)

    def merge(self, states):
        """join states that agree on everything but the path description"""
        seen = {}
        out = []
        for s in states:
            k = self._key(s)
            if k in seen:
                continue
            seen[k] = s
            out.append(s)
        return out

    def widen(self, states, node, fq):
        """too many states: those that agree on the token (where the field is, what was written, which findings) and on the
        control state are joined; a local on which they disagree becomes unknown and the joined path is marked undecided
        (`merge-undecided`) - a per-path `cannot decide`, not a failure of the whole analysis.  If that is not enough the
        analysis gives up as before."""
        groups = {}
        for s in states:
            t = s.tok
            k = (s.ret, repr(s.retval), t.loc, t.prev, repr(t.layout), t.writes, tuple((p[0], p[2], p[4]) for p in t.problems),
                 repr(t.attrs), s.env.get("<loopctl>"))
            groups.setdefault(k, []).append(s)
        out = []
        for grp in groups.values():
            first = grp[0]
            if len(grp) > 1:
                keys = set().union(*[set(g.env) for g in grp])
                env = {}
                for k in keys:
                    vals = {repr(g.env.get(k, OPAQUE)) for g in grp}
                    if len(vals) == 1 and all(k in g.env for g in grp):
                        env[k] = first.env[k]
                    elif k.startswith("<"):
                        if k in first.env and k in ("<lay_dst>", "<lay_src>"):
                            env[k] = first.env[k]
                        # (other bookkeeping entries are dropped: no iterator / fact / yield list is known any more)
                    else:
                        env[k] = OPAQUE
                first.env = env
                self.problem(first, "merge-undecided", f"{len(grp)} paths through {fq} were joined at `{src(node)[:50]}` (too many "
                             "combinations of branch outcomes): the values they disagree on are unknown from here", node, fq)
            out.append(first)
        if len(out) > MAX_STATES:
            raise AnalysisError(f"state explosion in {fq}")
        return out

    def assign_name(self, st, name, val, value_node=None):
        if name in self.scenario and name != "nSteps_unused":
            val = self.scenario[name]
        st.env[name] = val
        # a name that now holds a value the interpreter lost, computed from the arrays, may be (a view of) one of them
        self.set_taint(st, name, val is OPAQUE and value_node is not None and self.mentions_arrays(value_node, st))
        its = st.env.get("<iters>", ())
        if name in its:
            st.env["<iters>"] = tuple(x for x in its if x != name)

    def moves_field(self, loop):
        """does the loop body call a single-step routine / the public transpose of the analysed module (a layout step)?"""
        for c in ast.walk(loop):
            if isinstance(c, ast.Call) and isinstance(c.func, (ast.Attribute, ast.Name)):
                try:
                    tg = self.prog.resolve(c, self.rel)
                except Exception:
                    tg = []
                for _, _, fn in tg:
                    ps = {a.arg for a in fn.args.args}
                    if {"layout_source", "layout_dest"} <= ps or {"source_name", "dest_name"} <= ps:
                        return True
        return False

    def before_store(self, t, st: State, fq, node):
        """checks on the TARGET of a store that hold whatever a subclass does with the store afterwards"""
        if isinstance(t, (ast.Tuple, ast.List)):
            for x in t.elts:
                self.before_store(x, st, fq, node)
            return
        if isinstance(t, ast.Starred):
            return self.before_store(t.value, st, fq, node)
        if isinstance(t, ast.Subscript) or (isinstance(t, ast.Attribute) and t.attr in ("flat", "real", "imag")):
            b = t.value
            for _ in range(8):
                if isinstance(b, ast.Subscript):
                    b = b.value
                elif isinstance(b, ast.Call) and isinstance(b.func, ast.Attribute) and b.func.attr in VIEW_METHODS:
                    b = b.func.value
                elif isinstance(b, ast.Attribute) and b.attr in VIEW_ATTRS:
                    b = b.value
                else:
                    break
            hit = isinstance(b, ast.Name) and isinstance(st.env.get(b.id), MaybeView)
            if not hit and not any(isinstance(c, ast.Call) and isinstance(c.func, ast.Name) and c.func.id == "next" for c in ast.walk(t.value)):
                hit = isinstance(self.ev(t.value, st.fork(), fq), MaybeView)
            if hit:
                self.problem(st, "store-undecided", f"`{src(node)[:70]}` stores through `{src(b)[:40]}`, which may be a copy or the array itself", node, fq)

    def stmt(self, n, st: State, fq) -> list[State]:
        if isinstance(n, ast.AnnAssign):
            if n.value is None:
                return [st]
            n2 = ast.Assign(targets=[n.target], value=n.value)
            ast.copy_location(n2, n)
            n2._parent = getattr(n, "_parent", None)
            return self.stmt(n2, st, fq)
        if isinstance(n, ast.Assign):
            if isinstance(n.value, ast.Call):
                outs = self.exec_call(n.value, st, fq, want_value=True)
            else:
                outs = [(st, self.ev(n.value, st, fq))]
            res = []
            for s, val in outs:
                for t in n.targets:
                    self.before_store(t, s, fq, n)
                    self.assign(t, val, n.value, s, fq, n)
                if len(n.targets) == 1 and isinstance(n.targets[0], ast.Name) and isinstance(n.value, ast.Call) \
                        and isinstance(n.value.func, (ast.Name, ast.Attribute)):
                    # names bound to an ITERATOR (zip / iter / map / enumerate / reversed / a generator call): next() and
                    # `for` consume it
                    fnm = n.value.func.id if isinstance(n.value.func, ast.Name) else n.value.func.attr
                    is_iter = (isinstance(n.value.func, ast.Name) and fnm in ITERATOR_MAKERS) or self.is_generator_call(n.value)
                    its = tuple(x for x in s.env.get("<iters>", ()) if x != n.targets[0].id)
                    if is_iter or its != s.env.get("<iters>", ()):
                        s.env["<iters>"] = its + ((n.targets[0].id,) if is_iter else ())
                res.append(s)
            return res
        if isinstance(n, ast.AugAssign):
            self.before_store(n.target, st, fq, n)
            tv = self.ev(n.target, st, fq) if not isinstance(n.target, ast.Name) else st.env.get(n.target.id, OPAQUE)
            v = self.ev(n.value, st, fq)
            if isinstance(n.target, ast.Subscript):
                base = self.ev(n.target.value, st, fq)
                if isinstance(base, Roots):
                    if self.unknown_value(v, n.value) and self.mentions_arrays(n.value, st):
                        self.problem(st, "store-undecided", f"the value combined in by `{src(n)[:70]}` could not be followed back to "
                                     "the arrays of the transpose", n, fq)
                    self.event(st, set(base) | self.roots_of(v), self.write_roots(st, base, n, fq), n, fq)
                elif isinstance(base, Fresh):
                    self.grow_fresh(n.target, base, self.roots_of(v), st)
                elif isinstance(base, list):
                    idx = self.ev(n.target.slice, st, fq)
                    if isinstance(idx, int) and not isinstance(idx, bool) and -len(base) <= idx < len(base):
                        base[idx] = OPAQUE
                    elif isinstance(n.target.value, ast.Name):
                        st.env[n.target.value.id] = OPAQUE
                elif base is OPAQUE and self.mentions_arrays(n.target.value, st):
                    self.problem(st, "store-undecided", f"`{src(n)[:70]}` updates something computed from the arrays that could not be "
                                 "followed", n, fq)
            elif isinstance(n.target, ast.Name):
                if isinstance(tv, Roots):
                    if self.unknown_value(v, n.value) and self.mentions_arrays(n.value, st):
                        self.problem(st, "store-undecided", f"the value combined in by `{src(n)[:70]}` could not be followed back to "
                                     "the arrays of the transpose", n, fq)
                    self.event(st, set(tv) | self.roots_of(v), self.write_roots(st, tv, n, fq), n, fq)
                elif isinstance(tv, Fresh):
                    st.env[n.target.id] = Fresh(frozenset(tv.derived | self.roots_of(v)))
                elif isinstance(tv, int) and isinstance(v, int) and not isinstance(tv, bool) and not isinstance(v, bool):
                    b = ast.BinOp(left=ast.Constant(tv), op=n.op, right=ast.Constant(v))
                    st.env[n.target.id] = self.ev(b, st, fq)
                else:
                    # (a list that is extended, a counter with an unknown step ...)
                    st.env[n.target.id] = OPAQUE
                    self.set_taint(st, n.target.id, n.target.id in self.tainted(st) or self.mentions_arrays(n.value, st))
            elif isinstance(n.target, ast.Attribute):
                s_ = src(n.target)
                if s_ in st.env:
                    st.env[s_] = OPAQUE
                    if s_.startswith("self."):
                        st.tok = st.tok.with_(attrs=tuple(x for x in st.tok.attrs if x[0] != s_) + ((s_, OPAQUE),))
            return [st]
        if isinstance(n, ast.Expr):
            v = n.value
            if isinstance(v, ast.Call):
                f = v.func
                if isinstance(f, ast.Attribute) and f.attr in LIST_MUTATORS and isinstance(f.value, ast.Name) \
                        and isinstance(st.env.get(f.value.id), list):
                    # a list that is appended to / reordered is no longer the known list
                    tainted = self.mentions_arrays(v, st)
                    st.env[f.value.id] = OPAQUE
                    self.set_taint(st, f.value.id, tainted)
                    return [st]
                return [s for s, _ in self.exec_call(v, st, fq, want_value=False)]
            if isinstance(v, (ast.Yield, ast.YieldFrom)):
                if isinstance(v, ast.Yield) and st.env.get("<yields>") is not None:
                    st.env["<yields>"] = tuple(st.env["<yields>"]) + (self.ev(v.value, st, fq) if v.value is not None else None,)
                elif "<yields>" in st.env:
                    st.env["<yields>"] = None          # `yield from`: the items are not known
                return [st]
            if isinstance(v, ast.Await):
                self.problem(st, "stmt-undecided", f"`{src(n)[:70]}`: asynchronous calls are not followed", n, fq)
                return [st]
            self.ev(v, st, fq)          # (walrus bindings, calls inside the expression)
            return [st]
        if isinstance(n, ast.If):
            t = self.ev(n.test, st, fq)
            ts = src(n.test)
            av = self.assumed_value(n.test)
            if av is not None:
                t = av
            if t is True:
                return self.block(n.body, [st], fq)
            if t is False:
                return self.block(n.orelse, [st], fq)
            a = st.fork()
            b = st.fork()
            a.tok = a.tok.with_(assumed=a.tok.assumed + (ts,))
            b.tok = b.tok.with_(assumed=b.tok.assumed + ("not (" + ts + ")",))
            self.refine(n.test, True, a)
            self.refine(n.test, False, b)
            return self.block(n.body, [a], fq) + self.block(n.orelse, [b], fq)
        if isinstance(n, ast.For):
            it = self.ev(n.iter, st, fq)
            if isinstance(n.iter, ast.Name) and n.iter.id in st.env.get("<iters>", ()) and isinstance(it, (list, tuple)):
                outs = self.run_loop(n, [st], fq, it)
                for s_ in outs:
                    s_.env[n.iter.id] = []          # the iterator is exhausted
                return outs
            if not isinstance(it, (list, tuple)):
                # AUDIT: an unknown sequence is read as one-or-more iterations, the body twice (stability); an element of an
                # array is a view of it (also through enumerate / zip / reversed).  That is only safe for loops that copy
                # block by block; a loop whose iterations carry out layout steps must be enumerated: undecided
                if self.moves_field(n):
                    self.problem(st, "loop-undecided", f"the iterations of `for {src(n.target)} in {src(n.iter)[:50]}`, which carry out "
                                 "layout steps, could not be enumerated", n, fq)
                x = self.abstract_elem(n.iter, st, fq)
                if x is OPAQUE and self.mentions_arrays(n.iter, st):
                    for nm in _names_of_target(n.target):
                        self.set_taint(st, nm, True)
                it = [x, x]
            return self.run_loop(n, [st], fq, it)
        if isinstance(n, ast.While):
            if self.moves_field(n):
                self.problem(st, "loop-undecided", f"the iterations of `while {src(n.test)[:50]}`, which carry out layout steps, could "
                             "not be enumerated", n, fq)
            t = self.ev(n.test, st, fq)
            if t is False:
                return self.block(n.orelse, [st], fq) if n.orelse else [st]
            return self.run_loop(n, [st], fq, [None, None])
        if isinstance(n, ast.Return):
            st.ret = True
            st.retval = self.ev(n.value, st, fq) if n.value is not None else None
            return [st]
        if isinstance(n, (ast.Continue, ast.Break)):
            # leave the iteration: nothing more of the body runs for this state (the loop resets the mark)
            st.env["<loopctl>"] = "continue" if isinstance(n, ast.Continue) else "break"
            st.ret = True
            return [st]
        if isinstance(n, (ast.Assert, ast.Pass, ast.Import, ast.ImportFrom, ast.Global, ast.Nonlocal)):
            return [st]
        if isinstance(n, ast.Delete):
            for t in n.targets:
                for nm in _names_of_target(t):
                    st.env[nm] = OPAQUE
                    self.set_taint(st, nm, False)
            return [st]
        if isinstance(n, ast.Raise):
            st.ret = True
            st.tok = st.tok.with_(assumed=st.tok.assumed + ("<raises>",))
            return [st]
        if isinstance(n, ast.With):
            for it_ in n.items:
                v = self.ev(it_.context_expr, st, fq)
                if it_.optional_vars is not None:
                    # `with X as y`: y is whatever X.__enter__() returns: unknown (and possibly one of the arrays X was built from)
                    for nm in _names_of_target(it_.optional_vars):
                        st.env[nm] = OPAQUE
                        self.set_taint(st, nm, self.mentions_arrays(it_.context_expr, st))
            return self.block(n.body, [st], fq)
        if isinstance(n, ast.Try):
            # body, else and finally are what normally runs; handlers are the exceptional path and are not followed.
            # AUDIT: that reading is only safe when no handler does part of the work: a handler that stores into / passes on
            # the arrays makes the path undecided
            for h in n.handlers:
                for x in h.body:
                    if any(isinstance(y, (ast.Subscript, ast.Call)) and self.mentions_arrays(y, st) for y in ast.walk(x)):
                        self.problem(st, "try-undecided", f"the handler `except {src(h.type) if h.type else ''}` uses the arrays; the path "
                                     "through it is not followed", h, fq)
                        break
            states = self.block(n.body, [st], fq)
            states = self.block(n.orelse, states, fq) if n.orelse else states
            if n.finalbody:
                for s_ in states:
                    s_.fin_ret, s_.ret = s_.ret, False
                states = self.block(n.finalbody, states, fq)
                for s_ in states:
                    s_.ret = s_.ret or getattr(s_, "fin_ret", False)
            return states
        if isinstance(n, (ast.FunctionDef, ast.ClassDef)):
            if isinstance(n, ast.FunctionDef):
                st.env[n.name] = Closure(n)
                self.set_taint(st, n.name, False)
            return [st]
        # AUDIT (default branch): match / async for / async with / try* / type aliases ...: not modelled.  A statement that is
        # not read has not `no effect`: when it contains a store or a call the path is undecided
        if any(isinstance(y, (ast.Call, ast.Assign, ast.AugAssign, ast.AnnAssign, ast.NamedExpr, ast.Delete)) for y in ast.walk(n)):
            self.problem(st, "stmt-undecided", f"`{src(n)[:60]}`: this kind of statement ({type(n).__name__}) is not followed", n, fq)
        return [st]

    def is_generator_call(self, e: ast.Call):
        try:
            tg = self.prog.resolve(e, self.rel)
        except Exception:
            return False
        return bool(tg) and all(any(isinstance(y, (ast.Yield, ast.YieldFrom)) for y in ast.walk(n)) for _, _, n in tg)

    def run_loop(self, n, states, fq, items):
        """the body once per item; `continue` ends the pass of a state, `break` takes it out of the loop"""
        left = []
        for x in items:
            if isinstance(n, ast.For):
                for s_ in states:
                    if not s_.ret:
                        self.bind_target(n.target, x, s_)
            states = self.block(n.body, states, fq)
            nxt = []
            for s_ in states:
                ctl = s_.env.pop("<loopctl>", None)
                if ctl is not None:
                    s_.ret = False
                (left if ctl == "break" else nxt).append(s_)
            states = self.merge(nxt)
        out = states
        if getattr(n, "orelse", None):
            out = self.block(n.orelse, out, fq)
        return self.merge(out + left)

    def refine(self, test, truth, st):
        """learn from `a == b` on name symbols (source_name == dest_name)"""
        if isinstance(test, ast.Compare) and len(test.ops) == 1 and isinstance(test.ops[0], ast.Eq) and truth:
            a, b = test.left, test.comparators[0]
            if isinstance(a, ast.Name) and isinstance(b, ast.Name):
                va, vb = st.env.get(a.id), st.env.get(b.id)
                if isinstance(va, Sym) and isinstance(vb, Sym) and va.kind == "name" and vb.kind == "name":
                    # the two names denote one layout on this path: every value already derived from `b` is rewritten too
                    # (look-ups hoisted above the test must not keep the other name)
                    for k in list(st.env):
                        st.env[k] = _subst_sym(st.env[k], vb, va)
                    st.tok = _subst_sym(st.tok, vb, va)
                    st.env[b.id] = va
                    st.env["<same-name>"] = True

    def bind_target(self, t, val, st):
        if isinstance(t, ast.Name):
            st.env[t.id] = val
            if val is not OPAQUE:
                self.set_taint(st, t.id, False)
        elif isinstance(t, (ast.Tuple, ast.List)):
            stars = [i for i, e in enumerate(t.elts) if isinstance(e, ast.Starred)]
            if isinstance(val, (tuple, list)) and not stars and len(val) == len(t.elts):
                for e, v in zip(t.elts, val):
                    self.bind_target(e, v, st)
            elif isinstance(val, (tuple, list)) and len(stars) == 1 and len(val) >= len(t.elts) - 1:
                # a, *rest = xs
                i = stars[0]
                after = len(t.elts) - i - 1
                for e, v in zip(t.elts[:i], val[:i]):
                    self.bind_target(e, v, st)
                self.bind_target(t.elts[i].value, list(val[i:len(val) - after]), st)
                for e, v in zip(t.elts[i + 1:], val[len(val) - after:]):
                    self.bind_target(e, v, st)
            else:
                for e in t.elts:
                    self.bind_target(e, OPAQUE, st)
        elif isinstance(t, ast.Starred):
            self.bind_target(t.value, OPAQUE, st)
        elif isinstance(t, ast.Attribute):
            st.env[src(t)] = val
        # (a subscript as loop target stores into a sequence: nothing is bound)

    def assign(self, t, val, value_node, st: State, fq, node):
        if isinstance(t, ast.Name):
            self.assign_name(st, t.id, val, value_node)
        elif isinstance(t, (ast.Tuple, ast.List)):
            stars = [i for i, e in enumerate(t.elts) if isinstance(e, ast.Starred)]
            if isinstance(val, (tuple, list)) and not stars and len(val) == len(t.elts):
                for e, v in zip(t.elts, val):
                    self.assign(e, v, None, st, fq, node)
            elif stars and isinstance(val, (tuple, list)) and len(stars) == 1 and len(val) >= len(t.elts) - 1:
                i = stars[0]
                after = len(t.elts) - i - 1
                parts = list(val[:i]) + [list(val[i:len(val) - after])] + list(val[len(val) - after:])
                for e, v in zip(t.elts, parts):
                    self.assign(e.value if isinstance(e, ast.Starred) else e, v, None, st, fq, node)
            else:
                for e in t.elts:
                    e_ = e.value if isinstance(e, ast.Starred) else e
                    self.assign(e_, OPAQUE, None, st, fq, node)
                    # parts of a value the interpreter lost: each may be one of the arrays it was computed from
                    if isinstance(e_, ast.Name) and value_node is not None and self.mentions_arrays(value_node, st):
                        self.set_taint(st, e_.id, True)
        elif isinstance(t, ast.Starred):
            self.assign(t.value, OPAQUE, None, st, fq, node)
        elif isinstance(t, ast.Subscript):
            base = self.ev(t.value, st, fq)
            if isinstance(base, Roots):
                # AUDIT: the store is applied to the token as `writes base, reads the arrays of val`; a value that could not be
                # followed (neither a view/copy of known arrays nor a literal number) may carry the field: undecided, never read
                # as `writes nothing of the field`
                if self.unknown_value(val, value_node):
                    self.problem(st, "store-undecided", f"the value stored by `{src(node)[:70]}` could not be followed back to the arrays "
                                 "of the transpose", node, fq)
                tv = self.ev(t, st, fq)
                self.check_extent(st, tv, node, fq, "destination")
                self.check_extent(st, val, node, fq, "source")
                self.event(st, self.roots_of(val), self.write_roots(st, base, node, fq), node, fq)
            elif isinstance(base, MaybeView):
                pass                                       # (before_store has made the path undecided)
            elif isinstance(base, Fresh):
                # a local array: it now also holds what the stored value was computed from
                if self.unknown_value(val, value_node) and value_node is not None and self.mentions_arrays(value_node, st):
                    self.problem(st, "store-undecided", f"the value stored by `{src(node)[:70]}` into a local array could not be "
                                 "followed back to the arrays of the transpose", node, fq)
                self.grow_fresh(t, base, self.roots_of(val), st)
            elif isinstance(base, list):
                idx = self.ev(t.slice, st, fq)
                if isinstance(idx, int) and not isinstance(idx, bool) and -len(base) <= idx < len(base):
                    base[idx] = val
                elif isinstance(t.value, ast.Name):
                    # AUDIT: a store at a position that is not known changes SOME item: the list is no longer the known list
                    tainted = self.mentions_arrays(t.value, st) or (value_node is not None and self.mentions_arrays(value_node, st))
                    st.env[t.value.id] = OPAQUE
                    self.set_taint(st, t.value.id, tainted)
            elif base is OPAQUE and self.mentions_arrays(t.value, st):
                # AUDIT: a store through a value the interpreter lost is not `no store`: when that value was computed from the
                # arrays it may be a view of one of them
                self.problem(st, "store-undecided", f"`{src(node)[:70]}` stores through `{src(t.value)[:40]}`, which was computed from the "
                             "arrays of the transpose but could not be followed", node, fq)
        elif isinstance(t, ast.Attribute):
            s = src(t)
            st.env[s] = val
            if s.startswith("self."):
                st.tok = st.tok.with_(attrs=tuple(x for x in st.tok.attrs if x[0] != s) + ((s, val),))
            if t.attr in ("flat", "real", "imag"):
                base = self.ev(t.value, st, fq)
                if isinstance(base, Roots):
                    if self.unknown_value(val, value_node):
                        self.problem(st, "store-undecided", f"the value stored by `{src(node)[:70]}` could not be followed back to the "
                                     "arrays of the transpose", node, fq)
                    rd = self.roots_of(val) | (set(base) if t.attr != "flat" else set())
                    self.event(st, rd, self.write_roots(st, base, node, fq), node, fq)
                elif isinstance(base, Fresh):
                    self.grow_fresh(t.value, base, self.roots_of(val), st)
                elif base is OPAQUE and self.mentions_arrays(t.value, st):
                    self.problem(st, "store-undecided", f"`{src(node)[:70]}` stores through a value computed from the arrays that could "
                                 "not be followed", node, fq)

    # ------------------------------------------------------------ calls
    def exec_call(self, e: ast.Call, st: State, fq, want_value) -> list[tuple[State, object]]:
        f = e.func
        name = f.id if isinstance(f, ast.Name) else f.attr if isinstance(f, ast.Attribute) else ""
        # MPI collectives with buffer arguments
        if name in COLLECTIVES and (len(e.args) >= 2 or (e.args and any(k.arg in ("recvbuf",) for k in e.keywords))) \
                and not any(isinstance(a, ast.Starred) for a in e.args[:2]):
            # AUDIT (the field moves from the send to the receive buffer): true when both buffers are views of known arrays.  A
            # buffer that was not followed makes the path undecided; a local array that receives takes over what the send buffer
            # holds.  Bcast / Reduce-family calls with ONE buffer (in place) are not modelled: see below
            def first(x):
                v = self.ev(x, st, fq)
                if isinstance(v, (tuple, list)) and v:
                    return v[0]
                return v
            rnode = e.args[1] if len(e.args) >= 2 else next(k.value for k in e.keywords if k.arg == "recvbuf")
            s_, r_ = first(e.args[0]), first(rnode)
            if name in ("Bcast",):
                # Bcast(buf, root): one buffer, overwritten on the non-root ranks: not a move of the field this engine follows
                if isinstance(s_, (Roots, MaybeView)) or self.mentions_arrays(e.args[0], st):
                    self.problem(st, "call-undecided", f"`{src(e)[:60]}` overwrites its buffer on all but one rank; not followed", e, fq)
                return [(st, OPAQUE)]
            for v, a, role in ((s_, e.args[0], "send"), (r_, rnode, "receive")):
                if not isinstance(v, (Roots, Fresh)) and not (role == "send" and src(a) in ("MPI.IN_PLACE", "IN_PLACE")):
                    self.problem(st, "array-argument-undecided", f"the {role} buffer `{src(a)[:50]}` of `{src(e)[:60]}` could not be followed", e, fq)
            if isinstance(r_, MaybeView):
                self.problem(st, "store-undecided", f"the receive buffer `{src(rnode)[:50]}` may be a copy or the array itself", e, fq)
            elif isinstance(r_, Fresh):
                b = rnode
                if isinstance(b, (ast.Tuple, ast.List)) and b.elts:
                    b = b.elts[0]
                if not self.grow_fresh(b, r_, self.roots_of(s_), st):
                    self.problem(st, "array-argument-undecided", f"the local receive buffer `{src(rnode)[:50]}` of `{src(e)[:60]}` could not be followed", e, fq)
            rd = self.roots_of(s_)
            if src(e.args[0]) in ("MPI.IN_PLACE", "IN_PLACE"):
                rd = self.roots_of(r_)          # in place: the receive buffer is also what is sent
            self.event(st, rd, self.write_roots(st, r_, e, fq) if isinstance(r_, Roots) else set(), e, fq,
                       what=f"{name}({src(e.args[0])[:30]} -> {src(rnode)[:30]})")
            return [(st, OPAQUE)]
        if name in COLLECTIVES:
            # a collective in a call form that is not read (keyword buffers, star-expanded arguments, one in-place buffer)
            if self.mentions_arrays(e, st):
                self.problem(st, "array-argument-undecided", f"the buffers of `{src(e)[:60]}` could not be identified", e, fq)
            return [(st, OPAQUE)]
        if isinstance(f, ast.Name) and isinstance(st.env.get(f.id), Closure):
            return self.invoke_closure(e, st.env[f.id], st, fq)
        tg = self.prog.resolve(e, self.rel)
        tg = [(r, q, n) for r, q, n in tg if r == self.rel]
        if not tg:
            # (evaluated also when the value is not wanted: numpy out= stores, array methods, calls that are handed an array)
            v = self.ev(e, st, fq)
            return [(st, v if want_value else OPAQUE)]
        outs = []
        # receiver-typed dispatch may give several candidates (LayoutHandler/LayoutSwapper); analyse each
        cands = tg
        if len(cands) > 1:
            recv = self.ev(f.value, st, fq) if isinstance(f, ast.Attribute) else None
            if isinstance(f, ast.Attribute) and isinstance(f.value, ast.Name) and f.value.id == "self":
                own = [c for c in cands if c[1].split(".")[0] == self.cls]
                cands = own or cands
            elif isinstance(recv, Sym) and recv.kind == "mgr":
                own = [c for c in cands if c[1].split(".")[0] == "LayoutHandler"]
                cands = own or cands
        for r, q, node in cands[:1] if len(cands) == 1 else cands:
            s2 = st.fork() if len(cands) > 1 else st
            if any(isinstance(y, (ast.Yield, ast.YieldFrom)) for y in ast.walk(node)):
                # a generator: calling it runs nothing; its items are read where it is consumed (generator_items)
                items = self.generator_items(e, s2, fq)
                if items is None and self.mentions_arrays(e, s2):
                    self.problem(s2, "call-undecided", f"the generator `{src(e)[:60]}` is handed arrays and could not be read", e, fq)
                outs.append((s2, items if items is not None else OPAQUE))
                continue
            outs.extend(self.invoke(e, q, node, s2, fq))
        return outs

    def bind_args(self, call: ast.Call, fn, st: State, fq, skip_first=None):
        """parameter name -> abstract value for a call of `fn`.  Positional, keyword, default and keyword-only parameters;
        `*seq` stands for the items of seq when they are known, `**d` for the items of a dict display; otherwise every
        parameter not bound explicitly is unknown (never the default, never the sequence itself)"""
        a_ = fn.args
        params = [a.arg for a in a_.posonlyargs + a_.args]
        static = any(isinstance(d, ast.Name) and d.id == "staticmethod" for d in getattr(fn, "decorator_list", []))
        if skip_first is None:
            skip_first = bool(params) and params[0] in ("self", "cls") and not static
        if skip_first and isinstance(call.func, ast.Attribute) and isinstance(call.func.value, ast.Name) \
                and call.func.value.id in self.prog.classes and call.args and not isinstance(call.args[0], ast.Starred):
            skip_first = False          # Class.method(obj, ...): the object is passed explicitly
        if skip_first:
            params = params[1:]
        dvals = dict(zip(params[len(params) - len(a_.defaults):], a_.defaults)) if a_.defaults else {}
        for p, d in zip(a_.kwonlyargs, a_.kw_defaults):
            if d is not None:
                dvals[p.arg] = d
        allp = params + [p.arg for p in a_.kwonlyargs]
        bound, pos, star_unknown = {}, [], False
        for a in call.args:
            if isinstance(a, ast.Starred):
                v = self.ev(a.value, st, fq)
                if isinstance(v, (tuple, list)):
                    pos += list(v)
                else:
                    star_unknown = True
                    break
            else:
                pos.append(self.ev(a, st, fq))
        for i, v in enumerate(pos):
            if i < len(params):
                bound[params[i]] = v
        if len(pos) > len(params) and a_.vararg is not None:
            bound[a_.vararg.arg] = tuple(pos[len(params):])
        extra_kw = {}
        for k in call.keywords:
            if k.arg is None:
                if isinstance(k.value, ast.Dict) and all(isinstance(x, ast.Constant) and isinstance(x.value, str) for x in k.value.keys):
                    for kk, vv in zip(k.value.keys, k.value.values):
                        (bound if kk.value in allp else extra_kw)[kk.value] = self.ev(vv, st, fq)
                else:
                    star_unknown = True
            elif k.arg in allp:
                bound[k.arg] = self.ev(k.value, st, fq)
            else:
                extra_kw[k.arg] = self.ev(k.value, st, fq)
        for p in allp:
            if p not in bound:
                bound[p] = OPAQUE if star_unknown else (self.ev(dvals[p], st, fq) if p in dvals else OPAQUE)
        if a_.vararg is not None and a_.vararg.arg not in bound:
            bound[a_.vararg.arg] = OPAQUE if star_unknown else ()
        if a_.kwarg is not None:
            bound[a_.kwarg.arg] = OPAQUE
        return bound, allp, dvals, star_unknown

    def invoke_closure(self, call: ast.Call, clo: "Closure", st: State, fq):
        """a local function / lambda called in the function that defines it: its body is read in place, with the caller's locals
        visible (what it binds itself does not leak out, the token and the attributes of self do)"""
        fn = clo.node
        key = f"{fq}.<local {getattr(fn, 'name', 'lambda')}>"
        if key in self.stack or len(self.stack) >= self.max_depth:
            if self.closure_mentions_arrays(clo, st) or self.mentions_arrays(call, st):
                self.problem(st, "call-undecided", f"the local function called by `{src(call)[:60]}` could not be followed (recursion)", call, fq)
            return [(st, OPAQUE)]
        bound, _, _, _ = self.bind_args(call, fn, st, fq, skip_first=False)
        env2 = dict(st.env)
        env2.update(bound)
        for p, v in bound.items():
            if v is not OPAQUE and p in self.tainted(st):
                env2["<mayalias>"] = tuple(x for x in env2.get("<mayalias>", ()) if x != p)
        cs = State(env2, st.tok)
        self.stack.append(key)
        try:
            if isinstance(fn, ast.Lambda):
                if isinstance(fn.body, ast.Call):
                    # (a call may fork the path: followed as a statement, not as a value)
                    outs = []
                    for s_, v in self.exec_call(fn.body, cs, fq, want_value=True):
                        s_.retval = v
                        outs.append(s_)
                else:
                    v = self.ev(fn.body, cs, fq)
                    outs = [cs]
                    cs.retval = v
            else:
                if any(isinstance(y, (ast.Yield, ast.YieldFrom)) for y in ast.walk(fn)):
                    if self.closure_mentions_arrays(clo, st) or self.mentions_arrays(call, st):
                        self.problem(st, "call-undecided", f"the local generator called by `{src(call)[:60]}` is not followed", call, fq)
                    return [(st, OPAQUE)]
                outs = self.block(fn.body, [cs], fq)
        finally:
            self.stack.pop()
        nonlocals = {nm for y in ast.walk(fn) if isinstance(y, ast.Nonlocal) for nm in y.names} if not isinstance(fn, ast.Lambda) else set()
        res = []
        for o in outs:
            s3 = State(dict(st.env), o.tok)
            for k, v in o.env.items():
                if k.startswith("self.") or k in nonlocals or k == "<facts>":
                    s3.env[k] = v
            # lists of the caller that the local function changed in place are shared objects: nothing to copy
            res.append((s3, o.retval))
        return res

    def invoke(self, call: ast.Call, q: str, fn: ast.FunctionDef, st: State, fq) -> list[tuple[State, object]]:
        bound, params, dvals, star_unknown = self.bind_args(call, fn, st, fq)
        short = q.split(".")[-1]
        owner = q.split(".")[0]
        # layout bookkeeping at single-step functions
        lay_src = bound.get("layout_source", bound.get("source_name"))
        lay_dst = bound.get("layout_dest", bound.get("dest_name"))
        # a single-step routine is recognised by its signature (source, dest, layout_source, layout_dest), whatever its name
        is_kernel_step = {"source", "dest", "layout_source", "layout_dest"} <= set(params)
        is_step = is_kernel_step or short == "transpose"

        def unwrap(x):
            while isinstance(x, Sym) and x.kind == "layout":
                x = x.arg
            return x
        if is_step and lay_src is not None:
            cur = unwrap(st.tok.layout)
            got = unwrap(lay_src)
            # AUDIT `layout-bookkeeping` (-> D4 violated): true when both the layout the data is in and the layout handed to the
            # step are identified symbols (a layout name of the entry point / a step of the route; distinct symbols are distinct
            # layouts: the route lists intermediate layouts, none of which is the source) and they differ; anything else undecided
            if isinstance(got, Sym) and isinstance(cur, Sym) and got != cur:
                if got.kind in ("name", "step") and cur.kind in ("name", "step"):
                    self.problem(st, "layout-bookkeeping",
                                 f"step called with source layout `{got}` but the data is in layout `{cur}`", call, fq)
                else:
                    self.problem(st, "layout-bookkeeping-undecided",
                                 f"step called with source layout `{got}`; the data is in layout `{cur}`: not comparable", call, fq)
            elif not isinstance(got, Sym):
                self.problem(st, "layout-bookkeeping-undecided",
                             f"cannot identify the source layout argument `{src(call)[:60]}`", call, fq)
        use_contract = (q in self.stack) or (short in self.contract_funcs and self.stack) or len(self.stack) >= self.max_depth
        recv_is_self = isinstance(call.func, ast.Attribute) and isinstance(call.func.value, ast.Name) and call.func.value.id in ("self", "cls")
        recv_is_other_mgr = isinstance(call.func, ast.Attribute) and not (isinstance(call.func.value, ast.Name) and call.func.value.id == "self") \
            and short == "transpose"
        if recv_is_other_mgr:
            use_contract = True
        results = []
        if use_contract:
            if short != "transpose":
                raise AnalysisError(f"recursion through {q} has no contract")
            s_, d_, b_ = bound.get("source"), bound.get("dest"), bound.get("buf")
            # AUDIT (contract of the public transpose: field source -> dest; writes dest and (buf if given else source)): the three
            # arguments must be identified - `buf` too: an unknown `buf` is neither `absent` nor `given`
            if not isinstance(s_, Roots) or not isinstance(d_, Roots) or not (isinstance(b_, Roots) or b_ is None):
                self.problem(st, "contract-args-undecided", f"cannot identify buffers in `{src(call)[:60]}`", call, fq)
                return [(st, OPAQUE)]
            self.event(st, set(s_), self.write_roots(st, d_, call, fq), call, fq, what=f"contract {q}({sorted(s_)}->{sorted(d_)})")
            if isinstance(b_, Roots):
                st.tok = st.tok.with_(writes=st.tok.writes | frozenset(b_))
            else:
                st.tok = st.tok.with_(writes=st.tok.writes | frozenset(s_))
            if is_step and lay_dst is not None:
                st.tok = st.tok.with_(layout=unwrap(lay_dst))
            if owner == "LayoutSwapper" and not recv_is_other_mgr:
                # the swapper's own transpose also updates the current manager
                st.env["self._current_manager"] = Sym("mgr", unwrap(lay_dst))
                st.tok = st.tok.with_(attrs=tuple(x for x in st.tok.attrs if x[0] != "self._current_manager") +
                                      (("self._current_manager", Sym("mgr", unwrap(lay_dst))),))
            return [(st, None)]
        # inline.  The attributes of `self` the caller knows are those of the callee only when the receiver is the same object
        same_obj = recv_is_self or isinstance(call.func, ast.Name)
        env2 = {k: v for k, v in st.env.items() if (k.startswith("self.") and same_obj) or k in ("<same-name>", "<facts>")}
        env2.update(bound)
        env2["self"] = OPAQUE
        taint = [p for p in params if bound.get(p) is OPAQUE and self._arg_mentions_arrays(call, fn, p, st)]
        if taint:
            env2["<mayalias>"] = tuple(sorted(taint))
        env2["<lay_dst>"] = lay_dst if is_kernel_step else None
        env2["<lay_src>"] = lay_src if is_kernel_step else None
        callee_state = State(env2, st.tok)
        self.stack.append(q)
        if is_kernel_step:
            self.laystack.append((lay_src, lay_dst))
        try:
            outs = self.run(fn, callee_state, q)
        finally:
            self.stack.pop()
            if is_kernel_step:
                self.laystack.pop()
        for o in outs:
            s3 = State(dict(st.env), o.tok)
            for k, v in o.env.items():
                if (k.startswith("self.") and same_obj) or k == "<facts>":
                    s3.env[k] = v
            if is_step and lay_dst is not None:
                s3.tok = s3.tok.with_(layout=unwrap(lay_dst))
            results.append((s3, o.retval))
        return results

    def _arg_mentions_arrays(self, call, fn, p, st):
        """was the (unknown) value bound to parameter p computed from the arrays?"""
        params = [a.arg for a in fn.args.posonlyargs + fn.args.args]
        if params and params[0] in ("self", "cls"):
            params = params[1:]
        for k in call.keywords:
            if k.arg == p or k.arg is None:
                if self.mentions_arrays(k.value, st):
                    return True
        if any(isinstance(a, ast.Starred) for a in call.args):
            return any(self.mentions_arrays(a, st) for a in call.args)
        if p in params and params.index(p) < len(call.args):
            return self.mentions_arrays(call.args[params.index(p)], st)
        return False


def _names_of_target(t):
    if isinstance(t, ast.Name):
        return [t.id]
    if isinstance(t, (ast.Tuple, ast.List)):
        return [nm for e in t.elts for nm in _names_of_target(e)]
    if isinstance(t, ast.Starred):
        return _names_of_target(t.value)
    return []
