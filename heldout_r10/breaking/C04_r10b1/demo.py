import sys, os; sys.path.insert(0, os.getcwd())
# C04 demo: a distributed Grid driven through histories of layout changes,
# writes, saves, restores and frees must always show what one undistributed
# numpy array shows.  Ranks are simulated by threads with a small fake mpi4py.
import types, threading, itertools, hashlib, warnings, random
import numpy as np

# ---------------------------------------------------------------- fake mpi4py


class _Group:
    def __init__(self, size):
        self.size = size
        self.barrier = threading.Barrier(size, timeout=120)
        self.slots = [None]*size
        self.lock = threading.Lock()
        self.children = {}


class Comm:
    def __init__(self, group=None, rank=0):
        self.group = group if group is not None else _Group(1)
        self.rank = rank

    def Get_rank(self):
        return self.rank

    def Get_size(self):
        return self.group.size

    def Create_cart(self, dims, periods=None):
        return Cart(self.group, self.rank, [int(d) for d in dims])

    def Alltoall(self, send, recv):
        g = self.group
        n = g.size
        me = self.rank
        g.slots[me] = send
        g.barrier.wait()
        k = send.size//n
        for r in range(n):
            recv[r*k:(r+1)*k] = g.slots[r][me*k:(me+1)*k]
        g.barrier.wait()


class Cart(Comm):
    def __init__(self, group, rank, dims):
        Comm.__init__(self, group, rank)
        self.dims = dims

    def Get_coords(self, rank):
        return [int(c) for c in np.unravel_index(rank, self.dims)]

    def Sub(self, remain):
        coords = self.Get_coords(self.rank)
        fixed = tuple(c for c, k in zip(coords, remain) if not k)
        kept_dims = [d for d, k in zip(self.dims, remain) if k]
        kept = [c for c, k in zip(coords, remain) if k]
        key = (tuple(bool(k) for k in remain), fixed)
        size = int(np.prod(kept_dims)) if kept_dims else 1
        with self.group.lock:
            if key not in self.group.children:
                self.group.children[key] = _Group(size)
            sub = self.group.children[key]
        rank = int(np.ravel_multi_index(kept, kept_dims)) if kept_dims else 0
        return Cart(sub, rank, kept_dims)


_MPI = types.ModuleType('mpi4py.MPI')
_MPI.Comm = Comm
_MPI.COMM_WORLD = Comm()
_MPI.DOUBLE = 'DOUBLE'
_MPI.MIN = 'MIN'
_MPI.MAX = 'MAX'
_pkg = types.ModuleType('mpi4py')
_pkg.MPI = _MPI
sys.modules['mpi4py'] = _pkg
sys.modules['mpi4py.MPI'] = _MPI

import pygyro
assert os.path.abspath(pygyro.__file__).startswith(os.path.abspath(os.getcwd()) + os.sep), pygyro.__file__
from pygyro.model.layout import getLayoutHandler
from pygyro.model.grid import Grid

warnings.simplefilter('ignore')

# ---------------------------------------------------------------- reference

LAYOUTS = {'F': [0, 3, 1, 2], 'V': [0, 2, 1, 3], 'P': [3, 2, 1, 0], 'X': [3, 1, 2, 0]}


def local_block(G, order, nprocs, coords):
    """what a rank must see: the global array, axes permuted, cut blockwise"""
    A = np.transpose(G, order)
    sl = [slice(None)]*A.ndim
    for i, (P, r) in enumerate(zip(nprocs, coords)):
        n = A.shape[i]
        s = [(n//P)*q + ((n % P)*q)//P for q in (r, r+1)]
        sl[i] = slice(s[0], s[1])
    return A[tuple(sl)]


def field(shape, k, cplx):
    G = np.arange(np.prod(shape), dtype=float).reshape(shape)*(k+1) + 0.25*k
    if cplx:
        G = G + 1j*(G[::-1, ::-1, ::-1, ::-1] + 3*k + 1)
    return G


class Failure(Exception):
    pass


def run_history(grid, ops, names, shape, nprocs, coords, cplx, save_mem, digest):
    """ops: sequence of ('L', name) | 'W' | 'S' | 'R' | 'D'"""
    G = field(shape, 0, cplx)
    lay = grid.currentLayout
    grid.getAllData()[:] = local_block(G, LAYOUTS[lay], nprocs, coords)
    saved = None
    for k, op in enumerate(ops):
        refused = False
        try:
            if isinstance(op, tuple):
                grid.setLayout(op[1])
            elif op == 'W':
                pass
            elif op == 'S':
                grid.saveGridValues()
            elif op == 'R':
                grid.restoreGridValues()
            elif op == 'D':
                grid.freeGridSave()
        except AssertionError:
            refused = True
        # the model
        must_refuse = False
        if isinstance(op, tuple):
            lay = op[1]
        elif op == 'W':
            G = field(shape, k+1, cplx)
            grid.getAllData()[:] = local_block(G, LAYOUTS[lay], nprocs, coords)
        elif op == 'S':
            if save_mem and saved is None:
                saved = (G.copy(), lay)
            else:
                must_refuse = True
        elif op == 'R':
            if save_mem and saved is not None:
                G, lay = saved
                saved = None
            else:
                must_refuse = True
        elif op == 'D':
            if save_mem and saved is not None:
                saved = None
            else:
                must_refuse = True
        if refused != must_refuse:
            raise Failure("op %d of %r: refused=%s, expected refused=%s" % (k, ops, refused, must_refuse))
        want = local_block(G, LAYOUTS[lay], nprocs, coords)
        got = grid.getAllData()
        if grid.currentLayout != lay:
            raise Failure("op %d of %r: layout %s, expected %s" % (k, ops, grid.currentLayout, lay))
        if got.shape != want.shape or not np.array_equal(got, want):
            raise Failure("op %d of %r: field differs from the undistributed model (rank coords %s)" % (k, ops, coords))
        digest.update(np.ascontiguousarray(got).tobytes())
        digest.update(lay.encode())


def histories(names, exhaustive_len, n_random, random_len, seed):
    alphabet = [('L', n) for n in names] + ['W', 'S', 'R', 'D']
    for L in range(1, exhaustive_len+1):
        for h in itertools.product(alphabet, repeat=L):
            yield h
    rng = random.Random(seed)
    for _ in range(n_random):
        yield tuple(rng.choice(alphabet) for _ in range(random_len))


def run_config(nprocs, shape, names, cplx, save_mem, exhaustive_len, n_random, random_len=14):
    nranks = int(np.prod(nprocs))
    world = _Group(nranks)
    errors = []
    digests = [hashlib.sha256() for _ in range(nranks)]
    hist = list(histories(names, exhaustive_len, n_random, random_len, seed=hash((tuple(nprocs), shape, cplx)) % 1000))

    def rank_main(rank):
        try:
            comm = Comm(world, rank)
            eta = [np.linspace(0, 1, n) for n in shape]
            lm = getLayoutHandler(comm, {n: LAYOUTS[n] for n in names}, list(nprocs), eta)
            coords = lm.mpiCoords
            for i, h in enumerate(hist):
                start = names[i % len(names)]
                grid = Grid(eta, [None]*4, lm, start, comm=comm,
                            dtype=(np.complex128 if cplx else float), allocateSaveMemory=save_mem)
                run_history(grid, h, names, shape, nprocs, coords, cplx, save_mem, digests[rank])
        except BaseException as e:  # noqa
            errors.append((rank, e))
            for g in [world] + list(world.children.values()):
                g.barrier.abort()

    threads = [threading.Thread(target=rank_main, args=(r,)) for r in range(nranks)]
    for t in threads:
        t.start()
    for t in threads:
        t.join()
    real = [(r, e) for r, e in errors if not isinstance(e, threading.BrokenBarrierError)]
    return (real or errors), [d.hexdigest() for d in digests], len(hist)


def main():
    configs = [
        # nprocs, shape, layout names, complex, save memory, exhaustive length, random histories
        ([1], (3, 4, 2, 5), ['F', 'V', 'P'], False, True, 4, 40),
        ([2], (4, 3, 2, 5), ['F', 'V', 'P'], True, True, 3, 40),
        ([3], (5, 3, 2, 4), ['F', 'V', 'P'], False, False, 2, 30),
        ([2, 2], (4, 6, 2, 4), ['F', 'V', 'P'], False, True, 3, 40),
        ([2, 2], (5, 3, 4, 6), ['F', 'V', 'P', 'X'], True, True, 2, 40),
        ([2, 3], (4, 5, 6, 7), ['F', 'V', 'P', 'X'], False, True, 2, 30),
        ([2, 2], (4, 5, 3, 6), ['F', 'V', 'P'], False, False, 2, 30),
    ]
    bad = 0
    total = hashlib.sha256()
    for nprocs, shape, names, cplx, save_mem, ex, nr in configs:
        errors, digests, nh = run_config(nprocs, shape, names, cplx, save_mem, ex, nr)
        tag = "nprocs=%s shape=%s layouts=%s %s save=%s (%d histories)" % (
            nprocs, shape, ''.join(names), 'complex' if cplx else 'real', save_mem, nh)
        if errors:
            bad += 1
            r, e = errors[0]
            print("VIOLATED", tag, "\n   rank", r, type(e).__name__, e)
        else:
            print("ok      ", tag, digests[0][:12])
            for d in digests:
                total.update(d.encode())
    print("digest of everything observed:", total.hexdigest())
    if bad:
        print("PROPERTY C04 VIOLATED in %d configuration(s)" % bad)
        return 1
    print("PROPERTY C04 HOLDS")
    return 0


if __name__ == '__main__':
    sys.exit(main())
