"""C20 - process-grid selection (narrow claim: the structural clauses).

Every rule is three-valued.  HOLDS: the statements carrying the argument are found (up to the names of locals, tuple
assignments, hoisted loop invariants, helper functions written back in place, keyword arguments, `<`/`<=` with a
shifted integer bound).  VIOLATED: a recognised wrong form (wrong dimension under a bound, failure test that is not the
negated scan bound, process count of another communicator, extents replaced one without the other, a memoised table
changed in place, an iteration that changes nothing).  Anything else is UNDECIDED.

Round 4 (relational forms):
 - N1-call-site also compares the two READS of the grid sizes: the attribute handed to the search and the reads the grids of
   the layouts are computed from (backward slice of getLayoutHandler's eta_grids) must see the same object state: a store into
   the constants object between them is VIOLATED with both reads quoted.
 - N1-bounds: a bound written `min(npts[o[k]] for o in T)` is followed through T (module constant table -> compared with the
   standard layouts; `layouts.values()` of a parameter -> holds relationally for position k, and the call sites must hand the
   dictionary they give to getLayoutHandler).
 - N2 on a search written over a TABLE of candidates (`_Coll`: integers lo..hi, filtered by divisibility / admissibility, list
   comprehension or masked arange, slices `X[i+1:]`, `range(r1 + 1, ...)`): `for ... else: raise`, `if <table empty>: raise`,
   and `if quotient > bound: raise` on one pre-selected element (wrong unless that element is the largest candidate).

Round 5 (facts derived independently of the statement shape):
 - N1-result-of-search: every value compute_2d_process_grid hands back is followed (names, unpacked pairs, tuple()/list()) to a call
   of the search; a pair built otherwise (fallback in a handler of the search's error, early return) is judged by the conditions on
   the path to it: HOLDS when they bound every dimension the standard layouts distribute along the extent's direction, VIOLATED
   with the missing dimension quoted otherwise; a handler that raises again on every path holds.  The same for a handler around
   the call in the set-up functions.  The call of the search is found wherever it stands (try body, assignment, return).
 - caller + callee as the unit: the communicator query moved into compute_2d_process_grid (second parameter = communicator) and
   the bounds computed by the set-up function with a direct call of the search are both composed before comparing; the pair is
   followed from the call to getLayoutHandler through unpacking / indexing / packing (swapped order = VIOLATED).
 - normal form: a counter kept with another origin (read only as k + c) is replaced by the value it stands for, the odd read
   out staying visible; copies that only rename a value between the phases of a function are coalesced; optional parameters
   with a literal default that no caller passes are bound to it; `_cmp` reads `v + c <op> B`.
 - N2: several `return <same pair>` (early return inside the refinement = break); store checks are path-sensitive (a branch that
   leaves the iteration does not count); a refinement with no test of the quotient is decided by the one-bit invariant
   `candidate >= current + 1` on every path to the acceptance (so its quotient is not above the current, admissible one); a
   generator consumed by the first search and continued by the second is the candidates after the stop.
 - N2-early-exit: `if <condition on the count>: return <pair of 1 / count>` before the search is judged on its own and taken out.
 - N4-result-table: a hand-written table of earlier results: writer key == reader key, key holds every argument.

Rounds 6-7 (soundness audit of every VIOLATED verdict; the assumptions are written next to each one as `ASSUMPTION...` comments):
 - N3-no-stuck-iteration: VIOLATED needs (S1) the loop state to be plain names only (no attribute / element / iterator / foreign call
   in the loop) and (S2) the decisions on the state-preserving path to be jointly satisfiable (`_path_feasible`: atoms `v <= B + k`,
   `v > B + k`, `M % v (!)= 0`, exit conditions of the inner loops on the way); otherwise UNDECIDED.
 - normal form: small immutable records (NamedTuple / namedtuple / frozen dataclass) are written back as one local per field
   (`_scalarise_records`, straight-line methods inlined), copies are propagated forward inside a block (`_propagate_copies`).
 - N2-bound-on-every-path: abstract walk deciding that the first extent was compared with its bound on every path to the return;
   VIOLATED only when a path exists on which it never is, its value does not depend on the bound by data or control, and no decision
   on the path that depends on the bound could bound it (a start value computed from the other bound that skips the loop holding the
   only test).
 - order of the returned pair: decided end to end (search -> compute_2d_process_grid -> call site), an even number of reversals holds.
 - the standard layouts are found by role when setups.py no longer writes them as literals (`_standard_layouts`: the dictionary
   handed to getLayoutHandler followed to a module-level table / a function returning a copy of it); `f(*[E(k) for k in range(N)], m)`
   and `min(npts[d] for d in sorted({o[k] for o in T.values()}))` (through a one-line helper) are read.
 - softened to UNDECIDED: `global` declarations, in-place changes of possibly copied (sliced) memoised lists, changes of the process
   count that are not literal shifts, stores by computed name that cannot be shown to hit `npts`, split communicators whose size is
   adjusted by other than literal shifts, handlers that go on with a computed grid, a lone extent store when the other is stored
   elsewhere, tables starting at 2 after an early exit for the candidate 1, failure-guard forms when there are several raise/assert.

Round 9:
 - N1-call-site: equal communicator NAMES at the read of the size and at getLayoutHandler are the same communicator only if the same
   bindings of the name reach both places (`_reaching`: structured reaching definitions, over-approximated in loops / try / match).
   A `name = R.Split(...)` that lies after the read, reaches the handler, splits the communicator whose size was read and is executed
   on a free input is VIOLATED (stale process count); any other difference is UNDECIDED.
 - N3-bounded-recursion: no function reachable from the search is on a cycle of the module's call graph (HOLDS); a function that
   calls itself with one parameter moved by a literal step until it meets another argument / divides one has a call depth chosen by
   the caller: RecursionError (a RuntimeError, like the search's own error) although a grid exists -> VIOLATED; other recursion UNDECIDED.
"""
from __future__ import annotations

import ast
import copy

from ..core import src, AnalysisError, parent, same_expr, increment_of, clone
from .. import units as U
from .. import ispace as I
from .. import lints

GRID = "compute_2d_process_grid"
FROM_MAX = "compute_2d_process_grid_from_max"
SUBCOMM_CALLS = {"Split", "Split_type", "Create", "Create_group", "Create_cart", "Sub", "Create_graph"}


# ---------------------------------------------------------------------------------------------------------
# local normal form of the two small integer functions of process_grid.py (on a copy of the syntax tree)
# ---------------------------------------------------------------------------------------------------------
_PURE_CALLS = {"min", "max", "abs", "int", "len"}


def _blocks_of(node):
    """every statement list under node"""
    for n in ast.walk(node):
        for f in ("body", "orelse", "finalbody"):
            b = getattr(n, f, None)
            if isinstance(b, list) and b and isinstance(b[0], ast.stmt):
                yield b


def _root_name(e):
    while isinstance(e, (ast.Subscript, ast.Attribute)):
        e = e.value
    return e.id if isinstance(e, ast.Name) else None


def _pure(e):
    for n in ast.walk(e):
        if isinstance(n, ast.Call):
            if not (isinstance(n.func, ast.Name) and n.func.id in _PURE_CALLS) or n.keywords:
                return False
        elif isinstance(n, (ast.Lambda, ast.Await, ast.Yield, ast.YieldFrom, ast.NamedExpr, ast.ListComp, ast.GeneratorExp,
                            ast.SetComp, ast.DictComp, ast.Starred, ast.Attribute)):
            return False
    return True


def _written(fn):
    """names whose value, or the object they name, can change inside fn"""
    out = set()
    for n in ast.walk(fn):
        if isinstance(n, ast.Name) and isinstance(n.ctx, (ast.Store, ast.Del)):
            out.add(n.id)
        elif isinstance(n, (ast.Subscript, ast.Attribute)) and isinstance(n.ctx, (ast.Store, ast.Del)):
            r = _root_name(n)
            if r:
                out.add(r)
        elif isinstance(n, ast.Call) and isinstance(n.func, ast.Attribute) and n.func.attr in lints.MUTATING_METHODS:
            r = _root_name(n.func.value)
            if r:
                out.add(r)
    return out


def _split_tuple_assigns(fn):
    """`a, b = x, y` with no target read on the right is `a = x; b = y`"""
    for blk in list(_blocks_of(fn)):
        k = 0
        while k < len(blk):
            st = blk[k]
            if isinstance(st, ast.Assign) and len(st.targets) == 1 and isinstance(st.targets[0], ast.Tuple) \
                    and isinstance(st.value, ast.Tuple) and len(st.value.elts) == len(st.targets[0].elts) \
                    and all(isinstance(t, ast.Name) for t in st.targets[0].elts) \
                    and not any(isinstance(v, ast.Starred) for v in st.value.elts):
                tn = [t.id for t in st.targets[0].elts]
                read = {n.id for v in st.value.elts for n in ast.walk(v) if isinstance(n, ast.Name)}
                if len(set(tn)) == len(tn) and not (set(tn) & read):
                    new = [ast.copy_location(ast.Assign(targets=[t], value=v), st) for t, v in zip(st.targets[0].elts, st.value.elts)]
                    blk[k:k + 1] = new
                    k += len(new)
                    continue
            k += 1


class _Subst(ast.NodeTransformer):
    def __init__(self, name, expr):
        self.name, self.expr = name, expr

    def visit_Name(self, node):
        if node.id == self.name and isinstance(node.ctx, ast.Load):
            new = copy.deepcopy(self.expr)
            for x in ast.walk(new):
                ast.copy_location(x, node)
            return new
        return node


def _inline_invariants(fn):
    """a local assigned once from an expression over names that never change in fn (`upper1 = min(mpi_size, max_proc1)`,
    `stop = upper1 + 1`) has that value at every use: the uses are replaced by the expression"""
    params = {a.arg for a in fn.args.args + fn.args.kwonlyargs + fn.args.posonlyargs}
    done = []
    changed = True
    while changed and len(done) < 50:
        changed = False
        written = _written(fn)
        nstores = {}
        for n in ast.walk(fn):
            if isinstance(n, ast.Name) and isinstance(n.ctx, (ast.Store, ast.Del)):
                nstores[n.id] = nstores.get(n.id, 0) + 1
        for blk in list(_blocks_of(fn)):
            for k, st in enumerate(blk):
                if not (isinstance(st, ast.Assign) and len(st.targets) == 1 and isinstance(st.targets[0], ast.Name)):
                    continue
                nm = st.targets[0].id
                if nm in params or nstores.get(nm) != 1 or not _pure(st.value):
                    continue
                read = {n.id for n in ast.walk(st.value) if isinstance(n, ast.Name)}
                if read & written:
                    continue
                del blk[k]
                if not blk:
                    blk.append(ast.copy_location(ast.Pass(), st))
                _Subst(nm, st.value).visit(fn)
                done.append(nm)
                changed = True
                break
            if changed:
                break
    return done


class _Rename(ast.NodeTransformer):
    def __init__(self, old, new):
        self.old, self.new = old, new

    def visit_Name(self, node):
        if node.id == self.old:
            node.id = self.new
        return node


def _coalesce_copies(fn):
    """a top-level copy `y = x` after which `x` is never used again, of a `y` that is not used before it, only gives the value a
    new name (the phases of a function written one after the other, each with its own names): `y` is renamed to `x` and the copy
    dropped"""
    params = {a.arg for a in fn.args.args + fn.args.kwonlyargs + fn.args.posonlyargs}
    done = 0
    changed = True
    while changed and done < 20:
        changed = False
        for k, st in enumerate(fn.body):
            if not (isinstance(st, ast.Assign) and len(st.targets) == 1 and isinstance(st.targets[0], ast.Name)
                    and isinstance(st.value, ast.Name) and st.value.id != st.targets[0].id):
                continue
            y, x = st.targets[0].id, st.value.id
            if y in params or x in params:
                continue
            after = {n.id for s_ in fn.body[k + 1:] for n in ast.walk(s_) if isinstance(n, ast.Name)}
            before = {n.id for s_ in fn.body[:k] for n in ast.walk(s_) if isinstance(n, ast.Name)}
            scoped = any(isinstance(n, (ast.Global, ast.Nonlocal, ast.Lambda, ast.FunctionDef)) for s_ in fn.body for n in ast.walk(s_))
            if x in after or y in before or scoped:
                continue
            del fn.body[k]
            _Rename(y, x).visit(fn)
            done += 1
            changed = True
            break
    return done


def _shift_counters(fn):
    """a local that is read only as `k + c` with one integer constant c (a counter kept with another origin: zero-based, say) and
    written only by `k = <integer>` / `k += <integer>` is replaced by the value it stands for, k' = k + c: every read `k + c`
    becomes `k'`, every `k = a` becomes `k' = a + c`; `k += a` is unchanged.  A change of variable, valid for every execution."""
    params = {a.arg for a in fn.args.args + fn.args.kwonlyargs + fn.args.posonlyargs}
    done = []
    names = {n.id for n in ast.walk(fn) if isinstance(n, ast.Name) and isinstance(n.ctx, ast.Store)} - params
    for k in sorted(names):
        shifts, ok, bare = set(), True, []
        reads = [n for n in ast.walk(fn) if isinstance(n, ast.Name) and n.id == k and isinstance(n.ctx, ast.Load)]
        par = {}
        for n in ast.walk(fn):
            for ch in ast.iter_child_nodes(n):
                par[id(ch)] = n
        for r in reads:
            p_ = par.get(id(r))
            if isinstance(p_, ast.BinOp) and isinstance(p_.op, ast.Add) and ((p_.left is r and _int_const(p_.right)) or (p_.right is r and _int_const(p_.left))):
                shifts.add(p_.right.value if p_.left is r else p_.left.value)
            elif isinstance(p_, ast.BinOp) and isinstance(p_.op, ast.Sub) and p_.left is r and _int_const(p_.right):
                shifts.add(-p_.right.value)
            else:
                bare.append(r)          # a read with the other origin: written `k' - c` below (the odd one out stays visible)
        if len(bare) * 2 >= len(reads):
            ok = False
        for n in ast.walk(fn):
            if isinstance(n, ast.Name) and n.id == k and isinstance(n.ctx, (ast.Store, ast.Del)):
                p_ = par.get(id(n))
                if isinstance(p_, ast.Assign) and len(p_.targets) == 1 and p_.targets[0] is n and _int_const(p_.value):
                    continue
                if isinstance(p_, ast.AugAssign) and p_.target is n and isinstance(p_.op, (ast.Add, ast.Sub)) and _int_const(p_.value):
                    continue
                ok = False
        if not ok or not reads or len(shifts) != 1 or 0 in shifts:
            continue
        c = next(iter(shifts))

        class R(ast.NodeTransformer):
            def visit_BinOp(self, n):
                if isinstance(n.op, (ast.Add, ast.Sub)) and ((isinstance(n.left, ast.Name) and n.left.id == k and _int_const(n.right))
                                                             or (isinstance(n.op, ast.Add) and isinstance(n.right, ast.Name) and n.right.id == k and _int_const(n.left))):
                    return ast.copy_location(ast.Name(id=k, ctx=ast.Load()), n)
                return self.generic_visit(n)

            def visit_Assign(self, n):
                if len(n.targets) == 1 and isinstance(n.targets[0], ast.Name) and n.targets[0].id == k and _int_const(n.value):
                    n.value = ast.copy_location(ast.Constant(value=n.value.value + c), n.value)
                    return n
                return self.generic_visit(n)

            def visit_Name(self, n):
                if any(n is b_ for b_ in bare):
                    return ast.copy_location(ast.BinOp(left=ast.Name(id=k, ctx=ast.Load()), op=ast.Sub() if c > 0 else ast.Add(),
                                                       right=ast.Constant(value=abs(c))), n)
                return n
        R().visit(fn)
        # the new variable gets a name that says what it stands for, so that a diagnosis quoting it can be read against the source
        new = f"{k}_plus_{c}" if c > 0 else f"{k}_minus_{-c}"
        if new not in {n.id for n in ast.walk(fn) if isinstance(n, ast.Name)}:
            _Rename(k, new).visit(fn)
        done.append((k, c))
    return done


class _Fold(ast.NodeTransformer):
    """x // 1, x * 1, 1 * x, x + 0, 0 + x, x - 0 -> x"""
    def visit_BinOp(self, n):
        self.generic_visit(n)
        if isinstance(n.op, (ast.FloorDiv, ast.Mult)) and _int_const(n.right) and n.right.value == 1:
            return n.left
        if isinstance(n.op, ast.Mult) and _int_const(n.left) and n.left.value == 1:
            return n.right
        if isinstance(n.op, (ast.Add, ast.Sub)) and _int_const(n.right) and n.right.value == 0:
            return n.left
        if isinstance(n.op, ast.Add) and _int_const(n.left) and n.left.value == 0:
            return n.right
        return n


def _bind_defaults(fn, caller_trees, keep=3):
    """parameters after the first `keep` that have a literal default and that no call in the given modules passes: the function is
    analysed with the default bound (the behaviour every caller sees) -> [(name, default text)]"""
    args = fn.args
    pos = args.posonlyargs + args.args
    nd = len(args.defaults)
    bound = []
    if args.vararg or args.kwarg or len(pos) <= keep:
        return bound
    calls = [n for t in caller_trees for n in ast.walk(t) if isinstance(n, ast.Call) and isinstance(n.func, ast.Name) and n.func.id == fn.name]
    written = _written(fn)
    cand = []
    for i, a in enumerate(pos):
        d = args.defaults[i - (len(pos) - nd)] if i >= len(pos) - nd else None
        if i >= keep and isinstance(d, ast.Constant) and a.arg not in written:
            cand.append((i, a, d))
    for a, d in zip(args.kwonlyargs, args.kw_defaults):
        if isinstance(d, ast.Constant) and a.arg not in written:
            cand.append((None, a, d))
    for i, a, d in cand:
        passed = any(any(isinstance(x, ast.Starred) for x in c.args) or any(k.arg is None or k.arg == a.arg for k in c.keywords)
                     or (i is not None and len(c.args) > i) for c in calls)
        if passed:
            continue
        _Subst(a.arg, d).visit(fn)
        bound.append((a.arg, src(d)))
    names = {b_[0] for b_ in bound}
    if names:
        # only a trailing run of positional parameters can be dropped without moving the others
        while args.args and args.args[-1].arg in names and args.defaults:
            args.args.pop()
            args.defaults.pop()
        keepkw = [(a, d) for a, d in zip(args.kwonlyargs, args.kw_defaults) if a.arg not in names]
        args.kwonlyargs, args.kw_defaults = [a for a, _ in keepkw], [d for _, d in keepkw]
        _Fold().visit(fn)
    return bound


# ---------------------------------------------------------------------------------------------------------
# small immutable records (NamedTuple / namedtuple / frozen dataclass) written back as one local per field
# ---------------------------------------------------------------------------------------------------------
def _record_classes(tree):
    """{class name: {'fields': [names], 'defaults': {name: expr}, 'methods': {name: FunctionDef}}} for the module-level record types
    whose construction, field access and iteration are the generated ones (no dunder method of their own)"""
    recs = {}
    for st in tree.body:
        if isinstance(st, ast.ClassDef) and not st.keywords:
            is_nt = len(st.bases) == 1 and src(st.bases[0]).split(".")[-1] == "NamedTuple"
            frozen_dc = not st.bases and len(st.decorator_list) == 1 and isinstance(st.decorator_list[0], ast.Call) \
                and src(st.decorator_list[0].func).split(".")[-1] == "dataclass" \
                and any(k.arg == "frozen" and isinstance(k.value, ast.Constant) and k.value.value is True for k in st.decorator_list[0].keywords)
            if not (is_nt and not st.decorator_list) and not frozen_dc:
                continue
            fields, defaults, methods, ok = [], {}, {}, True
            for b in st.body:
                if isinstance(b, ast.AnnAssign) and isinstance(b.target, ast.Name):
                    fields.append(b.target.id)
                    if b.value is not None:
                        defaults[b.target.id] = b.value
                elif isinstance(b, ast.FunctionDef) and not b.name.startswith("__") and not b.decorator_list:
                    methods[b.name] = b
                elif isinstance(b, ast.Expr) and isinstance(b.value, ast.Constant):
                    continue
                else:
                    ok = False
            if ok and fields and all(isinstance(d, ast.Constant) for d in defaults.values()):
                recs[st.name] = {"fields": fields, "defaults": defaults, "methods": methods, "iterable": is_nt}
        elif isinstance(st, ast.Assign) and len(st.targets) == 1 and isinstance(st.targets[0], ast.Name) and isinstance(st.value, ast.Call) \
                and src(st.value.func).split(".")[-1] == "namedtuple" and len(st.value.args) == 2 and not st.value.keywords:
            spec = st.value.args[1]
            if isinstance(spec, ast.Constant) and isinstance(spec.value, str):
                fields = spec.value.replace(",", " ").split()
            elif isinstance(spec, (ast.Tuple, ast.List)) and all(isinstance(x, ast.Constant) and isinstance(x.value, str) for x in spec.elts):
                fields = [x.value for x in spec.elts]
            else:
                continue
            if fields and all(f.isidentifier() for f in fields):
                recs[st.targets[0].id] = {"fields": fields, "defaults": {}, "methods": {}, "iterable": True}
    # a name bound twice is not a record type
    for nm in list(recs):
        if sum(1 for n in ast.walk(tree) if (isinstance(n, ast.Name) and n.id == nm and isinstance(n.ctx, ast.Store)) or
               (isinstance(n, (ast.ClassDef, ast.FunctionDef)) and n.name == nm)) != 1:
            del recs[nm]
    return recs


def _inline_record_method(mdef, field_exprs, call):
    """the value of `record.method(args)` as one expression over the fields, when the method is straight-line code
    (`t = <expr>` ... `return <expr>`) over its parameters and the fields; None otherwise"""
    a = mdef.args
    if a.vararg or a.kwarg or a.kwonlyargs or a.posonlyargs or a.defaults or not a.args:
        return None
    params = [x.arg for x in a.args]
    bound = _bind(call, params[1:])
    if bound is None or len(bound) != len(params) - 1:
        return None
    env = {p: v for p, v in bound.items()}
    if not all(isinstance(v, (ast.Name, ast.Constant)) for v in env.values()):
        return None
    self_nm = params[0]
    body = [b for b in mdef.body if not (isinstance(b, ast.Expr) and isinstance(b.value, ast.Constant))]
    if not body or not isinstance(body[-1], ast.Return) or body[-1].value is None:
        return None

    class S(ast.NodeTransformer):
        bad = False

        def visit_Attribute(self, n):
            if isinstance(n.value, ast.Name) and n.value.id == self_nm:
                if n.attr in field_exprs and isinstance(n.ctx, ast.Load):
                    return copy.deepcopy(field_exprs[n.attr])
                self.bad = True
                return n
            return self.generic_visit(n)

        def visit_Name(self, n):
            if n.id == self_nm:
                self.bad = True
            elif n.id in env and isinstance(n.ctx, ast.Load):
                return copy.deepcopy(env[n.id])
            return n
    for b in body[:-1]:
        if not (isinstance(b, ast.Assign) and len(b.targets) == 1 and isinstance(b.targets[0], ast.Name) and b.targets[0].id not in params):
            return None
        s = S()
        v = s.visit(copy.deepcopy(b.value))
        if s.bad or any(isinstance(x, (ast.Lambda, ast.NamedExpr, ast.Yield, ast.Await, ast.ListComp, ast.GeneratorExp, ast.SetComp, ast.DictComp))
                        for x in ast.walk(v)):
            return None
        env[b.targets[0].id] = v
    s = S()
    out = s.visit(copy.deepcopy(body[-1].value))
    if s.bad or sum(1 for _ in ast.walk(out)) > 400:
        return None
    for x in ast.walk(out):
        ast.copy_location(x, call)
    return out


def _scalarise_records(fn, recs):
    """locals of fn that only ever hold a record built in fn (`x = C(a, b)`, `x = y`, `x = y._replace(f=v)`) and are only used field
    by field (`x.f`, `x[0]`, `tuple(x)`, `a, b = x`, `return x`, a straight-line method) are replaced by one local per field, `x__f`.
    Valid for every execution: the records are immutable, so a copy of the reference is a copy of the fields.  Everything is
    checked before anything is changed -> the names replaced, [] when the function is left as it is"""
    if not recs:
        return []
    par = {}
    for n in ast.walk(fn):
        for ch in ast.iter_child_nodes(n):
            par[id(ch)] = n
    params = {a.arg for a in fn.args.args + fn.args.kwonlyargs + fn.args.posonlyargs}
    cls = {}

    def ctor(v):
        return v.func.id if isinstance(v, ast.Call) and isinstance(v.func, ast.Name) and v.func.id in recs else None

    def replace_of(v):
        return v.func.value.id if isinstance(v, ast.Call) and isinstance(v.func, ast.Attribute) and v.func.attr == "_replace" \
            and isinstance(v.func.value, ast.Name) and not v.args else None
    for n in ast.walk(fn):
        if isinstance(n, ast.Assign) and len(n.targets) == 1 and isinstance(n.targets[0], ast.Name) and ctor(n.value):
            if cls.setdefault(n.targets[0].id, ctor(n.value)) != ctor(n.value):
                return []
    changed = True
    while changed:
        changed = False
        for n in ast.walk(fn):
            if isinstance(n, ast.Assign) and len(n.targets) == 1 and isinstance(n.targets[0], ast.Name) and n.targets[0].id not in cls:
                srcnm = n.value.id if isinstance(n.value, ast.Name) else replace_of(n.value)
                if srcnm in cls:
                    cls[n.targets[0].id] = cls[srcnm]
                    changed = True
    if not cls or set(cls) & params:
        return []
    if any(isinstance(n, (ast.Global, ast.Nonlocal, ast.Lambda, ast.FunctionDef, ast.ClassDef)) for st in fn.body for n in ast.walk(st)):
        return []
    taken = {n.id for n in ast.walk(fn) if isinstance(n, ast.Name)} | params
    if any(f"{x}__{f}" in taken for x in cls for f in recs[cls[x]]["fields"]):
        return []
    # ---- every store and every use must be one of the followed forms
    for n in ast.walk(fn):
        if not (isinstance(n, ast.Name) and n.id in cls):
            continue
        R = recs[cls[n.id]]
        p = par.get(id(n))
        if isinstance(n.ctx, ast.Store):
            v = p.value if isinstance(p, ast.Assign) and len(p.targets) == 1 and p.targets[0] is n else None
            if v is None:
                return []
            if ctor(v) == cls[n.id]:
                b = _bind(v, R["fields"])
                if b is None or any(f not in b and f not in R["defaults"] for f in R["fields"]):
                    return []
                # the fields are assigned one after the other: a later argument must not read an earlier field of the same variable
                for i, f in enumerate(R["fields"]):
                    e = b.get(f)
                    if e is not None and any(isinstance(x, ast.Name) and x.id == n.id for x in ast.walk(e)) and i > 0:
                        return []
            elif isinstance(v, ast.Name) and cls.get(v.id) == cls[n.id]:
                pass
            elif replace_of(v) and cls.get(replace_of(v)) == cls[n.id] and all(k.arg in R["fields"] for k in v.keywords) \
                    and not any(isinstance(x, ast.Name) and x.id in cls for k in v.keywords for x in ast.walk(k.value)):
                pass
            else:
                return []
            continue
        if not isinstance(n.ctx, ast.Load):
            return []
        if isinstance(p, ast.Attribute) and p.value is n and isinstance(p.ctx, ast.Load):
            pp = par.get(id(p))
            if p.attr in R["fields"]:
                continue
            if p.attr in R["methods"] and isinstance(pp, ast.Call) and pp.func is p:
                continue
            if p.attr == "_replace" and isinstance(pp, ast.Call) and pp.func is p and isinstance(par.get(id(pp)), ast.Assign):
                continue
            return []
        if isinstance(p, ast.Call) and isinstance(p.func, ast.Name) and p.func.id in ("tuple", "list") and p.args == [n] and not p.keywords \
                and R["iterable"]:
            continue
        if isinstance(p, ast.Return) and R["iterable"]:
            continue
        if isinstance(p, ast.Subscript) and p.value is n and isinstance(p.ctx, ast.Load) and _int_const(p.slice) and R["iterable"] \
                and -len(R["fields"]) <= p.slice.value < len(R["fields"]):
            continue
        if isinstance(p, ast.Assign) and p.value is n and len(p.targets) == 1:
            t = p.targets[0]
            if isinstance(t, ast.Name) and cls.get(t.id) == cls[n.id]:
                continue
            if isinstance(t, (ast.Tuple, ast.List)) and R["iterable"] and len(t.elts) == len(R["fields"]) \
                    and all(isinstance(x, ast.Name) and x.id not in cls for x in t.elts):
                continue
        return []
    # ---- rewrite
    def fld(x, f, node, ctx=ast.Load):
        return ast.copy_location(ast.Name(id=f"{x}__{f}", ctx=ctx()), node)

    class X(ast.NodeTransformer):
        def visit_Attribute(self, n):
            if isinstance(n.value, ast.Name) and n.value.id in cls and n.attr in recs[cls[n.value.id]]["fields"]:
                return fld(n.value.id, n.attr, n)
            return self.generic_visit(n)

        def visit_Subscript(self, n):
            if isinstance(n.value, ast.Name) and n.value.id in cls and _int_const(n.slice):
                return fld(n.value.id, recs[cls[n.value.id]]["fields"][n.slice.value], n)
            return self.generic_visit(n)

        def visit_Call(self, n):
            if isinstance(n.func, ast.Name) and n.func.id in ("tuple", "list") and len(n.args) == 1 and isinstance(n.args[0], ast.Name) \
                    and n.args[0].id in cls:
                x = n.args[0].id
                elts = [fld(x, f, n) for f in recs[cls[x]]["fields"]]
                return ast.copy_location((ast.Tuple if n.func.id == "tuple" else ast.List)(elts=elts, ctx=ast.Load()), n)
            if isinstance(n.func, ast.Attribute) and isinstance(n.func.value, ast.Name) and n.func.value.id in cls \
                    and n.func.attr in recs[cls[n.func.value.id]]["methods"]:
                x, R = n.func.value.id, recs[cls[n.func.value.id]]
                n.args = [self.visit(a) for a in n.args]
                for k in n.keywords:
                    k.value = self.visit(k.value)
                inl = _inline_record_method(R["methods"][n.func.attr], {f: fld(x, f, n) for f in R["fields"]}, n)
                if inl is not None:
                    return inl
                n.func.value = ast.copy_location(ast.Call(func=ast.Name(id=cls[x], ctx=ast.Load()), args=[fld(x, f, n) for f in R["fields"]],
                                                          keywords=[]), n)
                return n
            return self.generic_visit(n)

        def visit_Return(self, n):
            if isinstance(n.value, ast.Name) and n.value.id in cls:
                x = n.value.id
                n.value = ast.copy_location(ast.Tuple(elts=[fld(x, f, n) for f in recs[cls[x]]["fields"]], ctx=ast.Load()), n)
                return n
            return self.generic_visit(n)

    def expand(st):
        """the statements that replace the assignment `st`, or None when it is not a store of / from a record variable"""
        if not (isinstance(st, ast.Assign) and len(st.targets) == 1):
            return None
        t, v = st.targets[0], st.value
        if isinstance(t, ast.Name) and t.id in cls:
            R = recs[cls[t.id]]
            if ctor(v):
                b = _bind(v, R["fields"])
                vals = {f: X().visit(b[f]) if f in b else copy.deepcopy(R["defaults"][f]) for f in R["fields"]}
            elif isinstance(v, ast.Name):
                vals = {f: fld(v.id, f, st) for f in R["fields"]}
            else:
                y = replace_of(v)
                vals = {f: fld(y, f, st) for f in R["fields"]}
                for k in v.keywords:
                    vals[k.arg] = X().visit(k.value)
            return [ast.copy_location(ast.Assign(targets=[fld(t.id, f, st, ast.Store)], value=vals[f]), st) for f in R["fields"]]
        if isinstance(t, (ast.Tuple, ast.List)) and isinstance(v, ast.Name) and v.id in cls:
            return [ast.copy_location(ast.Assign(targets=[e], value=fld(v.id, f, st)), st) for e, f in zip(t.elts, recs[cls[v.id]]["fields"])]
        return None
    for blk in list(_blocks_of(fn)):
        k = 0
        while k < len(blk):
            new = expand(blk[k])
            if new is not None:
                blk[k:k + 1] = new
                k += len(new)
            else:
                k += 1
    X().visit(fn)
    ast.fix_missing_locations(fn)
    return sorted(cls)


def _propagate_copies(fn):
    """after `x = y` (two plain locals) the two names hold the same value until one of them is stored again: in the statements
    that follow in the same block, up to the first one that stores either name, a read of `x` is written `y`.  The copy itself
    stays, so every other read of `x` still sees its value."""
    params = {a.arg for a in fn.args.args + fn.args.kwonlyargs + fn.args.posonlyargs}
    done = 0
    for blk in list(_blocks_of(fn)):
        for k, st in enumerate(blk):
            if not (isinstance(st, ast.Assign) and len(st.targets) == 1 and isinstance(st.targets[0], ast.Name)
                    and isinstance(st.value, ast.Name) and st.value.id != st.targets[0].id and st.targets[0].id not in params):
                continue
            x, y = st.targets[0].id, st.value.id
            for later in blk[k + 1:]:
                if any(isinstance(n, ast.Name) and isinstance(n.ctx, (ast.Store, ast.Del)) and n.id in (x, y) for n in ast.walk(later)):
                    break
                if any(isinstance(n, ast.Name) and n.id == x and isinstance(n.ctx, ast.Load) for n in ast.walk(later)):
                    _Subst(x, ast.Name(id=y, ctx=ast.Load())).visit(later)
                    done += 1
    return done


def _normal_form(tree, names, caller_trees=()):
    """copy of the module with the named functions in local normal form -> (tree copy, {name: FunctionDef})"""
    t2 = copy.deepcopy(tree)
    out = {}
    recs = _record_classes(t2)
    for st in t2.body:
        if isinstance(st, ast.FunctionDef) and st.name in names:
            if caller_trees and st.name == FROM_MAX:
                st._bound_defaults = _bind_defaults(st, [t2] + list(caller_trees), keep=3)
            st._records = _scalarise_records(st, recs)
            _split_tuple_assigns(st)
            _shift_counters(st)
            _coalesce_copies(st)
            _inline_invariants(st)
            _propagate_copies(st)
            ast.fix_missing_locations(st)
            out[st.name] = st
    for n in ast.walk(t2):
        for ch in ast.iter_child_nodes(n):
            ch._parent = n
    return t2, out


# ---------------------------------------------------------------------------------------------------------
# integer comparisons in canonical form
# ---------------------------------------------------------------------------------------------------------
class _SortMinMax(ast.NodeTransformer):
    def visit_Call(self, n):
        self.generic_visit(n)
        if isinstance(n.func, ast.Name) and n.func.id in ("min", "max") and not n.keywords \
                and not any(isinstance(a, ast.Starred) for a in n.args):
            n.args = sorted(n.args, key=ast.unparse)
        return n


def _canon(e):
    """text of an expression, operands of min/max in a fixed order"""
    return ast.unparse(_SortMinMax().visit(copy.deepcopy(e)))


def _int_const(e):
    return isinstance(e, ast.Constant) and type(e.value) is int


def _lin(e):
    """e = base + c with an integer constant c -> (canonical text of base, c)"""
    if isinstance(e, ast.BinOp) and isinstance(e.op, (ast.Add, ast.Sub)):
        if _int_const(e.right):
            b, c = _lin(e.left)
            return b, c + (e.right.value if isinstance(e.op, ast.Add) else -e.right.value)
        if isinstance(e.op, ast.Add) and _int_const(e.left):
            b, c = _lin(e.right)
            return b, c + e.left.value
    return _canon(e), 0


_OPS = {ast.LtE: ("le", 0), ast.Lt: ("le", -1), ast.Gt: ("gt", 0), ast.GtE: ("gt", -1)}
_FLIP = {ast.LtE: ast.GtE, ast.Lt: ast.Gt, ast.Gt: ast.Lt, ast.GtE: ast.LtE}


def _cmp(test, names, taken=True):
    """the integer comparison `test` (as decided: taken) about one of `names`, as
    (name, 'le', base, k): name <= base + k   or   (name, 'gt', base, k): name > base + k ; None when it is none"""
    if isinstance(test, ast.UnaryOp) and isinstance(test.op, ast.Not):
        return _cmp(test.operand, names, not taken)
    if not (isinstance(test, ast.Compare) and len(test.ops) == 1):
        return None
    l, op, r = test.left, type(test.ops[0]), test.comparators[0]
    if op not in _OPS:
        return None
    def shifted(x):
        """`name + c` / `name - c` / `c + name` -> (name, c)"""
        if isinstance(x, ast.Name) and x.id in names:
            return x.id, 0
        if isinstance(x, ast.BinOp) and isinstance(x.op, (ast.Add, ast.Sub)) and isinstance(x.left, ast.Name) and x.left.id in names \
                and _int_const(x.right):
            return x.left.id, x.right.value if isinstance(x.op, ast.Add) else -x.right.value
        if isinstance(x, ast.BinOp) and isinstance(x.op, ast.Add) and isinstance(x.right, ast.Name) and x.right.id in names and _int_const(x.left):
            return x.right.id, x.left.value
        return None
    sl, sr = shifted(l), shifted(r)
    if sl is not None:
        (nm, off), other = sl, r
    elif sr is not None:
        (nm, off), other, op = sr, l, _FLIP[op]
    else:
        return None
    kind, adj = _OPS[op]
    base, c = _lin(other)
    c -= off
    if not taken:
        kind = "gt" if kind == "le" else "le"
    return nm, kind, base, c + adj


def _facts(test, taken):
    """(test, taken) pairs that all hold when `test` evaluates to `taken`"""
    if isinstance(test, ast.UnaryOp) and isinstance(test.op, ast.Not):
        return _facts(test.operand, not taken)
    if isinstance(test, ast.BoolOp) and ((isinstance(test.op, ast.And) and taken) or (isinstance(test.op, ast.Or) and not taken)):
        return [f for v in test.values for f in _facts(v, taken)]
    return [(test, taken)]


def _bound_text(base, k):
    return base if k == 0 else f"{base} {'+' if k > 0 else '-'} {abs(k)}"


# ---------------------------------------------------------------------------------------------------------
# the divisor scan  `while v <= B and M % v != 0: v += 1`
# ---------------------------------------------------------------------------------------------------------
def _is_nondiv(c, v, M):
    return same_expr(c, f"{M} % {v} != 0") or same_expr(c, f"0 != {M} % {v}") or same_expr(c, f"{M} % {v}") \
        or same_expr(c, f"{M} % {v} > 0")


def _scan_at(st, M):
    if not isinstance(st, ast.While) or st.orelse or len(st.body) != 1:
        return None
    inc = increment_of(st.body[0])
    if not inc or not (_int_const(inc[1]) and inc[1].value == 1):
        return None
    v = inc[0]
    conj = st.test.values if isinstance(st.test, ast.BoolOp) and isinstance(st.test.op, ast.And) else [st.test]
    bound = nondiv = None
    for c in conj:
        if _is_nondiv(c, v, M):
            nondiv = c
            continue
        f = _cmp(c, {v})
        if f and f[1] == "le" and bound is None:
            bound = f
        else:
            return None
    if bound is None or nondiv is None:
        return None
    return {"loop": st, "var": v, "base": bound[2], "k": bound[3], "nondiv": nondiv}


def _scans_in(stmts, M):
    """[(block, index, scan)] for every divisor scan under the statements"""
    out = []
    holder = ast.Module(body=list(stmts), type_ignores=[])
    for blk in _blocks_of(holder):
        for k, st in enumerate(blk):
            s = _scan_at(st, M)
            if s:
                out.append((blk if blk is not holder.body else stmts, k, s))
    return out


def _scan_start(blk, k, v):
    """value of the scan variable when the scan at blk[k] starts, as (name, c): name + c with `name` the value a variable
    has on entry of the block; None when the statements before the scan are not plain assignments"""
    want, off = v, 0
    for j in range(k - 1, -1, -1):
        st = blk[j]
        inc = increment_of(st)
        if inc and inc[0] == want:
            if not _int_const(inc[1]):
                return None
            off += inc[1].value
            continue
        if isinstance(st, ast.Assign) and len(st.targets) == 1 and isinstance(st.targets[0], ast.Name):
            if st.targets[0].id != want:
                continue
            e = st.value
            if isinstance(e, ast.Name):
                want = e.id
                continue
            if isinstance(e, ast.BinOp) and isinstance(e.op, ast.Add) and isinstance(e.left, ast.Name) and _int_const(e.right):
                want, off = e.left.id, off + e.right.value
                continue
            if isinstance(e, ast.BinOp) and isinstance(e.op, ast.Add) and isinstance(e.right, ast.Name) and _int_const(e.left):
                want, off = e.right.id, off + e.left.value
                continue
            return None
        if isinstance(st, ast.AugAssign) and isinstance(st.target, ast.Name) and st.target.id == want:
            return None
        if isinstance(st, (ast.While, ast.For, ast.If, ast.With, ast.Try)) and \
                any(isinstance(n, ast.Name) and isinstance(n.ctx, ast.Store) and n.id == want for n in ast.walk(st)):
            return None
    return want, off


def _aliases_after(blk, k, v):
    """names holding the scanned value after the scan at blk[k] (`w = v` statements), and the index of the first
    statement that is not such an assignment"""
    al = {v}
    j = k + 1
    while j < len(blk):
        st = blk[j]
        if isinstance(st, ast.Assign) and len(st.targets) == 1 and isinstance(st.targets[0], ast.Name) \
                and isinstance(st.value, ast.Name) and st.value.id in al:
            al.add(st.targets[0].id)
            j += 1
            continue
        break
    return al, j


# ---------------------------------------------------------------------------------------------------------
# positions and path conditions inside a loop body
# ---------------------------------------------------------------------------------------------------------
def _preorder(stmts):
    out = []

    def rec(b):
        for st in b:
            out.append(st)
            for f in ("body", "orelse", "finalbody"):
                sub = getattr(st, f, None)
                if isinstance(sub, list) and sub and isinstance(sub[0], ast.stmt):
                    rec(sub)
            for h in getattr(st, "handlers", []) or []:
                rec(h.body)
    rec(stmts)
    return out


def _own_stores(st):
    if isinstance(st, ast.Assign):
        return {n.id for t in st.targets for n in ast.walk(t) if isinstance(n, ast.Name) and isinstance(n.ctx, ast.Store)}
    if isinstance(st, (ast.AugAssign, ast.AnnAssign)):
        return {n.id for n in ast.walk(st.target) if isinstance(n, ast.Name) and isinstance(n.ctx, ast.Store)}
    if isinstance(st, ast.For):
        return {n.id for n in ast.walk(st.target) if isinstance(n, ast.Name)}
    if isinstance(st, ast.With):
        return {n.id for it in st.items if it.optional_vars is not None for n in ast.walk(it.optional_vars) if isinstance(n, ast.Name)}
    return set()


def _stored_between(order, i, j, names, live=None):
    """is one of the names stored by a statement at a position in (i, j)?  With `live` (ids of the statements that can run
    before the target on a path that reaches it) statements of branches that leave the iteration are not counted"""
    return any(_own_stores(order[p]) & names for p in range(max(i + 1, 0), j) if live is None or id(order[p]) in live)


def _live_before(stmts, target):
    """ids of the statements under `stmts` that can be executed before `target` on a path that reaches it in the same pass over
    `stmts`: a branch that ends in break/continue/return/raise before the target is not on such a path"""
    chain = _chain_to(stmts, target)
    live = set()
    if chain is None:
        return None

    def add(st):
        live.add(id(st))
        if isinstance(st, ast.If):
            for b in (st.body, st.orelse):
                if not _ends_in_jump(b):
                    for x in b:
                        add(x)
        else:
            for x in _preorder([st])[1:]:
                live.add(id(x))
    for blk, k in chain:
        for sib in blk[:k]:
            add(sib)
        live.add(id(blk[k]))
    return live


def _ends_in_jump(b):
    return bool(b) and isinstance(b[-1], (ast.Break, ast.Continue, ast.Return, ast.Raise))


def _chain_to(stmts, target):
    """[(block, index)] from the statement list down to the block holding `target`"""
    for k, st in enumerate(stmts):
        if st is target:
            return [(stmts, k)]
        for f in ("body", "orelse", "finalbody"):
            sub = getattr(st, f, None)
            if isinstance(sub, list) and sub and isinstance(sub[0], ast.stmt):
                c = _chain_to(sub, target)
                if c:
                    return [(stmts, k)] + c
        for h in getattr(st, "handlers", None) or []:
            c = _chain_to(h.body, target)
            if c:
                return [(stmts, k)] + c
    return None


def _path_facts(loop, target):
    """[(position, test, taken)]: decisions every path from the head of an iteration of `loop` to `target` has taken
    (position -1 = the loop test).  Nested loops contribute nothing."""
    order = _preorder(loop.body)
    pos = {id(s): p for p, s in enumerate(order)}
    chain = _chain_to(loop.body, target)
    if chain is None:
        return None, order, pos
    out = [(-1, loop.test, True)] if isinstance(loop, ast.While) else []
    for lvl, (blk, k) in enumerate(chain):
        for sib in blk[:k]:
            if isinstance(sib, ast.If):
                if _ends_in_jump(sib.body) and not _ends_in_jump(sib.orelse):
                    out.append((pos[id(sib)], sib.test, False))
                elif _ends_in_jump(sib.orelse) and not _ends_in_jump(sib.body):
                    out.append((pos[id(sib)], sib.test, True))
        if lvl + 1 < len(chain):
            st = blk[k]
            nxt = chain[lvl + 1][0]
            if isinstance(st, ast.If):
                out.append((pos[id(st)], st.test, nxt is st.body))
            elif isinstance(st, (ast.While, ast.For)):
                return None, order, pos        # inside a nested loop: not handled
    return out, order, pos


# ---------------------------------------------------------------------------------------------------------
# calls: arguments by parameter name
# ---------------------------------------------------------------------------------------------------------
def _params(fn):
    return [a.arg for a in fn.args.posonlyargs + fn.args.args]


def _bind(call, params):
    """{parameter: argument expression}, or None (starred arguments, unknown keyword)"""
    if any(isinstance(a, ast.Starred) for a in call.args) or any(k.arg is None for k in call.keywords) or len(call.args) > len(params):
        return None
    out = dict(zip(params, call.args))
    for k in call.keywords:
        if k.arg not in params or k.arg in out:
            return None
        out[k.arg] = k.value
    return out


# ---------------------------------------------------------------------------------------------------------
# N1: the bounds of compute_2d_process_grid cover the standard layouts
# ---------------------------------------------------------------------------------------------------------
def _dims_under(e, npts):
    """(function, set of dimensions d) for  f(npts[d], ...)  with f in min/max (nested allowed) or a single npts[d]"""
    if isinstance(e, ast.Subscript) and isinstance(e.value, ast.Name) and e.value.id == npts:
        s = e.slice
        if isinstance(s, ast.UnaryOp) and isinstance(s.op, ast.USub) and _int_const(s.operand):
            return "min", {4 - s.operand.value}
        if _int_const(s):
            return "min", {s.value}
        return None
    if isinstance(e, ast.Call) and isinstance(e.func, ast.Name) and e.func.id in ("min", "max") and not e.keywords and e.args:
        dims, fun = set(), e.func.id
        for a in e.args:
            sub = _dims_under(a, npts)
            if sub is None or (sub[0] != fun and isinstance(a, ast.Call)):
                return None
            dims |= sub[1]
        return fun, dims
    return None


def _int_rows(e):
    """literal table ((0, 3, 1, 2), ...) / dict literal with such values -> list of tuples of int, else None"""
    if isinstance(e, ast.Dict):
        vals = e.values
    elif isinstance(e, (ast.Tuple, ast.List)):
        vals = e.elts
    else:
        return None
    rows = []
    for v in vals:
        if not (isinstance(v, (ast.Tuple, ast.List)) and v.elts and all(_int_const(x) for x in v.elts)):
            return None
        rows.append(tuple(x.value for x in v.elts))
    return rows or None


def _module_const(tree, name):
    vals = [st.value for st in tree.body if isinstance(st, ast.Assign) and any(isinstance(t, ast.Name) and t.id == name for t in st.targets)]
    vals += [st.value for st in tree.body if isinstance(st, ast.AnnAssign) and isinstance(st.target, ast.Name) and st.target.id == name and st.value]
    stored = sum(1 for n in ast.walk(tree) if isinstance(n, ast.Name) and n.id == name and isinstance(n.ctx, (ast.Store, ast.Del)))
    return vals[0] if len(vals) == 1 and stored == 1 else None


def _table_alts(fn, tree, e, as_dict=False, depth=0):
    """the tables of dimension orderings an expression can stand for:
    [('const', rows, text) | ('param', parameter name, text)], or None when some alternative is not followed.
    as_dict: the expression is a dictionary whose VALUES are the orderings"""
    if depth > 6:
        return None
    params = _params(fn) + [a.arg for a in fn.args.kwonlyargs]
    if isinstance(e, ast.IfExp):
        a, b = _table_alts(fn, tree, e.body, as_dict, depth + 1), _table_alts(fn, tree, e.orelse, as_dict, depth + 1)
        return None if a is None or b is None else a + b
    if isinstance(e, ast.Name):
        vals, augs = _defs(fn, e.id)
        if augs or any(v is None for v in vals):
            return None
        out = []
        if e.id in params:
            if not as_dict:
                return None
            out.append(("param", e.id, e.id))
        elif not vals:
            c = _module_const(tree, e.id)
            rows = _int_rows(c) if c is not None and (isinstance(c, ast.Dict) == as_dict) else None
            return [("const", rows, e.id)] if rows else None
        for v in vals:
            if isinstance(v, ast.Constant) and v.value is None:
                continue
            sub = _table_alts(fn, tree, v, as_dict, depth + 1)
            if sub is None:
                return None
            out += sub
        return out or None
    if isinstance(e, ast.Call) and isinstance(e.func, ast.Name) and e.func.id in ("tuple", "list", "sorted") and len(e.args) == 1 and not e.keywords:
        return _table_alts(fn, tree, e.args[0], as_dict, depth + 1)
    if isinstance(e, ast.Call) and isinstance(e.func, ast.Attribute) and e.func.attr == "values" and not e.args and not e.keywords and not as_dict:
        return _table_alts(fn, tree, e.func.value, True, depth + 1)
    rows = _int_rows(e) if isinstance(e, ast.Dict) == as_dict else None
    return [("const", rows, src(e)[:60])] if rows else None


def _gen_bound(fn, tree, e, npts):
    """`min(npts[o[k]] for o in T)` (or a list comprehension, or `min(npts[d] for d in (0, 3))`)
    -> (k or None, alternatives of T) ; None when the expression has another form"""
    if not (isinstance(e, ast.Call) and src(e.func).split(".")[-1] == "min" and len(e.args) == 1 and not e.keywords
            and isinstance(e.args[0], (ast.GeneratorExp, ast.ListComp))):
        return None
    g = e.args[0]
    if len(g.generators) != 1 or g.generators[0].ifs or not isinstance(g.generators[0].target, ast.Name):
        return None
    t, it, elt = g.generators[0].target.id, g.generators[0].iter, g.elt
    if not (isinstance(elt, ast.Subscript) and isinstance(elt.value, ast.Name) and elt.value.id == npts):
        return None
    idx = elt.slice
    if isinstance(idx, ast.Name) and idx.id == t:
        if isinstance(it, (ast.Tuple, ast.List)) and it.elts and all(_int_const(x) for x in it.elts):
            return None, [("const", [(x.value,) for x in it.elts], src(it))]
        # the dimensions themselves come from a table of orderings: `min(npts[d] for d in sorted({o[k] for o in T.values()}))`,
        # possibly through a module-level function that only returns that expression, called with a literal position
        it2 = it
        for _ in range(4):
            while isinstance(it2, ast.Call) and isinstance(it2.func, ast.Name) and it2.func.id in ("sorted", "list", "tuple", "set", "frozenset") \
                    and len(it2.args) == 1 and not it2.keywords:
                it2 = it2.args[0]
            if isinstance(it2, ast.Call) and isinstance(it2.func, ast.Name) and not it2.keywords and tree is not None \
                    and all(_int_const(a) for a in it2.args):
                defs = [st for st in tree.body if isinstance(st, ast.FunctionDef) and st.name == it2.func.id and not st.decorator_list]
                body = [b for b in defs[0].body if not (isinstance(b, ast.Expr) and isinstance(b.value, ast.Constant))] if len(defs) == 1 else []
                ps = _params(defs[0]) if len(defs) == 1 else []
                if len(body) == 1 and isinstance(body[0], ast.Return) and body[0].value is not None and len(ps) == len(it2.args) \
                        and not (set(ps) & _written(defs[0])):
                    e2 = copy.deepcopy(body[0].value)
                    for p_, a_ in zip(ps, it2.args):
                        e2 = _Subst(p_, a_).visit(e2)
                    it2 = e2
                    continue
            break
        if isinstance(it2, (ast.SetComp, ast.ListComp, ast.GeneratorExp)) and len(it2.generators) == 1 and not it2.generators[0].ifs \
                and isinstance(it2.generators[0].target, ast.Name):
            o = it2.generators[0].target.id
            e2 = it2.elt
            if isinstance(e2, ast.Subscript) and isinstance(e2.value, ast.Name) and e2.value.id == o and _int_const(e2.slice) and e2.slice.value >= 0:
                alts = _table_alts(fn, tree, it2.generators[0].iter)
                return (e2.slice.value, alts) if alts else None
        return None
    if isinstance(idx, ast.Subscript) and isinstance(idx.value, ast.Name) and idx.value.id == t and _int_const(idx.slice) and idx.slice.value >= 0:
        alts = _table_alts(fn, tree, it)
        return (idx.slice.value, alts) if alts else None
    return None


# ---------------------------------------------------------------------------------------------------------
# N1: what compute_2d_process_grid hands back is the result of the search, and the error of the search reaches the caller
# ---------------------------------------------------------------------------------------------------------
def _search_calls(fn):
    return [n for n in ast.walk(fn) if isinstance(n, ast.Call) and isinstance(n.func, ast.Name) and n.func.id == FROM_MAX]


def _name_defs(fn, name):
    """[(value or None, statement)] for every binding of the plain name in fn (None: bound by destructuring / loop / with / handler)"""
    out = []
    for n in ast.walk(fn):
        if isinstance(n, ast.Assign):
            for t in n.targets:
                if isinstance(t, ast.Name) and t.id == name:
                    out.append((n.value, n))
                elif isinstance(t, (ast.Tuple, ast.List)) and any(isinstance(x, ast.Name) and x.id == name for x in ast.walk(t)):
                    out.append((None, n))
        elif isinstance(n, (ast.AugAssign, ast.AnnAssign)) and isinstance(n.target, ast.Name) and n.target.id == name:
            out.append((n.value if isinstance(n, ast.AnnAssign) else None, n))
        elif isinstance(n, (ast.For, ast.With)):
            tg = [n.target] if isinstance(n, ast.For) else [it.optional_vars for it in n.items if it.optional_vars is not None]
            if any(isinstance(x, ast.Name) and x.id == name for t in tg for x in ast.walk(t)):
                out.append((None, n))
        elif isinstance(n, ast.NamedExpr) and n.target.id == name:
            out.append((None, _stmt_of(n)))
    return out


def _result_sources(fn, calls):
    """where the values handed back by fn come from: [(kind, expression, statement)] with kind 'search' (a call of the search
    function), 'foreign' (a value built otherwise) or None (not followed)"""
    out = []

    def classify(e, st, depth=0):
        if depth > 6 or e is None:
            out.append((None, e, st))
        elif any(e is c for c in calls):
            out.append(("search", e, st))
        elif isinstance(e, ast.Call) and isinstance(e.func, ast.Name) and e.func.id in ("tuple", "list") and len(e.args) == 1 and not e.keywords:
            classify(e.args[0], st, depth + 1)
        elif isinstance(e, ast.IfExp):
            classify(e.body, st, depth + 1)
            classify(e.orelse, st, depth + 1)
        elif isinstance(e, ast.Name):
            defs = _name_defs(fn, e.id)
            if not defs:
                out.append((None, e, st))
            for v, dst in defs:
                if v is None or isinstance(dst, ast.AugAssign):
                    out.append((None, e, dst))
                else:
                    classify(v, dst, depth + 1)
        elif isinstance(e, (ast.Tuple, ast.List)) and len(e.elts) == 2 and all(isinstance(x, ast.Name) for x in e.elts):
            # `n1, n2 = <search>` ... `return n1, n2`
            names = [x.id for x in e.elts]
            d0, d1 = _name_defs(fn, names[0]), _name_defs(fn, names[1])
            if len(d0) == 1 and len(d1) == 1 and d0[0][1] is d1[0][1] and d0[0][0] is None and isinstance(d0[0][1], ast.Assign) \
                    and len(d0[0][1].targets) == 1 and isinstance(d0[0][1].targets[0], (ast.Tuple, ast.List)) \
                    and [getattr(x, "id", None) for x in d0[0][1].targets[0].elts] == names:
                classify(d0[0][1].value, d0[0][1], depth + 1)
            elif any(_pair_order(fn, e, c) == (1, 0) for c in calls):
                out.append(("swapped", e, st))       # the two extents of the search, handed on in the other order
            else:
                out.append(("foreign", e, st))
        else:
            out.append(("foreign", e, st))
    for r in [n for n in ast.walk(fn) if isinstance(n, ast.Return)]:
        classify(r.value, r)
    return out


def _fn_facts(fn, target):
    """[(test, taken)] decided on every path from the entry of fn to the statement `target`; None inside a loop / not found"""
    chain = _chain_to(fn.body, target)
    if chain is None:
        return None
    out = []
    for lvl, (blk, k) in enumerate(chain):
        for sib in blk[:k]:
            if isinstance(sib, ast.If):
                if _ends_in_jump(sib.body) and not _ends_in_jump(sib.orelse):
                    out.append((sib.test, False))
                elif _ends_in_jump(sib.orelse) and not _ends_in_jump(sib.body):
                    out.append((sib.test, True))
        if lvl + 1 < len(chain):
            st = blk[k]
            nxt = chain[lvl + 1][0]
            if isinstance(st, ast.If):
                out.append((st.test, nxt is st.body))
            elif isinstance(st, (ast.While, ast.For)):
                return None
    return out


def _always_raises(blk):
    if not blk:
        return False
    last = blk[-1]
    if isinstance(last, ast.Raise):
        return True
    if isinstance(last, ast.If):
        return _always_raises(last.body) and _always_raises(last.orelse)
    return False


def _catches(handler, raised):
    """does `except <type>` catch the exceptions named in `raised`?  True / False / None (type not followed)"""
    import builtins
    if handler.type is None:
        return True
    types = handler.type.elts if isinstance(handler.type, ast.Tuple) else [handler.type]
    verdicts = []
    for t in types:
        h = getattr(builtins, src(t), None) if isinstance(t, ast.Name) else None
        if not (isinstance(h, type) and issubclass(h, BaseException)):
            verdicts.append(None)
            continue
        for r in raised:
            rc = getattr(builtins, r, None)
            verdicts.append(issubclass(rc, h) if isinstance(rc, type) and issubclass(rc, BaseException) else None)
    if any(v is True for v in verdicts):
        return True
    return None if any(v is None for v in verdicts) or not verdicts else False


def _pair_verdict(fn, e, st, npts, count, std, in_handler):
    """a pair handed back that does not come from the search: is it known to respect the bounds of the standard layouts along the
    path that reaches it?  -> (True / False / None, why)"""
    where = f"`{src(st).splitlines()[0][:70]}` (line {st.lineno})"
    ctxt = ("in the handler of the error the search raises when no grid fits, " if in_handler else "") + \
        f"{where} hands back a grid that is not the result of the search"
    if {npts, count} & _written(fn):
        return None, f"{ctxt}; `{npts}` / `{count}` are changed in {fn.name}: the conditions on them are not followed"
    if not (isinstance(e, (ast.Tuple, ast.List)) and len(e.elts) == 2):
        return None, f"{ctxt}, and `{src(e)[:60]}` is not a literal pair: cannot decide that it is a valid grid"
    facts = _fn_facts(fn, st)
    if facts is None:
        return None, f"{ctxt}; the conditions under which it is reached are not followed"
    known, one, unrec = set(), False, []
    for t, taken in facts:
        for t2, tk in _facts(t, taken):
            f = _cmp(t2, {count}, tk)
            if f and f[1] == "gt":
                continue                        # a lower bound of the process count: says nothing about the extents
            if f and f[1] == "le":
                try:
                    base = ast.parse(f[2], mode="eval").body
                except SyntaxError:
                    base = None
                if _int_const(base) and base.value + f[3] <= 1:
                    one = True
                    continue
                d = _dims_under(base, npts) if base is not None else None
                if d and (d[0] == "min" or len(d[1]) == 1) and f[3] <= 0:
                    known |= d[1]
                    continue
            if isinstance(t2, ast.Compare) and len(t2.ops) == 1 and isinstance(t2.ops[0], (ast.Eq, ast.NotEq)) \
                    and isinstance(t2.ops[0], ast.Eq) == tk:
                l, r = t2.left, t2.comparators[0]
                if (isinstance(l, ast.Name) and l.id == count and _int_const(r) and r.value == 1) or \
                        (isinstance(r, ast.Name) and r.id == count and _int_const(l) and l.value == 1):
                    one = True
                    continue
            unrec.append(t2)
    if unrec:
        return None, f"{ctxt}; the condition `{src(unrec[0])[:60]}` on the way to it is not followed"
    # ASSUMPTION of the VIOLATED verdict below: the `if` statements around and before the statement are the only places where a
    # bound of the process count can be established.  Checked: an `assert`, a loop, or a call that is handed the process count or
    # the grid sizes (a validating helper) before the statement can establish a bound this walk does not see -> not decided.
    unseen = []
    for blk, k in _chain_to(fn.body, st) or []:
        for sib in blk[:k]:
            for x in ast.walk(sib):
                if isinstance(x, (ast.Assert, ast.While, ast.For)):
                    unseen.append(x)
                elif isinstance(x, ast.Call) and not (isinstance(x.func, ast.Name) and x.func.id in _PURE_CALLS | {FROM_MAX}) and \
                        any(isinstance(a, ast.Name) and a.id in (npts, count) for a in list(x.args) + [k_.value for k_ in x.keywords]):
                    unseen.append(x)
    kinds = []
    for x in e.elts:
        kinds.append("one" if _int_const(x) and x.value == 1 else "count" if isinstance(x, ast.Name) and x.id == count else None)
    if None in kinds or not (sorted(kinds) == ["count", "one"] or (one and set(kinds) <= {"count", "one"})):
        return None, f"{ctxt}; the pair `{src(e)[:60]}` is not followed (extents other than the process count and 1): cannot decide that it " \
                     "multiplies to the process count and respects the bounds"
    cond = " and ".join(f"`{src(t)}` is {tk}" for t, tk in facts) or "no condition"
    for k, kind in enumerate(kinds):
        dims = {o[k] for o in std}
        if kind == "count" and not one and not dims <= known:
            miss = sorted(dims - known)
            if unseen:
                return None, (f"{ctxt}; `{src(unseen[0]).splitlines()[0][:60]}` (line {unseen[0].lineno}) before it may establish a bound of "
                              f"`{count}` that is not followed: cannot decide that the extent `{count}` can exceed {npts}[{miss[0]}]")
            return False, (f"{ctxt}: `{src(e)}`, reached under {cond}. Along this path the extent `{count}` laid on process direction {k} is "
                           f"known to be <= {npts}[d] only for d in {sorted(known & dims)}, but the standard layouts distribute the dimensions "
                           f"{sorted(dims)} along that direction: when {npts}[{miss[0]}] < {count} a process is left without points of "
                           f"dimension {miss[0]}" + (", and the error required when no valid factorisation exists is not raised" if in_handler else ""))
    return True, (f"{where}: the pair `{src(e)}` multiplies to the process count and, under {cond}, every extent is within the number of "
                  "points of every dimension distributed along its direction")


def result_of_search(chk, fn, search_fn, calls, npts, count, std, kw):
    rule = "N1-result-of-search"
    construct = f"every grid handed back by {GRID} is the result of {FROM_MAX}; its error reaches the caller"
    sources = _result_sources(fn, calls)
    raised = set()
    for r in ast.walk(search_fn) if search_fn is not None else []:
        if isinstance(r, ast.Raise) and r.exc is not None:
            raised.add(src(r.exc.func) if isinstance(r.exc, ast.Call) else src(r.exc))
    raised = raised or {"RuntimeError"}
    handlers = []        # (try statement, handler) around a call of the search that catch its error
    for t in [n for n in ast.walk(fn) if isinstance(n, ast.Try)]:
        if not any(any(x is c for c in calls) for st in t.body for x in ast.walk(st)):
            continue
        for h in t.handlers:
            handlers.append((t, h, _catches(h, raised)))
    in_handler = {}
    for t, h, catches in handlers:
        for x in _preorder(h.body):
            in_handler[id(x)] = (h, catches)
    nbad = 0
    kinds_seen = {k_ for k_, _e, _s in sources}
    # the order in which the pair of the search is handed on is part of the end-to-end contract decided at the call sites
    chk._c20_grid_swapped = True if kinds_seen == {"swapped"} else False if "swapped" not in kinds_seen else None
    for kind, e, st in sources:
        if kind == "search":
            continue
        if kind == "swapped":
            if chk._c20_grid_swapped is None:
                nbad += 1
                chk.ob(rule, st, construct, None, f"`{src(st).splitlines()[0][:70]}` hands the pair of the search back in swapped order, another "
                       "return in the order of the search: the order the callers see is not one", **kw)
            continue
        nbad += 1
        if st is None:
            chk.ob(rule, fn, construct, None, "a value handed back is not followed to a statement", **kw)
            continue
        h = in_handler.get(id(st))
        if kind is None:
            chk.ob(rule, st, construct, None,
                   f"`{src(st).splitlines()[0][:70]}` (line {st.lineno}): the value handed back is not followed to a call of {FROM_MAX}", **kw)
            continue
        if h is not None and h[1] is False:
            nbad -= 1
            continue         # in a handler that cannot see the error of the search
        ok, why = _pair_verdict(fn, e, st, npts, count, std, h is not None and h[1] is True)
        chk.ob(rule, st, construct, ok, why, **kw)
    for t, h, catches in handlers:
        if catches is False:
            continue
        inside = [s_ for k_, _e, s_ in sources if k_ != "search" and s_ is not None and in_handler.get(id(s_), (None,))[0] is h]
        hd = f"`except {src(h.type) if h.type is not None else ''}`".replace(" `", "`") + f" (line {h.lineno})"
        if _always_raises(h.body) and not inside:
            chk.ob(rule, h, construct, True, f"{hd} around the search raises an error again on every path: the failure still reaches the caller", **kw)
        elif inside:
            continue         # judged above, statement by statement
        else:
            nbad += 1
            chk.ob(rule, h, construct, None,
                   f"{hd} around the call of {FROM_MAX} " + ("may catch" if catches is None else "catches") + f" the error raised when no grid fits "
                   f"({sorted(raised)}) and does not raise again on every path: cannot decide what {GRID} hands back then", **kw)
    if not nbad:
        chk.ob(rule, _stmt_of(calls[0]) or fn, construct, True,
               f"the only values {GRID} hands back are results of {FROM_MAX} on the two bounds; no handler around the call keeps its error "
               "from the caller", **kw)


def _expand_star(fn, tree, call):
    """`f(*L, m)` with L (a local assigned once) a list / tuple display, or a comprehension `[E(v) for v in range(N)]` over a literal
    range (N a number or a module-level integer constant): the call with the elements written out; the call itself otherwise"""
    if not any(isinstance(a, ast.Starred) for a in call.args):
        return call
    args = []
    for a in call.args:
        if not isinstance(a, ast.Starred):
            args.append(a)
            continue
        v, adj = _resolve(fn, a.value)
        if v is None or adj:
            return call
        if isinstance(v, (ast.List, ast.Tuple)) and not any(isinstance(x, ast.Starred) for x in v.elts):
            args += list(v.elts)
            continue
        if isinstance(v, (ast.ListComp, ast.GeneratorExp)) and len(v.generators) == 1 and not v.generators[0].ifs \
                and isinstance(v.generators[0].target, ast.Name):
            it = v.generators[0].iter
            n = None
            if isinstance(it, ast.Call) and isinstance(it.func, ast.Name) and it.func.id == "range" and len(it.args) == 1 and not it.keywords:
                n = it.args[0]
                if isinstance(n, ast.Name) and tree is not None:
                    n = _module_const(tree, n.id)
            if n is not None and _int_const(n) and 0 < n.value <= 8:
                for k in range(n.value):
                    args.append(_Subst(v.generators[0].target.id, ast.Constant(value=k)).visit(copy.deepcopy(v.elt)))
                continue
        return call
    new = ast.copy_location(ast.Call(func=call.func, args=args, keywords=call.keywords), call)
    for x in ast.walk(new):
        if not hasattr(x, "lineno"):
            ast.copy_location(x, call)
    return new


def _layout_rows(e, f, trees, depth=0):
    """the orderings a layouts dictionary holds, followed through the forms that keep them: a dictionary display, a copy
    (`dict(T)`, `T.copy()`, `copy.deepcopy(T)`, `{k: list(v) for k, v in T.items()}`), a local assigned once, a module-level
    constant of one of the modules `trees`, a function of those modules that only returns such a value -> list of tuples, or None"""
    if depth > 8 or e is None:
        return None
    if isinstance(e, ast.Dict):
        return _int_rows(e)
    if isinstance(e, ast.Name):
        if f is not None:
            vals, augs = _defs(f, e.id)
            if augs or len(vals) > 1 or (vals and vals[0] is None):
                return None
            if vals:
                return _layout_rows(vals[0], f, trees, depth + 1)
            if e.id in _params(f):
                return None
        for t in trees:
            c = _module_const(t, e.id)
            if c is not None:
                # the table must not be changed in place anywhere in its module
                if any(isinstance(n, ast.Call) and isinstance(n.func, ast.Attribute) and n.func.attr in lints.MUTATING_METHODS
                       and _root_name(n.func.value) == e.id for n in ast.walk(t)) or \
                        any(isinstance(n, ast.Subscript) and isinstance(n.ctx, (ast.Store, ast.Del)) and _root_name(n) == e.id for n in ast.walk(t)):
                    return None
                return _layout_rows(c, None, trees, depth + 1)
        return None
    if isinstance(e, ast.DictComp) and len(e.generators) == 1 and not e.generators[0].ifs:
        g = e.generators[0]
        if isinstance(g.iter, ast.Call) and isinstance(g.iter.func, ast.Attribute) and g.iter.func.attr == "items" and not g.iter.args \
                and isinstance(g.target, ast.Tuple) and len(g.target.elts) == 2 and all(isinstance(x, ast.Name) for x in g.target.elts):
            kn, vn = g.target.elts[0].id, g.target.elts[1].id
            v = e.value
            while isinstance(v, ast.Call) and isinstance(v.func, ast.Name) and v.func.id in ("list", "tuple") and len(v.args) == 1 and not v.keywords:
                v = v.args[0]
            if isinstance(e.key, ast.Name) and e.key.id == kn and isinstance(v, ast.Name) and v.id == vn:
                return _layout_rows(g.iter.func.value, f, trees, depth + 1)
        return None
    if isinstance(e, ast.Call) and not e.keywords:
        fname = src(e.func)
        if fname in ("dict", "copy.copy", "copy.deepcopy", "deepcopy", "OrderedDict") and len(e.args) == 1:
            return _layout_rows(e.args[0], f, trees, depth + 1)
        if isinstance(e.func, ast.Attribute) and e.func.attr == "copy" and not e.args:
            return _layout_rows(e.func.value, f, trees, depth + 1)
        if isinstance(e.func, ast.Name) and not e.args:
            for t in trees:
                defs = [st for st in t.body if isinstance(st, ast.FunctionDef) and st.name == e.func.id]
                if len(defs) == 1 and not defs[0].decorator_list:
                    body = [b for b in defs[0].body if not (isinstance(b, ast.Expr) and isinstance(b.value, ast.Constant))]
                    if len(body) == 1 and isinstance(body[0], ast.Return):
                        return _layout_rows(body[0].value, None, trees, depth + 1)
    return None


def _standard_layouts(chk):
    """the orderings of the 4-D layouts the set-up code builds its layout handler with.  First the literal dictionaries of setups.py
    (engine); when they are no longer written there, the dictionary each set-up function hands to getLayoutHandler is followed to where
    it is written (a table of process_grid.py or setups.py, a function returning a copy of it) -> list of tuples; AnalysisError"""
    try:
        O = I.load_layout_tables(chk)
        return [O[(n, 4)] for n in ("flux_surface", "v_parallel", "poloidal")]
    except (AnalysisError, KeyError) as e:
        first = e
    smod = chk.mod(U.SETUPS)
    trees = [smod.tree]
    try:
        ptree = chk.mod(U.PROCGRID).tree
        imported = {a.asname or a.name for n in ast.walk(smod.tree) if isinstance(n, ast.ImportFrom) and (n.module or "").split(".")[-1] == "process_grid"
                    for a in n.names}
        if imported:
            trees.append(ptree)
    except AnalysisError:
        imported = set()
    hparams = ["comm", "layouts", "nprocs", "eta_grids"]
    found = []
    for q in ("setupCylindricalGrid", "setupFromFile"):
        f = smod.func(q)
        hs = [h for h in ast.walk(f) if isinstance(h, ast.Call) and isinstance(h.func, ast.Name) and h.func.id == "getLayoutHandler"]
        for h in hs:
            b = _bind(h, hparams)
            rows = _layout_rows(b.get("layouts"), f, trees) if b else None
            if rows is None:
                raise AnalysisError(f"{first}; and the layouts handed to getLayoutHandler in {q} are not followed to a table of orderings")
            found.append(tuple(sorted(r for r in rows if len(r) == 4)))
        if not hs:
            raise AnalysisError(f"{first}; and no getLayoutHandler call in {q}")
    if len(set(found)) != 1 or not found[0]:
        raise AnalysisError(f"{first}; and the set-up functions hand different layouts to getLayoutHandler")
    return list(found[0])


def bounds_vs_layouts(chk, nf, tree=None):
    chk.func(U.PROCGRID, GRID)
    fn = nf[GRID]
    kw = dict(file=U.PROCGRID, func=GRID)
    try:
        std = _standard_layouts(chk)
    except (AnalysisError, KeyError) as e:
        for k in (0, 1):
            chk.ob("N1-bounds-cover-layouts", fn, f"bound of process direction {k}", None,
                   f"the standard layout dictionaries could not be read from the set-up code ({e}): nothing to compare the bounds with", **kw)
        return
    fparams = _params(nf[FROM_MAX]) if FROM_MAX in nf else []
    gparams = _params(fn)
    # the search is found by its role (the calls of the search function, wherever they stand), the values the function hands back
    # are followed to those calls; anything else that is handed back is judged by result_of_search below
    calls = _search_calls(fn)
    b = None
    if calls and len(fparams) == 3 and len(gparams) >= 2:
        binds = [_bind(_expand_star(fn, tree, c_), fparams) for c_ in calls]
        if all(x is not None and len(x) == 3 for x in binds) and len({tuple(ast.dump(x[p_]) for p_ in fparams) for x in binds}) == 1:
            b = binds[0]
    call_st = _stmt_of(calls[0]) if calls else None
    if b is not None and (call_st is None or not any(k_ in ("search", "swapped") for k_, _e, _s in _result_sources(fn, calls))):
        b = None
    if b is None:
        for k in (0, 1):
            chk.ob("N1-bounds-cover-layouts", fn, f"bound of process direction {k}", None,
                   f"`return {FROM_MAX}(bound1, bound2, mpi_size)` not found at the end of {GRID}: the expressions that bound the "
                   "two process directions cannot be extracted", **kw)
        chk.ob("N1-bounds-cover-layouts", fn, f"return {FROM_MAX}(bound1, bound2, mpi_size)", None, "call not found", **kw)
        return
    npts, count = gparams[0], gparams[1]
    layout_params = set()
    for k in (0, 1):
        e = b[fparams[k]]
        dims = {o[k] for o in std}
        if isinstance(e, ast.Name):
            e2, adj = _resolve(fn, e)
            if e2 is not None and not adj:
                e = e2
        got = _dims_under(e, npts) if npts not in _written(fn) else None
        construct = f"{fparams[k]} = min(npts[d] for d distributed along process direction {k})"
        gen = _gen_bound(fn, tree, e, npts) if got is None and tree is not None and npts not in _written(fn) else None
        if gen is not None:
            # the minimum runs over a table of dimension orderings: one obligation per table the code can use
            pos, alts = gen
            for kind, what, text in alts:
                if kind == "param":
                    layout_params.add(what)
                    c2 = f"{fparams[k]} = min({npts}[o[{k}]] for the orderings o of the layouts handed in `{what}`)"
# ASSUMPTION of the VIOLATED verdict below: a layout distributes the dimension at position k of its ordering along process
# direction k (the convention of getLayoutHandler for a 2-D grid, relied on by every rule of this file), and the position read in
# `npts[o[pos]]` was extracted from a comprehension without filter over the VALUES of the dictionary (checked by _gen_bound).
                    if pos == k:
                        chk.ob("N1-bounds-cover-layouts", e, c2, True,
                               f"the bound of process direction {k} is the smallest extent among the dimensions at position {k} of every layout "
                               f"the caller hands in: exactly the dimensions those layouts distribute along direction {k}", **kw)
                    else:
                        chk.ob("N1-bounds-cover-layouts", e, c2, False,
                               f"the bound of process direction {k} is the minimum over position {pos} of the orderings in `{what}` (`{src(e)[:80]}`), but "
                               f"a layout distributes the dimension at position {k} along process direction {k}: the extents of the dimensions "
                               "really distributed along that direction are not checked, a process can be left without points", **kw)
                    continue
                have = {r[pos or 0] for r in what if len(r) > (pos or 0)}
                if any(len(r) <= (pos or 0) for r in what):
                    chk.ob("N1-bounds-cover-layouts", e, construct, None, f"an ordering of `{text}` has no position {pos}", **kw)
                    continue
                ok = have == dims
                via = f"position {pos} of the orderings in `{text}`" if pos is not None else f"`{text}`"
                chk.ob("N1-bounds-cover-layouts", e, construct + (f" [table {text}]" if len(alts) > 1 else ""), ok,
                       f"the bound of process direction {k} is the smallest extent among the dimensions {sorted(dims)} ({via}) that the standard "
                       f"layouts distribute along it" if ok else f"{fparams[k]} is the minimum over dimensions {sorted(have)} ({via}) but the "
                       f"standard layouts distribute dimensions {sorted(dims)} along process direction {k}: a process can be left without "
                       "points of an unchecked dimension (or a valid grid refused)", **kw)
            continue
        if got is None:
            chk.ob("N1-bounds-cover-layouts", e, construct, None,
                   f"the bound `{src(e)[:80]}` is not a minimum over entries `{npts}[d]` with literal d: the dimensions it covers "
                   "cannot be extracted", **kw)
            continue
# ASSUMPTIONS of the two VIOLATED verdicts below: the expression is the bound the search receives for direction k (followed from the
# call of the search through names assigned once; `npts` not rebound), it was read completely (only min/max over `npts[<literal>]`;
# anything else was left undecided above), and `dims` are the dimensions the set-up code really distributes along direction k (read
# from the dictionaries handed to getLayoutHandler).  A minimum over MORE dimensions is reported too: it refuses grids that exist.
        fun, have = got
        if fun == "max" and len(have) > 1:
            chk.ob("N1-bounds-cover-layouts", e, construct, False,
                   f"the bound of process direction {k} is the LARGEST extent among dimensions {sorted(have)} (`{src(e)}`): a process "
                   "count between the smallest and the largest extent leaves processes without points of the smaller dimension", **kw)
            continue
        ok = have == dims
        chk.ob("N1-bounds-cover-layouts", e, construct, ok,
               f"the bound of process direction {k} is the smallest extent among the dimensions {sorted(dims)} that the standard layouts "
               f"distribute along it" if ok else f"{fparams[k]} is the minimum over dimensions {sorted(have)} but the "
               f"standard layouts distribute dimensions {sorted(dims)} along process direction {k}: a process can be left without "
               "points of an unchecked dimension (or a valid grid refused)", **kw)
    e = b[fparams[2]]
    changed = [n for n in ast.walk(fn) if (isinstance(n, ast.AugAssign) and isinstance(n.target, ast.Name) and n.target.id == count)
               or (isinstance(n, ast.Assign) and any(isinstance(t, ast.Name) and t.id == count for t in n.targets))]

    def keeps_value(n):
        """`count = int(count)` / `count = count`: a conversion, the value handed to the search is still the caller's"""
        if not (isinstance(n, ast.Assign) and len(n.targets) == 1):
            return False
        v = n.value
        while isinstance(v, ast.Call) and not v.keywords and len(v.args) == 1 and src(v.func) in ("int", "operator.index", "np.int64", "np.intp"):
            v = v.args[0]
        return isinstance(v, ast.Name) and v.id == count

    def shifts_value(n):
        """a store that provably gives the count another value: `count -= c`, `count = count - c`, `count //= c` (c a literal
        that is not the neutral element), standing before the call of the search"""
        op = val = None
        if isinstance(n, ast.AugAssign):
            op, val = n.op, n.value
        elif isinstance(n, ast.Assign) and len(n.targets) == 1 and isinstance(n.value, ast.BinOp) and isinstance(n.value.left, ast.Name) \
                and n.value.left.id == count:
            op, val = n.value.op, n.value.right
        if op is None or not _int_const(val):
            return False
        neutral = 0 if isinstance(op, (ast.Add, ast.Sub)) else 1 if isinstance(op, (ast.Mult, ast.FloorDiv)) else None
        if neutral is None or val.value == neutral:
            return False
        return call_st is not None and _order(fn, n, call_st) == "before"
    changed = [n for n in changed if not keeps_value(n)]
    okr = isinstance(e, ast.Name) and e.id == count and not changed
    # the query of the communicator may have moved from the callers into this function: the second parameter is then the
    # communicator itself and the process count its size (the call sites are compared on the communicator they hand in)
    comm_param = False

    def size_of_param(x):
        return isinstance(x, ast.Call) and isinstance(x.func, ast.Attribute) and x.func.attr == "Get_size" and not x.args and not x.keywords \
            and isinstance(x.func.value, ast.Name) and x.func.value.id == count
    if not okr and not changed and count not in _written(fn):
        if size_of_param(e):
            comm_param, okr = True, True
        elif isinstance(e, ast.Name) and e.id != count:
            defs = _name_defs(fn, e.id)
            if len(defs) == 1 and defs[0][0] is not None and isinstance(defs[0][1], ast.Assign) and size_of_param(defs[0][0]):
                comm_param, okr = True, True
                count = e.id
    bad = None
    # ASSUMPTIONS of the VIOLATED verdict: (1) the store gives the count ANOTHER value (checked: literal shift / scaling that is not the
    # neutral element; a conversion `int(count)` is no change, anything else is undecided); (2) it is executed before the call of the
    # search on some path (checked: it stands before the call statement, possibly under a condition on other arguments).
    sure = [n for n in changed if shifts_value(n)]
    if isinstance(e, ast.Name) and e.id == count and sure:
        bad = (f"the process count is changed (`{src(sure[0])}`, line {sure[0].lineno}) before the search: the grid multiplies to the changed "
               "value, not to the number of processes of the communicator the caller lays it on")
    chk.pat("N1-bounds-cover-layouts", call_st, f"return {FROM_MAX}(bound1, bound2, mpi_size)", okr,
            "the two bounds and the unchanged process count are handed to the search, each to its own parameter", bad, **kw)
    result_of_search(chk, fn, nf.get(FROM_MAX), calls, npts, count, std, kw)
    return layout_params, comm_param


# ---------------------------------------------------------------------------------------------------------
# N1: call sites in setups.py
# ---------------------------------------------------------------------------------------------------------
def _defs(f, name):
    """(values assigned to the plain name in f (None for a destructuring assignment), augmented assignments)"""
    vals, augs = [], []
    for n in ast.walk(f):
        if isinstance(n, ast.Assign):
            for t in n.targets:
                if isinstance(t, ast.Name) and t.id == name:
                    vals.append(n.value)
                elif isinstance(t, (ast.Tuple, ast.List)) and any(isinstance(x, ast.Name) and x.id == name for x in ast.walk(t)):
                    vals.append(None)
        elif isinstance(n, ast.AugAssign) and isinstance(n.target, ast.Name) and n.target.id == name:
            augs.append(n)
        elif isinstance(n, (ast.For, ast.With)):
            tg = [n.target] if isinstance(n, ast.For) else [it.optional_vars for it in n.items if it.optional_vars is not None]
            if any(isinstance(x, ast.Name) and x.id == name for t in tg for x in ast.walk(t)):
                vals.append(None)
    return vals, augs


def _resolve(f, e, depth=0):
    """an expression, through names assigned exactly once -> (expression or None, [adjusting statements])"""
    adj = []
    while isinstance(e, ast.Name) and depth < 6:
        vals, augs = _defs(f, e.id)
        adj += augs
        if len(vals) == 1 and vals[0] is not None:
            e = vals[0]
            depth += 1
            continue
        if not vals:
            return e, adj            # a parameter / global
        return None, adj
    return e, adj


def _comm_of_size(e):
    """`X.Get_size()` under integer arithmetic -> (text of X, [arithmetic wrapped around it]); (None, _) otherwise"""
    arith = []
    while isinstance(e, ast.BinOp):
        l = any(isinstance(n, ast.Attribute) and n.attr == "Get_size" for n in ast.walk(e.left))
        r = any(isinstance(n, ast.Attribute) and n.attr == "Get_size" for n in ast.walk(e.right))
        if l == r:
            return None, arith
        arith.append(src(e))
        e = e.left if l else e.right
    if isinstance(e, ast.Call) and isinstance(e.func, ast.Attribute) and e.func.attr == "Get_size" and not e.args and not e.keywords:
        return src(e.func.value), arith
    return None, arith


def _is_subcomm(f, hc, cm):
    """is the communicator expression `hc` (possibly) a part of `cm` obtained by splitting?"""
    try:
        e = ast.parse(hc, mode="eval").body
    except SyntaxError:
        return False
    exprs = [e]
    if isinstance(e, ast.Name):
        vals, _ = _defs(f, e.id)
        exprs = [v for v in vals if v is not None]
    return any(isinstance(n, ast.Call) and isinstance(n.func, ast.Attribute) and n.func.attr in SUBCOMM_CALLS
               for x in exprs for n in ast.walk(x))


def _split_receivers(f, hc):
    """texts of the communicators that are split in the definitions of the communicator expression `hc`"""
    try:
        e = ast.parse(hc, mode="eval").body
    except SyntaxError:
        return []
    exprs = [e]
    if isinstance(e, ast.Name):
        vals, _ = _defs(f, e.id)
        exprs = [v for v in vals if v is not None]
    return [src(n.func.value) for x in exprs for n in ast.walk(x)
            if isinstance(n, ast.Call) and isinstance(n.func, ast.Attribute) and n.func.attr in SUBCOMM_CALLS]


def _same_comm(f, hc, cm):
    if hc == cm:
        return True
    for a, b in ((hc, cm), (cm, hc)):
        if a.isidentifier():
            vals, augs = _defs(f, a)
            if len(vals) == 1 and vals[0] is not None and not augs and src(vals[0]) == b:
                return True
    return False


# ---------------------------------------------------------------------------------------------------------
# N1: a communicator NAME stands for the object bound to it at the place where it is read (reaching definitions)
# ---------------------------------------------------------------------------------------------------------
class _Reached(Exception):
    def __init__(self, state):
        self.state = state


def _binds_here(st, name):
    """does the statement itself (not the statements nested in it, not nested scopes) bind the plain name?
    -> 'kill' (an unconditional assignment statement), 'may' (walrus / with / for target / import / del), None"""
    if isinstance(st, (ast.FunctionDef, ast.AsyncFunctionDef, ast.ClassDef)):
        return "kill" if st.name == name else None
    if isinstance(st, (ast.Import, ast.ImportFrom)):
        return "kill" if any((a.asname or a.name.split(".")[0]) == name for a in st.names) else None
    own = []
    for fld, val in ast.iter_fields(st):
        for x in (val if isinstance(val, list) else [val]):
            if isinstance(x, ast.AST) and not isinstance(x, (ast.stmt, ast.ExceptHandler, ast.match_case)):
                own.append(x)
    hit = False
    work = list(own)
    while work:
        x = work.pop()
        if isinstance(x, (ast.Lambda, ast.ListComp, ast.SetComp, ast.DictComp, ast.GeneratorExp)):
            # another scope (a walrus inside a comprehension binds outside: counted as a possible binding)
            hit = hit or any(isinstance(n, ast.NamedExpr) and n.target.id == name for n in ast.walk(x))
            continue
        if isinstance(x, ast.Name) and x.id == name and isinstance(x.ctx, (ast.Store, ast.Del)):
            hit = True
        work += list(ast.iter_child_nodes(x))
    if not hit:
        return None
    if isinstance(st, (ast.Assign, ast.AnnAssign, ast.AugAssign)):
        tgs = st.targets if isinstance(st, ast.Assign) else [st.target]
        if any(isinstance(n, ast.Name) and n.id == name and isinstance(n.ctx, ast.Store) for t in tgs for n in ast.walk(t)) and \
                not (isinstance(st, ast.AnnAssign) and st.value is None):
            return "kill"
    return "may"


def _all_binders(node, name):
    out = set()
    for n in ast.walk(node):
        if isinstance(n, ast.stmt) and _binds_here(n, name):
            out.add(n)
    return out


def _reaching(f, name, target):
    """Reaching definitions of the plain local `name` at the statement `target` of the function f (just BEFORE the statement runs; for
    a compound statement: before its header): the set of statements whose binding of the name can be the current one there; None in
    the set = the value at function entry (parameter / global / unbound).  The result over-approximates (loops, try, match and with
    statements add every binding inside them); None = not followed (target not found, `global`/`nonlocal` for the name)."""
    for n in ast.walk(f):
        if isinstance(n, (ast.Global, ast.Nonlocal)) and name in n.names:
            return None

    def flow(stmts, state):
        """state after the statement list; None when its end is not reached"""
        for st in stmts:
            if state is None:
                return None
            if st is target:
                raise _Reached(state)
            b = _binds_here(st, name)
            if isinstance(st, ast.If):
                s0 = state | {st} if b else state
                a, o = flow(st.body, s0), flow(st.orelse, s0)
                state = None if a is None and o is None else (a or frozenset()) | (o or frozenset())
            elif isinstance(st, (ast.For, ast.AsyncFor, ast.While)):
                s0 = state | _all_binders(st, name)
                flow(st.body, s0)
                flow(st.orelse, s0)
                state = s0
            elif isinstance(st, (ast.Try, getattr(ast, "TryStar", ast.Try))):
                s0 = state | _all_binders(st, name)
                flow(st.body, s0)
                for h in st.handlers:
                    flow(h.body, s0)
                flow(st.orelse, s0)
                flow(st.finalbody, s0)
                state = s0
            elif isinstance(st, (ast.With, ast.AsyncWith)):
                s0 = state | {st} if b else state
                state = flow(st.body, s0)   # a with block is left at its end (or by an exception / jump)
            elif isinstance(st, getattr(ast, "Match", ())):
                s0 = state | _all_binders(st, name)
                for cs in st.cases:
                    flow(cs.body, s0)
                state = s0
            elif isinstance(st, (ast.Return, ast.Raise, ast.Break, ast.Continue)):
                # break / continue only occur inside loops, whose states already hold every binding of the loop
                return None
            elif isinstance(st, (ast.FunctionDef, ast.AsyncFunctionDef, ast.ClassDef)):
                state = frozenset({st}) if b == "kill" else state
            elif b == "kill":
                state = frozenset({st})
            elif b == "may":
                state = state | {st}
        return state
    try:
        flow(f.body, frozenset({None}))
    except _Reached as r:
        return set(r.state)
    return None


def _comm_rebound(f, exprs, read_st, use_sts):
    """Is a communicator name of the expressions bound to ANOTHER object where the layouts are built than where its size is read?
    -> None (same definitions reach both places / nothing to compare), or
       (name, new definitions (statements) reaching a use but not the read, definitions reaching the read, followed: bool)"""
    names = []
    for e in exprs:
        for n in ast.walk(e):
            if isinstance(n, ast.Name) and n.id not in names:
                names.append(n.id)
                vals, augs = _defs(f, n.id)
                if len(vals) == 1 and vals[0] is not None and not augs:
                    # a name assigned once stands for its value where it is assigned: the names of the value are compared as well
                    names += [m.id for m in ast.walk(vals[0]) if isinstance(m, ast.Name) and m.id not in names]
    for nm in names:
        vals, augs = _defs(f, nm)
        if len(vals) + len(augs) < 2:
            continue
        at_read = _reaching(f, nm, read_st)
        if at_read is None:
            return nm, [], set(), False
        for u in use_sts:
            at_use = _reaching(f, nm, u)
            if at_use is None:
                return nm, [], at_read, False
            if at_use != at_read:
                new = sorted((d for d in at_use - at_read if d is not None), key=lambda d: d.lineno)
                return nm, new, at_read, True
    return None


# ---------------------------------------------------------------------------------------------------------
# N1: the grid sizes handed to the search are the ones the layouts' grids are built from
# ---------------------------------------------------------------------------------------------------------
_READ_ONLY_CALLS ={"getattr", "hasattr", "dir", "isinstance", "callable", "type", "id", "print", "repr", "str", "len", "vars"}


def _stmt_of(node):
    p = node
    while p is not None and not isinstance(p, ast.stmt):
        p = parent(p)
    return p


def _order(f, x, y):
    """position of statement x relative to statement y in f: 'before' / 'after' / 'excl' (branches of one `if`) /
    'same' (one contains the other) / 'loop' (both inside one loop: either order occurs) / None (not found)"""
    cx, cy = _chain_to(f.body, x), _chain_to(f.body, y)
    if cx is None or cy is None:
        return None
    in_loop = False
    for lvl in range(min(len(cx), len(cy))):
        (bx, ix), (by, iy) = cx[lvl], cy[lvl]
        if bx is not by:
            holder = cx[lvl - 1][0][cx[lvl - 1][1]]
            if isinstance(holder, ast.If):
                return "excl"
            if isinstance(holder, (ast.For, ast.While)):
                return "loop" if in_loop else ("before" if bx is holder.body else "after")
            return None
        if ix != iy:
            return "loop" if in_loop else ("before" if ix < iy else "after")
        if isinstance(bx[ix], (ast.For, ast.While)):
            in_loop = True
    return "same"


def _changes_of(f, R):
    """statements of f that can change the object the local name R stands for:
    [(statement, description, attribute name or None for any, value expression or None, kind)]"""
    out = []
    for n in ast.walk(f):
        if isinstance(n, (ast.Assign, ast.AugAssign, ast.AnnAssign)):
            tgs = n.targets if isinstance(n, ast.Assign) else [n.target]
            for t in tgs:
                for x in ast.walk(t):
                    if isinstance(x, ast.Name) and x.id == R and isinstance(x.ctx, ast.Store):
                        out.append((n, f"`{src(n)[:70]}` binds `{R}` to another object", None, None, "rebind"))
                    elif isinstance(x, ast.Attribute) and isinstance(x.ctx, ast.Store) and isinstance(x.value, ast.Name) and x.value.id == R:
                        out.append((n, f"`{src(n)[:70]}` stores `{R}.{x.attr}`", x.attr, getattr(n, "value", None), "store"))
        elif isinstance(n, (ast.For, ast.With)):
            tg = [n.target] if isinstance(n, ast.For) else [it.optional_vars for it in n.items if it.optional_vars is not None]
            if any(isinstance(x, ast.Name) and x.id == R for t in tg for x in ast.walk(t)):
                out.append((n, f"`{src(n).splitlines()[0][:70]}` binds `{R}` to another object", None, None, "rebind"))
        elif isinstance(n, ast.Call):
            st = _stmt_of(n)
            fname = src(n.func)
            bare = [a for a in list(n.args) + [k.value for k in n.keywords] if isinstance(a, ast.Name) and a.id == R]
            if fname in ("setattr", "object.__setattr__") and len(n.args) == 3 and bare and n.args[0] in bare:
                a = n.args[1]
                attr = a.value if isinstance(a, ast.Constant) and isinstance(a.value, str) else None
                out.append((st, f"`{src(n)[:70]}` stores " + (f"`{R}.{attr}`" if attr else f"attributes of `{R}` by computed name"),
                            attr, n.args[2], "store"))
            elif fname == "delattr" and bare:
                out.append((st, f"`{src(n)[:70]}`", None, None, "call"))
            elif isinstance(n.func, ast.Attribute) and _root_name(n.func.value) == R and \
                    (n.func.attr in lints.MUTATING_METHODS or n.func.attr.startswith("__set")):
                out.append((st, f"`{src(n)[:70]}` changes `{R}` in place", None, None, "call"))
            elif bare and not (isinstance(n.func, ast.Name) and n.func.id in _READ_ONLY_CALLS):
                out.append((st, f"`{src(n)[:70]}` receives `{R}` and may change it", None, None, "call"))
    return [c for c in out if c[0] is not None]


def _slice_reads(f, exprs, R):
    """Load nodes of the name R in the backward slice (through plain local assignments) of the expressions"""
    seen, work, reads = set(), list(exprs), []
    while work:
        e = work.pop()
        for n in ast.walk(e):
            if isinstance(n, ast.Name) and isinstance(n.ctx, ast.Load):
                if n.id == R:
                    reads.append(n)
                elif n.id not in seen:
                    seen.add(n.id)
                    vals, _ = _defs(f, n.id)
                    work += [v for v in vals if v is not None]
    return reads


def _computed_attr_covers(f, st, A, R):
    """can the store by computed name in statement `st` (`setattr(R, name, value)`) name the attribute `A`?
    True: the name ranges over every attribute of R (`for name in dir(R)` / vars(R) / R.__dict__) or over a literal list holding A;
    False: a literal list without A; None: not followed"""
    calls = [n for n in ast.walk(st) if isinstance(n, ast.Call) and src(n.func) in ("setattr", "object.__setattr__") and len(n.args) == 3]
    if len(calls) != 1:
        return None
    nm = calls[0].args[1]
    if isinstance(nm, ast.Constant):
        return nm.value == A
    if not isinstance(nm, ast.Name):
        return None
    loops = [n for n in ast.walk(f) if isinstance(n, ast.For) and any(x is st for x in ast.walk(n))
             and any(isinstance(x, ast.Name) and x.id == nm.id for x in ast.walk(n.target))]
    others = [d for d in _name_defs(f, nm.id) if not any(d[1] is lp for lp in loops)]
    if len(loops) != 1 or others:
        return None
    it = loops[0].iter
    while isinstance(it, ast.Call) and not it.keywords and len(it.args) == 1 and src(it.func) in ("list", "tuple", "sorted", "set", "iter"):
        it = it.args[0]
    if isinstance(it, ast.Call) and isinstance(it.func, ast.Attribute) and it.func.attr in ("keys", "items") and not it.args:
        it = it.func.value
    if isinstance(it, ast.Name):
        v, adj = _resolve(f, it)
        if v is None or adj:
            return None
        it = v
    if isinstance(it, ast.Call) and src(it.func) in ("dir", "vars") and len(it.args) == 1 and src(it.args[0]) == R:
        return True
    if isinstance(it, ast.Attribute) and it.attr == "__dict__" and src(it.value) == R:
        return True
    if isinstance(it, (ast.Tuple, ast.List, ast.Set)) and it.elts and all(isinstance(x, ast.Constant) and isinstance(x.value, str) for x in it.elts):
        return A in {x.value for x in it.elts}
    return None


def _same_resolution(chk, f, c, label, sizes, eta_exprs, kw):
    """the attribute `R.A` read for the process grid has the value the grids of the layouts are computed from: no store
    into R between the two reads"""
    construct = f"{label}: the grid sizes read for {GRID} are the ones the layouts' grids are built from"
    rule = "N1-call-site"
    if not (isinstance(sizes, ast.Attribute) and isinstance(sizes.value, ast.Name)):
        return
    R, A = sizes.value.id, sizes.attr
    g_st = _stmt_of(sizes)
    reads = []
    for n in _slice_reads(f, eta_exprs, R):
        p = parent(n)
        if isinstance(p, ast.Attribute) and p.value is n:
            if p.attr == A:
                reads.append(p)
        else:
            reads.append(n)
    shared = [r for r in reads if r is sizes or _stmt_of(r) is g_st]
    reads = [r for r in reads if _stmt_of(r) is not None and _stmt_of(r) is not g_st]
    if g_st is not None and shared and not reads:
        chk.ob(rule, c, construct, True,
               f"the grids handed to getLayoutHandler are computed from the same read of `{R}.{A}` (line {g_st.lineno}) as the process grid", **kw)
        return
    if g_st is None or not reads:
        chk.ob(rule, c, construct, None,
               f"no read of `{R}.{A}` found among the statements that compute the grids handed to getLayoutHandler: the two uses of the "
               "grid sizes cannot be compared", **kw)
        return
    hard, soft = [], []
    for st, desc, attr, val, kind in _changes_of(f, R):
        if attr is not None and attr != A:
            continue
        for r in reads:
            r_st = _stmt_of(r)
            o1, o2 = _order(f, g_st, st), _order(f, st, r_st)
            if o1 in ("excl", None) or o2 in ("excl", None):
                continue
            between = (o1 == "before" and o2 == "before") or (o1 == "after" and o2 == "after")
            unsure = "loop" in (o1, o2) or "same" in (o1, o2)
            if not (between or unsure):
                continue
            first, second = (f"{GRID} (line {c.lineno})", f"`{src(r_st).splitlines()[0][:60]}` (line {r_st.lineno})") if o1 == "before" \
                else (f"`{src(r_st).splitlines()[0][:60]}` (line {r_st.lineno})", f"{GRID} (line {c.lineno})")
            # ASSUMPTIONS of the VIOLATED verdict: (1) the store lies between the two reads on one path (`between`, from the positions of
            # the three statements); (2) it can hit the attribute `A` (checked for stores by computed name: the name must range over
            # every attribute of the object or over a literal list holding `A`); (3) the stored value is not the old value of `R.A`
            # (checked: the value, followed through locals assigned once, does not read `R.A`).
            vals = [val] if val is not None else []
            for x in list(ast.walk(val)) if val is not None else []:
                if isinstance(x, ast.Name) and isinstance(x.ctx, ast.Load):
                    v2, _a2 = _resolve(f, x)
                    if v2 is not None and v2 is not x:
                        vals.append(v2)
            keeps = any(isinstance(x, ast.Attribute) and x.attr == A and isinstance(x.value, ast.Name) and x.value.id == R
                        for v_ in vals for x in ast.walk(v_))
            hits = True if attr is not None else _computed_attr_covers(f, st, A, R)
            if between and kind == "store" and not keeps and hits is False:
                break                      # a store by computed name that cannot name `A`
            if between and kind == "store" and not keeps and hits:
                hard.append((st, desc, first, second))
            else:
                soft.append((st, desc))
            break
    if hard:
        st, desc, first, second = hard[0]
        chk.ob(rule, st, construct, False,
               f"{desc} (line {st.lineno}) between the two reads of `{R}.{A}`: {first} reads the value from before the store, {second} the "
               f"value after it. With `{A}` given by the caller the process grid is chosen for another resolution than the one the layouts "
               "are built with: a process can be left without points of a distributed dimension, or no error is raised although no grid fits", **kw)
        return
    if soft:
        st, desc = soft[0]
        chk.ob(rule, st, construct, None,
               f"{desc} (line {st.lineno}) possibly between the read of `{R}.{A}` for {GRID} and the read the layouts' grids are built from: "
               "cannot decide that both see the same value", **kw)
        return
    chk.ob(rule, c, construct, True,
           f"`{R}` is not changed between the read of `{R}.{A}` for {GRID} and the {len(reads)} read(s) the grids of the layouts are computed from", **kw)


def _pair_order(f, e, c, depth=0):
    """how the pair computed by the call `c` arrives in the expression `e`: (0, 1) in order, (1, 0) swapped, None not followed"""
    if depth > 6 or e is None:
        return None
    if e is c or (isinstance(e, ast.Call) and ast.dump(e) == ast.dump(c)):
        return (0, 1)
    if isinstance(e, ast.Call) and isinstance(e.func, ast.Name) and e.func.id in ("tuple", "list") and len(e.args) == 1 and not e.keywords:
        return _pair_order(f, e.args[0], c, depth + 1)
    if isinstance(e, ast.Name):
        defs = _name_defs(f, e.id)
        if len(defs) == 1 and defs[0][0] is not None and isinstance(defs[0][1], ast.Assign):
            return _pair_order(f, defs[0][0], c, depth + 1)
        return None
    if isinstance(e, ast.Subscript) and isinstance(e.slice, ast.Slice) and e.slice.lower is None and e.slice.upper is None \
            and isinstance(e.slice.step, ast.UnaryOp) and isinstance(e.slice.step.op, ast.USub) and _int_const(e.slice.step.operand) \
            and e.slice.step.operand.value == 1:
        o = _pair_order(f, e.value, c, depth + 1)
        return None if o is None else (o[1], o[0])
    if isinstance(e, (ast.Tuple, ast.List)) and len(e.elts) == 2:
        def elem(x, d):
            if d > 6:
                return None
            if isinstance(x, ast.Subscript) and _int_const(x.slice) and x.slice.value in (0, 1, -1, -2):
                o = _pair_order(f, x.value, c, d + 1)
                return None if o is None else o[x.slice.value % 2]
            if isinstance(x, ast.Name):
                defs = _name_defs(f, x.id)
                if len(defs) != 1 or not isinstance(defs[0][1], ast.Assign):
                    return None
                v, st = defs[0]
                if v is not None:
                    return elem(v, d + 1)
                tg = st.targets[0] if len(st.targets) == 1 else None
                if isinstance(tg, (ast.Tuple, ast.List)) and len(tg.elts) == 2 and all(isinstance(t, ast.Name) for t in tg.elts):
                    o = _pair_order(f, st.value, c, d + 1)
                    names = [t.id for t in tg.elts]
                    return None if o is None or names[0] == names[1] else o[names.index(x.id)]
            return None
        i0, i1 = elem(e.elts[0], depth + 1), elem(e.elts[1], depth + 1)
        return (i0, i1) if {i0, i1} == {0, 1} else None
    return None


def _sizes_base(f, e):
    """the object whose entries `X[d]` (literal d) the expression reads, when there is exactly one -> (expression X, copy of e with
    the reads written `_npts_[d]`); names assigned once are followed"""
    e2, adj = _resolve(f, e)
    if e2 is None or adj:
        return None
    bases = {}

    class T(ast.NodeTransformer):
        def visit_Subscript(self, n):
            if _int_const(n.slice) or (isinstance(n.slice, ast.UnaryOp) and isinstance(n.slice.op, ast.USub) and _int_const(n.slice.operand)):
                v, a2 = _resolve(f, n.value) if isinstance(n.value, ast.Name) else (n.value, [])
                if v is not None and not a2 and isinstance(v, (ast.Name, ast.Attribute)):
                    bases[src(v)] = v
                    return ast.copy_location(ast.Subscript(value=ast.Name(id="_npts_", ctx=ast.Load()), slice=n.slice, ctx=ast.Load()), n)
            return self.generic_visit(n)

        def visit_Name(self, n):
            v, a2 = _resolve(f, n)
            if v is not None and v is not n and not a2 and not isinstance(v, ast.Name):
                return self.visit(copy.deepcopy(v))
            return n
    orig = e2
    e3 = T().visit(copy.deepcopy(e2))
    if len(bases) != 1:
        return None
    # the node of the function itself (with its position) rather than the one of the copy
    want = next(iter(bases))
    seen, work = set(), [orig]
    while work:
        x = work.pop()
        for n in ast.walk(x):
            if isinstance(n, (ast.Name, ast.Attribute)) and src(n) == want and isinstance(parent(n), ast.Subscript):
                return n, e3
            if isinstance(n, ast.Name) and n.id not in seen:
                seen.add(n.id)
                v, a2 = _resolve(f, n)
                if v is not None and v is not n and not a2:
                    if isinstance(v, (ast.Name, ast.Attribute)) and src(v) == want:
                        return v, e3
                    work.append(v)
    return next(iter(bases.values())), e3


def _direct_site(chk, f, c, label, fparams, hparams, std, comm_param=False):
    """the set-up function computes the two bounds itself and calls the search: the bounds are compared with the standard layouts
    here, the rest of the call site is judged as for the two-step form"""
    kw = dict(file=U.SETUPS, func=getattr(f, "_qual", f.name))
    b = _bind(c, fparams) if len(fparams) == 3 else None
    if b is None or len(b) != 3:
        chk.ob("N1-call-site", c, f"{label}: {FROM_MAX}(bound1, bound2, <layout communicator>.Get_size())", None,
               "the two bounds and the process count are not all passed", **kw)
        return
    base = None
    for k in (0, 1):
        dims = {o[k] for o in std}
        construct = f"{label}: {fparams[k]} = min(npts[d] for d distributed along process direction {k})"
        got = _sizes_base(f, b[fparams[k]])
        d = _dims_under(got[1], "_npts_") if got else None
        if d is None:
            chk.ob("N1-bounds-cover-layouts", c, construct, None,
                   f"the bound `{src(b[fparams[k]])[:80]}` is not followed to a minimum over entries of the grid sizes", **kw)
            continue
        if base is not None and src(base) != src(got[0]):
            chk.ob("N1-bounds-cover-layouts", c, construct, None, f"the two bounds read different objects (`{src(base)}` / `{src(got[0])}`)", **kw)
            continue
        base = got[0]
        fun, have = d
        if fun == "max" and len(have) > 1:
            chk.ob("N1-bounds-cover-layouts", c, construct, False,
                   f"the bound of process direction {k} is the LARGEST extent among dimensions {sorted(have)} (`{src(b[fparams[k]])[:80]}`): a process "
                   "count between the smallest and the largest extent leaves processes without points of the smaller dimension", **kw)
            continue
        ok = have == dims
        chk.ob("N1-bounds-cover-layouts", c, construct, ok,
               f"the bound of process direction {k} is the smallest extent among the dimensions {sorted(dims)} that the standard layouts "
               f"distribute along it" if ok else f"the bound handed to `{fparams[k]}` is the minimum over dimensions {sorted(have)} but the "
               f"standard layouts distribute dimensions {sorted(dims)} along process direction {k}: a process can be left without "
               "points of an unchecked dimension (or a valid grid refused)", **kw)
    if base is None:
        return
    _site(chk, f, c, label, [], hparams, comm_param=comm_param, bound=({"npts": base, "mpi_size": b[fparams[2]]}, ["npts", "mpi_size"]))


class _Rec:
    """stands for the check while one call site is analysed: obligations are recorded, not emitted (reads go to the real check)"""

    def __init__(self, chk):
        self.__dict__["_chk"] = chk
        self.__dict__["recorded"] = []
        self.__dict__["_c20_site_parities"] = []

    def __getattr__(self, name):
        return getattr(self.__dict__["_chk"], name)

    def ob(self, rule, node, construct, ok, msg="", **kw):
        self.recorded.append((rule, node, construct, ok, msg, kw))

    def statuses(self):
        return [r[3] for r in self.recorded]

    def flush(self, prefix="", downgrade=None):
        chk = self.__dict__["_chk"]
        for rule, node, construct, ok, msg, kw in self.recorded:
            if ok is False and downgrade:
                ok, msg = None, msg + downgrade
            chk.ob(rule, node, construct, ok, (prefix + msg) if ok is not True else msg, **kw)
        chk.__dict__.setdefault("_c20_site_parities", []).extend(self._c20_site_parities)


def _relink(fn):
    for n in ast.walk(fn):
        for ch in ast.iter_child_nodes(n):
            ch._parent = n
    ast.fix_missing_locations(fn)


def _free_input(f, test):
    """is the decision a test of a value the caller of `f` chooses freely (a parameter, an option popped from **kwargs), so that both
    outcomes occur?  -> (name, value of the name when the test is true) or None"""
    pol = True
    while isinstance(test, ast.UnaryOp) and isinstance(test.op, ast.Not):
        test, pol = test.operand, not pol
    if isinstance(test, ast.Compare) and len(test.ops) == 1 and isinstance(test.ops[0], (ast.Is, ast.IsNot)) and isinstance(test.left, ast.Name) \
            and isinstance(test.comparators[0], ast.Constant) and test.comparators[0].value is None:
        # `p is None` of a parameter: the caller passes it or not
        if test.left.id in _params(f) + [a.arg for a in f.args.kwonlyargs] and _defs(f, test.left.id) == ([], []):
            return test.left.id + " is None", pol == isinstance(test.ops[0], ast.Is)
        return None
    if not isinstance(test, ast.Name):
        return None
    vals, augs = _defs(f, test.id)
    if augs:
        return None
    if not vals:
        return (test.id, pol) if test.id in _params(f) + [a.arg for a in f.args.kwonlyargs] else None
    kwarg = f.args.kwarg.arg if f.args.kwarg else None
    v = vals[0]
    if len(vals) == 1 and isinstance(v, ast.Call) and isinstance(v.func, ast.Attribute) and v.func.attr in ("pop", "get") and \
            isinstance(v.func.value, ast.Name) and v.func.value.id == kwarg and v.args and isinstance(v.args[0], ast.Constant):
        return test.id, pol
    return None


def _site_by_paths(chk, f, c, label, gparams, hparams, via_helper, layout_params, comm_param):
    """The call site decided path by path.  When the process count and the communicator of the layouts are assigned in the two
    branches of one `if` (or arrive through a tuple returned by a helper that alpha.py wrote back in place), no single definition can
    be followed; the function is then specialised to each combination of branches - `if t: A else: B` replaced by A, resp. B - and each
    specialised copy is decided by the ordinary rule.
    SOUNDNESS: every run takes one of the branches, so HOLDS on every copy is HOLDS; a VIOLATED copy is a defect only if its path is
    taken by some run: checked - every specialised decision is a test of a free input of the function (a parameter / an option taken
    from **kwargs, assigned once) and equal tests take equal values; otherwise the verdict is UNDECIDED.
    -> the _Rec to flush, or None when this view decides nothing more"""
    order = list(ast.walk(f))
    try:
        k_c = next(k for k, n in enumerate(order) if n is c)
    except StopIteration:
        return None
    g = clone(f)
    g._qual = getattr(f, "_qual", f.name)
    c2 = list(ast.walk(g))[k_c]
    if not (isinstance(c2, ast.Call) and ast.dump(c2) == ast.dump(c)):
        return None
    _split_tuple_assigns(g)
    _relink(g)
    # the names the process count and the communicator of the handler are computed from
    # (the grid sizes and the other arguments of the handler are left out when the arguments can be told apart: a decision that only
    # concerns them has nothing to do with the relation of the two communicators)
    b2 = _bind(c2, gparams) if gparams and not any(isinstance(a, ast.Starred) for a in c2.args) and not any(k.arg is None for k in c2.keywords) else None
    roots = [b2[gparams[1]]] if b2 and len(gparams) > 1 and gparams[1] in b2 else [c2]
    for h in ast.walk(g):
        if isinstance(h, ast.Call) and isinstance(h.func, ast.Name) and h.func.id == "getLayoutHandler":
            hb2 = _bind(h, hparams) if not any(isinstance(a, ast.Starred) for a in h.args) and not any(k.arg is None for k in h.keywords) else None
            roots += [hb2[p_] for p_ in ("comm", "nprocs") if p_ in hb2] if hb2 and "comm" in hb2 else [h]
    chain = {n.id for r_ in roots for n in ast.walk(r_) if isinstance(n, ast.Name) and isinstance(n.ctx, ast.Load)}
    skip = {id(n) for n in ast.walk(b2[gparams[0]])} if b2 and gparams and gparams[0] in b2 and len(roots) > 1 and roots[0] is not c2 else set()
    for _ in range(6):
        more = set()
        for nm in chain:
            vals, _augs = _defs(g, nm)
            more |= {n.id for v in vals if v is not None for n in ast.walk(v) if isinstance(n, ast.Name) and id(n) not in skip}
        if more <= chain:
            break
        chain |= more
    st_c = _stmt_of(c2)
    ifs = []
    for k, st in enumerate(g.body):
        if st is st_c or any(x is c2 for x in ast.walk(st)):
            break
        if isinstance(st, ast.If) and st.orelse:
            sb = {n.id for s_ in st.body for n in ast.walk(s_) if isinstance(n, ast.Name) and isinstance(n.ctx, ast.Store)}
            so = {n.id for s_ in st.orelse for n in ast.walk(s_) if isinstance(n, ast.Name) and isinstance(n.ctx, ast.Store)}
            # a branch that can leave the function or a loop does not reach the call: not specialised
            jumps = any(isinstance(n, (ast.Return, ast.Raise, ast.Break, ast.Continue, ast.Yield, ast.YieldFrom)) for n in ast.walk(st))
            if sb & so & chain:
                if jumps:
                    return None
                ifs.append(k)
    if not ifs or len(ifs) > 3:
        return None
    import itertools
    recs = []
    for combo in itertools.product((True, False), repeat=len(ifs)):
        free = [_free_input(g, g.body[k].test) for k in ifs]
        # equal tests of a value assigned once take equal values
        value = {}
        consistent = True
        for fr, taken in zip(free, combo):
            if fr is not None:
                v = taken == fr[1]
                if value.setdefault(fr[0], v) != v:
                    consistent = False
        if not consistent:
            continue
        h = clone(g)
        h._qual = g._qual
        for k, taken in sorted(zip(ifs, combo), reverse=True):
            st = h.body[k]
            h.body[k:k + 1] = st.body if taken else st.orelse
        _propagate_copies(h)
        _relink(h)
        cs = [n for n in ast.walk(h) if isinstance(n, ast.Call) and isinstance(n.func, ast.Name) and n.func.id == c.func.id
              and (n.lineno, n.col_offset) == (c.lineno, c.col_offset)] if isinstance(c.func, ast.Name) else []
        if len(cs) != 1:
            return None
        rec = _Rec(chk.__dict__.get("_chk", chk))
        _site_plain(rec, h, cs[0], label, gparams, hparams, via_helper=via_helper, layout_params=layout_params, comm_param=comm_param)
        path = " and ".join(f"`{src(g.body[k].test)[:40]}` is {'true' if taken else 'false'}" for k, taken in zip(ifs, combo))
        recs.append((rec, path, all(fr is not None for fr in free)))
    if not recs:
        return None
    bad = [(r, p, fr) for r, p, fr in recs if False in r.statuses()]
    if bad:
        r, p, fr = bad[0]
        r.__dict__["prefix"] = f"on the path where {p}: "
        r.__dict__["downgrade"] = None if fr else (" - if the path is taken: its decisions are not all tests of a value the caller chooses "
                                                    "freely (a parameter, an option from **kwargs assigned once), so that is not established")
        return r
    if any(None in r.statuses() for r, _p, _fr in recs):
        return None
    out = recs[0][0]
    for r, _p, _fr in recs[1:]:
        out.recorded.extend(r.recorded)
        if r._c20_site_parities != out._c20_site_parities:
            out.__dict__["_c20_site_parities"] = [None]
    out.__dict__["prefix"], out.__dict__["downgrade"] = "", None
    return out


def _site(chk, f, c, label, gparams, hparams, via_helper=False, layout_params=(), comm_param=False, bound=None):
    """one call site: decided on the function as it stands; where that leaves something undecided, path by path (`_site_by_paths`)"""
    rec = _Rec(chk)
    _site_plain(rec, f, c, label, gparams, hparams, via_helper=via_helper, layout_params=layout_params, comm_param=comm_param, bound=bound)
    prefix, downgrade = "", None
    if None in rec.statuses() and False not in rec.statuses() and bound is None:
        alt = _site_by_paths(chk, f, c, label, gparams, hparams, via_helper, layout_params, comm_param)
        if alt is not None:
            rec, prefix, downgrade = alt, alt.__dict__.get("prefix", ""), alt.__dict__.get("downgrade")
    rec.flush(prefix, downgrade)


def _site_plain(chk, f, c, label, gparams, hparams, via_helper=False, layout_params=(), comm_param=False, bound=None):
    kw = dict(file=U.SETUPS, func=getattr(f, "_qual", f.name))
    construct = f"{label}: {GRID}(constants.npts, <layout communicator>.Get_size()) -> getLayoutHandler"
    good = "the grid sizes and the size of the communicator the layouts are built on; the result is the handler's process grid"

    def undecided(why):
        chk.ob("N1-call-site", c, construct, None, why, **kw)

    if any(isinstance(a, ast.Starred) for a in c.args) or any(k.arg is None for k in c.keywords):
        return undecided("starred arguments: the process count cannot be extracted")
    b = _bind(c, gparams) if gparams else None
    if bound is not None:
        b, gparams = bound
    if b is None:
        # more arguments than the function declares / unknown keywords: bind the first two by position or name
        b = {}
        for p, a in zip(("npts", "mpi_size"), c.args):
            b[p] = a
        for k in c.keywords:
            b.setdefault(k.arg, k.value)
        gparams = list(b)
    if len(gparams) < 2 or gparams[0] not in b or gparams[1] not in b:
        return undecided("the grid sizes and the process count are not both passed")
    extra = [f"{p}={src(b[p])}" for p in b if p not in gparams[:2] and p not in layout_params]
    own_layouts = [b[p] for p in b if p not in gparams[:2] and p in layout_params]
    handlers = [h for h in ast.walk(f) if isinstance(h, ast.Call) and isinstance(h.func, ast.Name) and h.func.id == "getLayoutHandler"]
    hb = [_bind(h, hparams) for h in handlers]
    if not handlers or any(x is None or "comm" not in x or "nprocs" not in x for x in hb):
        return undecided(f"no getLayoutHandler(comm, layouts, nprocs, eta_grids) call in {f.name} to compare the communicator with")
    pairs = {(src(x["comm"]), src(x["nprocs"])) for x in hb}
    if len(pairs) != 1:
        return undecided(f"layout handlers are built on several communicator/grid pairs {sorted(pairs)}")
    hc, hn = next(iter(pairs))
    size, adj = _resolve(f, b[gparams[1]])
    if comm_param:
        # the callee takes the size of the communicator it is given (see bounds_vs_layouts): the argument is the communicator
        a_ = b[gparams[1]]
        cm, arith = (src(a_) if isinstance(a_, (ast.Name, ast.Attribute)) else None), []
        adj = []
    else:
        cm, arith = _comm_of_size(size) if size is not None else (None, [])
    adjusted = [src(a) for a in adj] + arith + extra
    if cm is None:
        return undecided(f"the process count `{src(b[gparams[1]])}` is not read as `<communicator>.Get_size()`")
    same = _same_comm(f, hc, cm)
    # ASSUMPTIONS of the VIOLATED verdict: (1) `hc` is (on some path) a part obtained by splitting `cm` ITSELF (checked: the receiver
    # of the split call is `cm` or a name for it), so its size is smaller than the size of `cm` on some rank; (2) what is done to the
    # size afterwards cannot repair that on every rank (checked: only shifts by literals, which give one value on all ranks while the
    # parts of a split have different sizes; an extra argument handed to the callee, or other arithmetic, is not followed).
    literal_adj = all((isinstance(a, ast.AugAssign) and _int_const(a.value)) for a in adj) and not extra and \
        all(_int_const(x.right) or _int_const(x.left) for x in ast.walk(size) if isinstance(x, ast.BinOp)) if size is not None else False
    split_of = _split_receivers(f, hc)
    if same:
        # The two places use the same NAME: they use the same communicator only if the same bindings of the name reach the read of
        # the size and the construction of the layouts (a rebinding in between gives the layouts another object).
        size_call = c if comm_param else next((n for n in ast.walk(size) if isinstance(n, ast.Call) and isinstance(n.func, ast.Attribute)
                                               and n.func.attr == "Get_size"), None)
        read_st = _stmt_of(size_call) if size_call is not None else None
        use_sts = [_stmt_of(h) for h in handlers]
        try:
            exprs = [ast.parse(t_, mode="eval").body for t_ in (hc, cm)]
        except SyntaxError:
            exprs = []
        rb = _comm_rebound(f, exprs, read_st, use_sts) if read_st is not None and all(u is not None for u in use_sts) and exprs else None
        if rb is not None:
            nm, new, at_read, followed = rb
            if not followed or not new:
                return undecided(f"`{nm}` is bound several times in {f.name}: the bindings reaching the read of the size (line "
                                 f"{getattr(read_st, 'lineno', '?')}) and the construction of the layouts differ or are not followed; cannot decide "
                                 "that both see the same communicator")
            # ASSUMPTIONS of the VIOLATED verdict: (1) a binding `nm = <...>.Split(...)` reaches the handler and not the read, and lies
            # after the read (positions); (2) the split communicator is the one whose size was read: every binding reaching the read is
            # `nm = R` with R the receiver of the split (a name bound at most once in the function), or the receiver is `nm` itself with the
            # same bindings reaching the split as the read; (3) the binding is executed by some run: top level of the function or
            # directly under a top-level `if` on a free input; (4) the size is not adjusted other than by literals; (5) `nm` is the
            # name both places use.
            d = new[0]
            recv = [src(n.func.value) for n in ast.walk(d.value) if isinstance(n, ast.Call) and isinstance(n.func, ast.Attribute)
                    and n.func.attr in SUBCOMM_CALLS] if isinstance(d, ast.Assign) and len(new) == 1 else []
            ok2 = False
            if len(recv) == 1:
                R = recv[0]
                if R == nm:
                    ok2 = _reaching(f, nm, d) == at_read
                elif R.isidentifier() and len(_defs(f, R)[0]) <= 1 and not _defs(f, R)[1]:
                    ok2 = all(isinstance(x, ast.Assign) and len(x.targets) == 1 and isinstance(x.targets[0], ast.Name)
                              and src(x.value) == R for x in at_read)
            chain = _chain_to(f.body, d) or []
            ok3 = len(chain) == 1 or (len(chain) == 2 and isinstance(chain[0][0][chain[0][1]], ast.If)
                                      and _free_input(f, chain[0][0][chain[0][1]].test) is not None)
            after_read = _order(f, read_st, d) == "before" and all(_order(f, d, u) == "before" for u in use_sts)
            if recv and ok2 and ok3 and after_read and (literal_adj or not adjusted) and hc == cm == nm:
                through = f" (adjusted through {adjusted})" if adjusted else ""
                cond = f" when `{src(chain[0][0][chain[0][1]].test)[:40]}`" if len(chain) == 2 else ""
                chk.ob("N1-call-site", d, construct, False,
                       f"the process count is read from `{nm}` at line {read_st.lineno}{through}, BEFORE `{src(d)[:70]}` (line {d.lineno}) binds "
                       f"`{nm}` to a part of the split communicator{cond}: the grid is computed for the size of the whole `{recv[0]}` while "
                       f"the layouts are built on the part; the grid does not multiply to the size of the communicator it is laid on (the "
                       "cartesian topology cannot be created, or validity is decided for the wrong process count)", **kw)
                return
            return undecided(f"`{nm}` is bound again (`{src(d)[:60]}`, line {d.lineno}) between the read of its size (line {read_st.lineno}) "
                             "and the construction of the layouts: cannot decide that both see the same communicator")
    if not same and _is_subcomm(f, hc, cm) and (not (literal_adj or not adjusted) or not split_of
                                                 or not all(r_ == cm or _same_comm(f, r_, cm) for r_ in split_of)):
        return undecided(f"the process count is taken from `{cm}`" + (f" (adjusted through {adjusted})" if adjusted else "") +
                         f" and the layouts are built on `{hc}`, which may be a part of a split communicator: the relation between the "
                         "two sizes is not followed")
    if not same and _is_subcomm(f, hc, cm):
        through = f" (adjusted through {adjusted})" if adjusted else ""
        chk.ob("N1-call-site", c, construct, False,
               f"the process count is the size of `{cm}`{through} but the layouts are built on `{hc}`, a part of a split communicator: "
               "on a rank where the two differ (the plot-only rank) the grid does not multiply to the size of the communicator it is "
               "laid on, and the cartesian topology cannot be created", **kw)
        return
    if not same:
        return undecided(f"the process count is the size of `{cm}`, the layouts are built on `{hc}`: cannot decide that the two are "
                         "the same communicator")
    if adjusted:
        return undecided(f"the size of `{cm}` is adjusted ({adjusted}) before it is used as process count")
    for a in own_layouts:
        # the search takes its bounds from the layouts it is given: they must be the ones the handler is built with
        hl = {src(x[hparams[1]]) for x in hb if len(hparams) > 1 and hparams[1] in x}
        vals, augs = _defs(f, a.id) if isinstance(a, ast.Name) else ([], [])
        ra, _adj = _resolve(f, a)
        rh = [_resolve(f, x[hparams[1]])[0] for x in hb if len(hparams) > 1 and hparams[1] in x]
        rows_a, rows_h = _int_rows(ra) if isinstance(ra, ast.Dict) else None, [_int_rows(x) if isinstance(x, ast.Dict) else None for x in rh]
        if hl != {src(a)} and rows_a and rh and all(rows_h) and all(len(r) >= 2 for rr in [rows_a] + rows_h for r in rr):
            da = [{r[k] for r in rows_a} for k in (0, 1)]
            dh = [{r[k] for rr in rows_h for r in rr} for k in (0, 1)]
            if da != dh:
                chk.ob("N1-call-site", c, construct, False,
                       f"{GRID} takes its bounds from the layouts `{src(ra)[:80]}` (dimensions {sorted(da[0])} / {sorted(da[1])} along the two process "
                       f"directions) but getLayoutHandler is built with `{src(rh[0])[:80]}` (dimensions {sorted(dh[0])} / {sorted(dh[1])}): the extents "
                       "of the dimensions really distributed are not the ones the grid was checked against", **kw)
                return
            continue
        if hl != {src(a)} or (isinstance(a, ast.Name) and (len(vals) > 1 or augs or None in vals)):
            return undecided(f"the layouts handed to {GRID} (`{src(a)[:60]}`) are not recognised as the dictionary handed to "
                             f"getLayoutHandler ({sorted(hl)}), assigned once")
        muts = [(st, d) for st, d, _a, _v, kind in _changes_of(f, a.id) if kind != "rebind"
                and not (isinstance(st, ast.Assign) and any(x is c for x in ast.walk(st)))
                and not any(isinstance(x, ast.Call) and isinstance(x.func, ast.Name) and x.func.id == "getLayoutHandler" for x in ast.walk(st))] \
            if isinstance(a, ast.Name) else []
        if muts:
            return undecided(f"{muts[0][1]} (line {muts[0][0].lineno}): cannot decide that {GRID} and getLayoutHandler see the same layouts")
    grid_sizes, gadj = _resolve(f, b[gparams[0]])
    is_param = via_helper and isinstance(grid_sizes, ast.Name) and grid_sizes.id in _params(f) and not gadj
    if not is_param and (grid_sizes is None or gadj or src(grid_sizes) != "constants.npts"):
        return undecided(f"the grid sizes `{src(b[gparams[0]])}` are not recognised as `constants.npts`")
    tgt = parent(c)
    order = (0, 1)
    if not (isinstance(tgt, ast.Assign) and len(tgt.targets) == 1 and src(tgt.targets[0]) == hn):
        # the pair may reach the handler through other names: unpacked and packed again, indexed, converted
        order = _pair_order(f, hb[0]["nprocs"], c)
    # The order of the pair is a contract between three places: the search (returns (direction 0, direction 1) or the reverse),
    # compute_2d_process_grid (hands it on as it is or reversed) and this function (lays it on the handler).  ASSUMPTION of the
    # VIOLATED verdict: the number of reversals on the way is odd - all three are extracted, an unknown one is undecided.
    pre = getattr(chk, "_c20_order", (None, False))[1], getattr(chk, "_c20_grid_swapped", False)
    sites = chk.__dict__.setdefault("_c20_site_parities", [])
    if order not in ((0, 1), (1, 0)) or pre[1] is None:
        sites.append(None)
        return undecided(f"the result of {GRID} is not the value `{hn}` handed to getLayoutHandler as process grid")
    where = [w for w, s_ in ((f"{FROM_MAX} returns (direction 1, direction 0)", pre[0]), (f"{GRID} reverses the pair of the search", pre[1]),
                             (f"`{hn}` holds the two extents computed by {GRID} in swapped order", order == (1, 0))) if s_]
    sites.append(len(where) % 2 == 0)
    if len(where) % 2:
        if order == (1, 0) or pre[1]:
            chk.ob("N1-call-site", handlers[0], construct, False,
                   f"the process grid handed to getLayoutHandler arrives in swapped order ({'; '.join(where)}): the "
                   "extent checked against the dimensions distributed along process direction 0 is laid on direction 1 and the other way "
                   "round, so a process can be left without points of a distributed dimension", **kw)
        else:
            undecided(f"{where[0]} and the pair is laid on the handler as it is (reported by N2-factorisation)")
        return
    # the error of the search must reach the caller of the set-up function: a handler around the call that goes on with a grid of
    # its own builds the layouts on a grid nobody checked
    for t in [n for n in ast.walk(f) if isinstance(n, ast.Try) and any(x is c for st in n.body for x in ast.walk(st))]:
        for h in t.handlers:
            catches = _catches(h, {"RuntimeError"})
            if catches is False or _always_raises(h.body):
                continue
            hd = f"`except {src(h.type)}`" if h.type is not None else "`except`"
            own = [st for st in _preorder(h.body) if isinstance(st, ast.Assign) and any(src(t_) == hn for t_ in st.targets)]
            stops = [n for n in ast.walk(h) if isinstance(n, ast.Call) and src(n.func).split(".")[-1] in ("exit", "_exit", "Abort", "abort")]
            # ASSUMPTIONS of the VIOLATED verdict: the handler sees the error of the search (`catches`), does not stop the program or
            # raise again, and the grid it goes on with is written down in the handler (a literal pair of names / numbers: it was not
            # computed by another search that could have checked it), and no later statement of the function raises for it
            literal = own and isinstance(own[0].value, (ast.Tuple, ast.List)) and len(own[0].value.elts) == 2 and \
                all(isinstance(x, (ast.Name, ast.Constant)) and not (isinstance(x, ast.Constant) and x.value is None) for x in own[0].value.elts)
            later_raise = [n for n in ast.walk(f) if isinstance(n, ast.Raise) and _order(f, t, _stmt_of(n) or n) == "before"]
            if own and catches and not stops and literal and not later_raise:
                chk.ob("N1-call-site", own[0], construct, False,
                       f"{hd} (line {h.lineno}) around {GRID} catches the error raised when no valid process grid exists and goes on with "
                       f"`{src(own[0])[:70]}`: getLayoutHandler is then built on a grid that was not checked against the numbers of points, "
                       "instead of the error the property requires", **kw)
            else:
                undecided(f"{hd} (line {h.lineno}) around {GRID} may keep the error raised when no valid grid exists from the caller")
            return
    chk.ob("N1-call-site", c, construct, True, good, **kw)
    if not is_param:
        eta = [x[p] for x in hb for p in hparams[3:4] if p in x]
        _same_resolution(chk, f, c, label, grid_sizes, eta, kw)


def call_sites(chk, layout_params=(), comm_param=False):
    smod = chk.mod(U.SETUPS)
    pmod = chk.mod(U.PROCGRID)
    gparams = _params(pmod.func(GRID)) if pmod.has(GRID) else []
    hparams = ["comm", "layouts", "nprocs", "eta_grids"]
    try:
        lmod = chk.mod(U.LAYOUT)
        if lmod.has("getLayoutHandler"):
            hparams = _params(lmod.func("getLayoutHandler"))
    except AnalysisError:
        pass
    funcs = [st for st in smod.tree.body if isinstance(st, ast.FunctionDef)]
    fparams = _params(pmod.func(FROM_MAX)) if pmod.has(FROM_MAX) else []
    try:
        std = _standard_layouts(chk)
    except (AnalysisError, KeyError):
        std = None

    def grid_calls(g):
        return [c for c in ast.walk(g) if isinstance(c, ast.Call) and isinstance(c.func, ast.Name) and c.func.id == GRID]
    for q in ("setupCylindricalGrid", "setupFromFile"):
        f = chk.func(U.SETUPS, q)
        calls = grid_calls(f)
        if calls:
            for c in calls:
                _site(chk, f, c, q, gparams, hparams, layout_params=layout_params, comm_param=comm_param)
            continue
        called = {c.func.id for c in ast.walk(f) if isinstance(c, ast.Call) and isinstance(c.func, ast.Name)}
        helpers = [g for g in funcs if g is not f and g.name in called and grid_calls(g)]
        direct = [c for c in ast.walk(f) if isinstance(c, ast.Call) and isinstance(c.func, ast.Name) and c.func.id == FROM_MAX]
        if not helpers and direct and std is not None:
            # the bounds are computed by the caller, which calls the search itself
            for c in direct:
                _direct_site(chk, f, c, q, fparams, hparams, std, comm_param=False)
            continue
        if not helpers:
            chk.ob("N1-call-site", f, f"{q}: {GRID}(constants.npts, <layout communicator>.Get_size()) -> getLayoutHandler", None,
                   f"no call of {GRID} in {q} or in a function of setups.py it calls", file=U.SETUPS, func=q)
            continue
        for g in helpers:
            chk.func(U.SETUPS, g.name)
            for c in grid_calls(g):
                # inside a helper the grid sizes arrive as a parameter: only the communicator and the use of the result are decided
                _site(chk, g, c, q, gparams, hparams, via_helper=True, layout_params=layout_params, comm_param=comm_param)


# ---------------------------------------------------------------------------------------------------------
# N4: the answer is a function of the arguments alone
# ---------------------------------------------------------------------------------------------------------
_TABLE_CALLS = {"dict", "list", "set", "defaultdict", "OrderedDict", "deque", "Counter"}


def pure_search(chk, tree, fn):
    kw = dict(file=U.PROCGRID)
    if not lints.memo_selftest():
        raise AnalysisError("C20: the memoised-result lint no longer recognises its own positive example")
    memo, muts = lints.memoised_result_mutations(tree)
    # ASSUMPTION of the VIOLATED verdict: the object changed in place IS the object the cache holds.  The alias analysis of the lint
    # treats a slice `X[a:b]` as a view (true for arrays); for a list (the memoised function returns a list display, a list
    # comprehension, list(...) or sorted(...)) a slice is a copy, so a function that slices the memoised result before changing it is
    # not decided here.
    soft_muts = []
    for f_, node, desc in muts:
        defs = [n for n in ast.walk(tree) if isinstance(n, ast.FunctionDef) and n.name in memo]
        returns_list = bool(defs) and all(isinstance(r.value, (ast.List, ast.ListComp)) or
                                          (isinstance(r.value, ast.Call) and src(r.value.func) in ("list", "sorted"))
                                          for d in defs for r in ast.walk(d) if isinstance(r, ast.Return))
        sliced = any(isinstance(n, ast.Subscript) and isinstance(n.slice, ast.Slice) and isinstance(n.ctx, ast.Load) for n in ast.walk(f_))
        copied = any(isinstance(n, ast.Call) and (src(n.func) in ("copy.copy", "copy.deepcopy") or
                                                  (isinstance(n.func, ast.Attribute) and n.func.attr == "copy")) for n in ast.walk(f_))
        if (returns_list and sliced) or copied:
            soft_muts.append((f_, node, desc))
            chk.ob("N4-pure-search", node, f"memoised table changed in {f_.name}", None,
                   desc + f": but {f_.name} also slices or copies values, and a slice of a list is a copy: cannot decide that the object changed "
                   "is the one the cache holds", func=f_.name, **kw)
            continue
        chk.ob("N4-pure-search", node, f"memoised table changed in {f_.name}", False,
               desc + ": the cache hands the same object to every later call, so the next call with the same process count starts "
               "from the changed table and can refuse a grid that exists (or return another one)", func=f_.name, **kw)
    # possible changes of a memoised result that the lint could not establish (the object changed may be a copy, the callee may not
    # be the memoised function): UNDECIDED under the same rule
    n_und = 0
    for f_, node, desc, why_ in getattr(muts, "undecided", ()):
        n_und += 1
        chk.ob("N4-pure-search", node, f"memoised table changed in {f_.name}", None,
               f"{desc}: not established ({why_}); if the object changed is the one the cache holds, the next call with the same process "
               "count starts from the changed table", func=f_.name, **kw)
    # module-level tables (hand-written memoisation): filling is fine, changing a stored object in place is not
    tables = set()
    for st in tree.body:
        tg, val = ([t for t in st.targets], st.value) if isinstance(st, ast.Assign) else \
            ([st.target], st.value) if isinstance(st, ast.AnnAssign) and st.value is not None else ([], None)
        if isinstance(val, (ast.Dict, ast.List, ast.Set, ast.ListComp, ast.DictComp, ast.SetComp)) or \
                (isinstance(val, ast.Call) and src(val.func).split(".")[-1] in _TABLE_CALLS):
            tables |= {t.id for t in tg if isinstance(t, ast.Name)}
    nstate = nviol = 0
    if tables:
        for f_ in [n for n in ast.walk(tree) if isinstance(n, ast.FunctionDef)]:
            found = lints.shared_state_mutations(f_, lambda s_: s_ in tables)
            for node, desc, why_ in getattr(found, "undecided", ()):
                n_und += 1
                chk.ob("N4-pure-search", node, f"module-level table changed in {f_.name}", None,
                       desc.replace("the stored", "the module-level table") + f": not established ({why_}); cannot decide that a later call "
                       "does not read a changed object", func=f_.name, **kw)
            for node, desc in found:
                recv = node.func.value if isinstance(node, ast.Call) and isinstance(node.func, ast.Attribute) else \
                    node.target if isinstance(node, ast.AugAssign) else \
                    next((t.value for t in getattr(node, "targets", []) if isinstance(t, ast.Subscript)), None)
                if isinstance(recv, ast.Subscript) and isinstance(node, ast.AugAssign):
                    recv = recv.value
                direct = isinstance(recv, ast.Name) and recv.id in tables
                fill = direct and (isinstance(node, ast.Assign) or (isinstance(node, ast.Call) and node.func.attr in ("setdefault", "update")))
                if fill:
                    continue
                # ASSUMPTION of the VIOLATED verdict: the object changed through the alias is the stored one, not a copy (a slice of a
                # stored list, `.copy()`, copy.copy): a function that also slices or copies is not decided
                sliced = any((isinstance(n, ast.Subscript) and isinstance(n.slice, ast.Slice) and isinstance(n.ctx, ast.Load)) or
                             (isinstance(n, ast.Call) and (src(n.func) in ("copy.copy", "copy.deepcopy", "list", "dict", "sorted") or
                                                           (isinstance(n.func, ast.Attribute) and n.func.attr == "copy"))) for n in ast.walk(f_))
                direct = direct or sliced
                nstate += 1
                nviol += not direct
                chk.ob("N4-pure-search", node, f"module-level table changed in {f_.name}", None if direct else False,
                       desc.replace("the stored", "the module-level table") + (
                           ": a call changes module-level state; cannot decide that a later call does not read it" if direct else
                           ": the object is kept in a module-level table, so a later call reads the changed object and its answer "
                           "depends on the calls made before"), func=f_.name, **kw)
    hard_muts = [m for m in muts if not any(m[1] is s_[1] for s_ in soft_muts)]
    chk.ob("N4-pure-search", fn, "no call changes state that a later call reads",
           True if not muts and not nstate and not n_und else False if hard_muts or nviol else None,
           f"memoised helpers: {sorted(memo) or 'none'}; module-level tables: {sorted(tables) or 'none'}; no in-place change of a "
           "memoised or stored result" if not muts and not nstate and not n_und else "see the in-place changes reported above",
           func=FROM_MAX, nontrivial=False, **kw)
    # A `global` / `nonlocal` declaration alone is no defect (a table filled on first use, a call counter): whether a later call READS
    # something an earlier call stored from its arguments is not followed here, so the declaration is UNDECIDED, never VIOLATED.
    glob = [n for n in ast.walk(tree) if isinstance(n, (ast.Global, ast.Nonlocal))]
    chk.ob("N4-pure-search", glob[0] if glob else fn, "no global/nonlocal state in process_grid.py", True if not glob else None,
           "the search functions declare no global or nonlocal variable" if not glob else
           f"`{src(glob[0])}` (line {glob[0].lineno}): a function rebinds module-level state; cannot decide whether the result of a later call "
           "depends on it (lazy initialisation of a constant table does not, a remembered argument does)", func=FROM_MAX, nontrivial=False, **kw)


# ---------------------------------------------------------------------------------------------------------
# N2 / N3: the search in compute_2d_process_grid_from_max
# ---------------------------------------------------------------------------------------------------------
def _first_loop(fn, P1, P2, M, r1, r2):
    """the feasibility loop and its parts -> dict (status per clause) ; names are the returned pair (r1, r2)"""
    out = {"w1": None, "guard": (None, "the loop that looks for the first admissible divisor (the top-level `while` holding the "
                                 "`raise`) was not found"), "fact": (None, "first search loop not found"), "scan": None}
    tops = [n for n in fn.body if isinstance(n, ast.While)]
    cands = [w for w in tops if any(isinstance(n, ast.Raise) for n in ast.walk(w))]
    if len(cands) != 1:
        cands = [w for w in tops if _cmp(w.test, {r2}) is not None and _cmp(w.test, {r2})[1] == "gt"]
        if len(cands) != 1:
            return out
    w1 = out["w1"] = cands[0]
    scans = _scans_in(w1.body, M)
    if len(scans) != 1:
        why = f"{len(scans)} divisor scans `while v <= B and {M} % v != 0: v += 1` in the first search loop (one expected)"
        out["guard"] = out["fact"] = (None, why)
        return out
    blk, k, sc = scans[0]
    out["scan"] = sc
    v = sc["var"]
    al, j = _aliases_after(blk, k, v)
    B = _bound_text(sc["base"], sc["k"])
    # ---- failure guard: judged against the bound of the specification, min(process count, bound of direction 0).  The scan may
    # run further than that bound (the test still sorts every value correctly) but not stop short of it.
    true_base = _canon(ast.parse(f"min({M}, {P1})", mode="eval").body)
    T = f"min({M}, {P1})"
    nxt = blk[j] if j < len(blk) else None
    # ASSUMPTION of every VIOLATED verdict on the failure guard: the `if` after the scan is the ONLY place where the search can give
    # up (checked: exactly one `raise` in the function and no `assert`; a second test - a guard split in two, a validation before
    # the loop - could catch what the first lets through, and is not decided here).
    gives_up = [n for n in ast.walk(fn) if isinstance(n, (ast.Raise, ast.Assert))]
    if isinstance(nxt, ast.If) and not nxt.orelse and any(isinstance(x, ast.Raise) for x in nxt.body):
        f = _cmp(nxt.test, al)
        if any(_is_nondiv(nxt.test, a, M) for a in al):
            out["guard"] = (False, f"after `while {src(sc['loop'].test)}` the failure test is `{src(nxt.test)}`, not the exceeded bound "
                                   f"`{v} > {T}`: a value that stepped past the bound onto a divisor is returned as a valid grid (a process "
                                   "gets no point of a distributed dimension)")
        elif f and f[1] == "le":
            out["guard"] = (False, f"the error is raised when `{src(nxt.test)}`, i.e. when the scan FOUND a value within the bound, and "
                                   "not when it ran past it")
        elif f and f[1] == "gt" and f[2] == true_base and f[3] != 0:
            out["guard"] = (False, f"the error is raised when `{f[0]} > {_bound_text(T, f[3])}` instead of `{f[0]} > {T}`: " +
                                   (f"values up to {_bound_text(T, f[3])} pass although they exceed the bound (a process gets no point of a "
                                    "distributed dimension)" if f[3] > 0 else
                                    "an admissible divisor equal to the bound is refused although a valid grid exists"))
        elif f and f[1] == "gt" and f[2] == true_base and sc["base"] == true_base and sc["k"] < 0:
            out["guard"] = (False, f"the scan stops at `{v} = {_bound_text(T, sc['k'] + 1)}` whether or not that value divides `{M}`, and the "
                                   f"failure test `{src(nxt.test)}` lets it pass: a non-divisor within the bound is taken as first extent, the "
                                   "grid does not multiply to the process count")
        elif f and f[1] == "gt" and f[2] == true_base and sc["base"] == true_base:
            out["guard"] = (True, f"the scan stops at the first divisor or beyond {B}; the error is raised exactly when the value found exceeds "
                                  f"{T}, so a value that passes is a divisor within the bound")
        else:
            out["guard"] = (None, f"the failure test `{src(nxt.test)[:80]}` / the scan bound `{B}` are not comparisons of the scanned value "
                                  f"with `{T}`: cannot decide that the error is raised exactly when that bound is exceeded")
    else:
        out["guard"] = (None, "the statement after the divisor scan is not `if <scanned value> > <bound>: raise`")
    if out["guard"][0] is False and len(gives_up) > 1:
        out["guard"] = (None, f"{len(gives_up)} `raise` / `assert` statements in {fn.name} (lines {sorted(n.lineno for n in gives_up)}): the "
                              f"test after the scan alone would be wrong ({out['guard'][1][:160]}...), but the conditions under which the search "
                              "gives up are spread over several tests, which are not composed")
    # ---- factorisation
    start = _scan_start(blk, k, v)
    asg = [n for n in blk[j:] if isinstance(n, ast.Assign) and len(n.targets) == 1 and isinstance(n.targets[0], ast.Name)
           and n.targets[0].id == r2]
    test = _cmp(w1.test, {r2})
    init = {}
    for st in fn.body[:fn.body.index(w1)]:
        if isinstance(st, ast.Assign) and len(st.targets) == 1 and isinstance(st.targets[0], ast.Name) and st.targets[0].id in (r1, r2):
            init[st.targets[0].id] = st.value
            continue
        for n in ast.walk(st):
            if isinstance(n, ast.Name) and isinstance(n.ctx, ast.Store) and n.id in (r1, r2):
                init[n.id] = None
    why = None
    verdict = None
    if len(asg) != 1 or blk is not w1.body:
        why = f"no single assignment `{r2} = {M} // <divisor>` after the scan in the first search loop"
    else:
        e = asg[0].value
        if isinstance(e, ast.BinOp) and isinstance(e.left, ast.Name) and e.left.id == M and isinstance(e.right, ast.Name) and e.right.id in al:
            if isinstance(e.op, ast.Div):
                verdict, why = False, (f"`{src(asg[0])}` is a true division: the second extent becomes a float, which is no valid number of "
                                       "processes for the cartesian topology")
            elif not isinstance(e.op, ast.FloorDiv):
                why = f"`{src(asg[0])}` is not the quotient `{M} // {e.right.id}`"
        else:
            why = f"`{src(asg[0])}` is not the quotient of {M} by the scanned divisor ({sorted(al)})"
        # the scanned value may be kept in a name of its own and stored in the returned first extent after the guard (`r1 = v`)
        late = {n.targets[0].id for n in blk[j:] if isinstance(n, ast.Assign) and len(n.targets) == 1 and isinstance(n.targets[0], ast.Name)
                and isinstance(n.value, ast.Name) and n.value.id in al}
        r1_stores = [n for n in ast.walk(w1) if isinstance(n, ast.Name) and isinstance(n.ctx, ast.Store) and n.id == r1]
        if why is None and r1 not in al and not (r1 in late and len(r1_stores) == 1):
            why = f"the scanned divisor ({sorted(al)}) is not stored in the returned first extent `{r1}`"
        if why is None and start != (r1, 1):
            why = (f"the scan does not start at `{r1} + 1`" + (f" but at `{start[0]} + {start[1]}`" if start else "") +
                   ": cannot decide that every divisor is visited once, in increasing order")
    if why is None:
        if not (test and test[1] == "gt" and test[2] == P2):
            why = f"the loop test `{src(w1.test)}` is not a comparison of `{r2}` with its bound `{P2}`"
        elif test[3] != 0:
            verdict = False
            why = (f"the first search loop runs while `{src(w1.test)}` instead of `{r2} > {P2}`: " +
                   ("a second extent equal to its bound is admissible but is skipped (a valid grid can be refused)" if test[3] < 0 else
                    f"it stops while the second extent still exceeds the bound `{P2}` (a process gets no point)"))
    if why is None:
        i1, i2 = init.get(r1), init.get(r2)
        if not (i1 is not None and _int_const(i1) and i1.value == 1 and isinstance(i2, ast.Name) and i2.id == M):
            why = f"the search does not start from `{r1} = 1`, `{r2} = {M}`"
    if why is None:
        out["fact"] = (True, "the second extent is the exact quotient by a divisor found by the scan: the grid multiplies to the process "
                             "count; the search continues while the second extent exceeds its bound")
    else:
        out["fact"] = (verdict, why)
    return out


def _above_current(fn, w2, a, r1, target):
    """is `a >= r1 + 1` known to hold when `target` (a statement of the loop w2) is reached?  One-bit abstract walk over the paths
    of the loop body: the relation is established by `a = r1 + c` (c >= 1), kept by `a += c` (c >= 0), lost by any other store of
    `a` or `r1`; it holds at the head of the loop when it holds on entry and on every back edge."""
    def plus(e):
        if isinstance(e, ast.BinOp) and isinstance(e.op, ast.Add):
            for x, y in ((e.left, e.right), (e.right, e.left)):
                if isinstance(x, ast.Name) and x.id == r1 and _int_const(y) and y.value >= 1:
                    return True
        return False

    def step(st, state):
        """state after a simple statement"""
        if isinstance(st, ast.Assign) and len(st.targets) == 1 and isinstance(st.targets[0], ast.Name):
            if st.targets[0].id == a:
                return plus(st.value)
            if st.targets[0].id == r1:
                return False
            return state
        if isinstance(st, ast.AugAssign) and isinstance(st.target, ast.Name) and st.target.id in (a, r1):
            up = isinstance(st.op, ast.Add) and _int_const(st.value) and st.value.value >= 0
            down = isinstance(st.op, ast.Sub) and _int_const(st.value) and st.value.value >= 0
            return state and (up if st.target.id == a else down)
        if any(isinstance(n, ast.Name) and isinstance(n.ctx, (ast.Store, ast.Del)) and n.id in (a, r1) for n in ast.walk(st)):
            return False
        return state

    def run(head):
        seen = {"target": None, "back": []}

        def walk(blk, state):
            """state at the end of the block, None when every path left it"""
            for st in blk:
                if st is target:
                    seen["target"] = state if seen["target"] is None else (seen["target"] and state)
                if isinstance(st, ast.If):
                    s1, s2 = walk(st.body, state), walk(st.orelse, state)
                    if s1 is None and s2 is None:
                        return None
                    state = all(x for x in (s1, s2) if x is not None)
                elif isinstance(st, (ast.Break, ast.Return, ast.Raise)):
                    return None
                elif isinstance(st, ast.Continue):
                    seen["back"].append(state)
                    return None
                elif isinstance(st, (ast.While, ast.For, ast.With, ast.Try)):
                    if any(x is target for x in ast.walk(st)):
                        seen["target"] = False           # not followed into nested statements
                    inner = [x for x in _preorder([st])[1:]]
                    for x in inner:
                        if isinstance(x, (ast.If, ast.While, ast.For, ast.With, ast.Try, ast.Break, ast.Continue, ast.Return, ast.Raise)):
                            continue
                        state = step(x, state) and state
                    if _own_stores(st) & {a, r1}:
                        state = False
                else:
                    state = step(st, state)
            return state
        end = walk(w2.body, head)
        if end is not None:
            seen["back"].append(end)
        return seen
    # on entry: the last top-level store of `a` before the loop is `a = r1 + c`, and `r1` is not stored after it
    entry = False
    if w2 in fn.body:
        state = False
        for st in fn.body[:fn.body.index(w2)]:
            if isinstance(st, (ast.If, ast.While, ast.For, ast.With, ast.Try)):
                if any(isinstance(n, ast.Name) and isinstance(n.ctx, (ast.Store, ast.Del)) and n.id in (a, r1) for n in ast.walk(st)):
                    state = False
            else:
                state = step(st, state)
        entry = state
    if isinstance(w2, ast.For) and _own_stores(w2) & {a, r1}:
        return False
    if entry:
        seen = run(True)
        if all(seen["back"]):
            return bool(seen["target"])
    return bool(run(False)["target"])


def _second_loop(fn, w1, P1, P2, M, r1, r2, ctx=None, env=None, first_ok=False):
    """the refinement loop -> dict: w2, step=(verdict, why), cand=(a, b) names of the accepted candidate, mono: bool"""
    out = {"w2": None, "step": (None, "the refinement loop (the top-level `while` after the first search that stores the returned "
                                "extents) was not found"), "cand": None, "mono": False}
    tops = [n for n in fn.body if isinstance(n, (ast.While, ast.For) if ctx is not None else ast.While) and n is not w1
            and any(isinstance(x, ast.Name) and isinstance(x.ctx, ast.Store) and x.id in (r1, r2) for x in ast.walk(n))]
    if w1 is not None:
        tops = [n for n in tops if fn.body.index(n) > fn.body.index(w1)]
    if len(tops) != 1:
        return out
    w2 = out["w2"] = tops[0]
    # acceptance blocks: where the returned extents are replaced
    acc = []
    for blk in [w2.body] + [b for b in _blocks_of(w2) if b is not w2.body]:
        st1 = [s for s in blk if isinstance(s, ast.Assign) and len(s.targets) == 1 and isinstance(s.targets[0], ast.Name) and s.targets[0].id == r1]
        st2 = [s for s in blk if isinstance(s, ast.Assign) and len(s.targets) == 1 and isinstance(s.targets[0], ast.Name) and s.targets[0].id == r2]
        if st1 or st2:
            acc.append((blk, st1, st2))
    table = None
    if isinstance(w2, ast.For):
        lt = _loop_target(w2, env or {}, M)
        if lt is None:
            out["step"] = (None, f"the sequence `{src(w2.iter)[:80]}` the refinement loop runs over is not a recognised table of divisors")
            return out
        table = lt
    other = [n for n in ast.walk(w2) if isinstance(n, (ast.AugAssign, ast.For)) and _own_stores(n) & {r1, r2}]
    if other or not acc:
        out["step"] = (None, f"the returned extents are changed by `{src(other[0])[:60]}`" if other else "no assignment of the returned extents")
        return out
    for blk, st1, st2 in acc:
        if len(st1) != len(st2):
            lone = (st1 or st2)[0]
            # ASSUMPTION of the VIOLATED verdict: the other extent is not brought in line anywhere else before the pair is returned
            # (checked: no store of it in another block of the loop or after the loop, e.g. `nprocs2 = mpi_size // nprocs1` computed
            # once at the end - such a form is not decided here)
            other_nm = r2 if lone in st1 else r1
            elsewhere = [s for b_, s1_, s2_ in acc if b_ is not blk for s in (s2_ if lone in st1 else s1_)]
            after = [n for st_ in (fn.body[fn.body.index(w2) + 1:] if w2 in fn.body else [None]) for n in (ast.walk(st_) if st_ is not None else [None])
                     if n is None or (isinstance(n, ast.Name) and isinstance(n.ctx, ast.Store) and n.id == other_nm)]
            if elsewhere or after:
                out["step"] = (None, f"`{src(lone)}` replaces one extent of the grid and `{other_nm}` is stored at another place "
                                     f"(line {(elsewhere or after)[0].lineno if (elsewhere or after)[0] is not None else '?'}): the pair handed back is not followed")
                return out
            out["step"] = (False,f"`{src(lone)}` replaces one extent of the grid without the other in the same branch: the pair no longer "
                                  f"multiplies to the process count `{M}`")
            return out
    if len(acc) != 1 or len(acc[0][1]) != 1:
        out["step"] = (None, "the returned extents are replaced at several places of the refinement loop")
        return out
    blk, (s1,), (s2,) = acc[0]
    if not isinstance(s1.value, ast.Name):
        out["step"] = (None, f"`{src(s1)}`: the accepted first extent is not a plain candidate variable")
        return out
    a = s1.value.id
    first = s1 if blk.index(s1) < blk.index(s2) else s2
    facts, order, pos = _path_facts(w2, first)
    if facts is None:
        out["step"] = (None, "the acceptance lies inside a nested loop")
        return out
    here = pos[id(first)]
    live = _live_before(w2.body, first)
    # the second extent of the candidate
    b = None
    e = s2.value
    if isinstance(e, ast.Name):
        b = e.id
        chain_blocks = [c[0] for c in _chain_to(w2.body, first)]
        defs = [s for s in order[:here] if isinstance(s, ast.Assign) and len(s.targets) == 1 and isinstance(s.targets[0], ast.Name)
                and s.targets[0].id == b]
        d = defs[-1] if defs else None
        if d is None or not any(d in cb for cb in chain_blocks) or _stored_between(order, pos[id(d)], here, {a, b}, live):
            out["step"] = (None, f"the definition of the candidate's second extent `{b}` that reaches the acceptance was not found")
            return out
        e = d.value
    if not (isinstance(e, ast.BinOp) and isinstance(e.left, ast.Name) and e.left.id == M and isinstance(e.right, ast.Name) and e.right.id == a):
        out["step"] = (None, f"the accepted second extent `{src(e)}` is not the quotient `{M} // {a}`")
        return out
    if isinstance(e.op, ast.Div):
        out["step"] = (False, f"the candidate's second extent `{src(e)}` is a true division: a float is returned as number of processes")
        return out
    if not isinstance(e.op, ast.FloorDiv):
        out["step"] = (None, f"the accepted second extent `{src(e)}` is not the quotient `{M} // {a}`")
        return out
    out["cand"] = (a, b)
    # bounds known at the acceptance
    want1 = _canon(ast.parse(f"min({M}, {P1})", mode="eval").body)
    got1 = got2 = None
    for p, t, taken in facts:
        for t2, tk in _facts(t, taken):
            f = _cmp(t2, {a} | ({b} if b else set()), tk)
            if not f or f[1] != "le" or _stored_between(order, p, here, {f[0]}, live):
                continue
            if f[0] == a and f[2] == want1:
                got1 = f if got1 is None or f[3] < got1[3] else got1
            if b and f[0] == b and f[2] == P2:
                got2 = f if got2 is None or f[3] < got2[3] else got2
    if table is not None:
        _i, cv, D2 = table
        if cv != a or _stored_between(order, -1, here, {a}, live):
            out["step"] = (None, f"the accepted first extent `{a}` is not the candidate `{cv}` of the loop over `{D2.text[:60]}`")
            return out
        if not D2.div and any(((_is_div(t2, a, M) and tk) or (_is_nondiv(t2, a, M) and not tk)) and not _stored_between(order, p, here, {a}, live)
                              for p, t, taken in facts for t2, tk in _facts(t, taken)):
            D2 = D2.but(div=True)
        if not D2.div:
            out["step"] = (None, f"the table `{D2.text[:80]}` is not filtered by `{M} % n == 0`: not known that `{a}` divides `{M}`")
            return out
        if D2.hi[0] == want1 and (got1 is None or D2.hi[1] < got1[3]):
            got1 = (a, "le", want1, D2.hi[1])
        # candidates after the position where the first search stopped have larger first extents, hence quotients not above the one that
        # was found admissible there
        if got2 is None and b and ctx.get("adm") and ctx.get("idx") and D2.asc and D2.after is not None and D2.after[0] == ctx["idx"] \
                and D2.after[1] >= 1 and D2.root is ctx["D"]:
            got2 = (b, "le", P2, 0)
            out["by_order"] = True
        # the same argument for `range(nprocs1 + c, ...)`: evaluated once, with the pair the first search stopped at
        between = fn.body[fn.body.index(w1) + 1:fn.body.index(w2)] if w1 is not None and w1 in fn.body else None
        if got2 is None and b and ctx.get("adm") and D2.start is not None and D2.start[0] == r1 and D2.start[1] >= 1 and between is not None \
                and not any(_own_stores(x) & {r1, r2} for st in between for x in _preorder([st])):
            got2 = (b, "le", P2, 0)
            out["by_order"] = True
        # a one-pass iterator (generator) that the first search consumed up to the candidate it stopped at: the second loop goes on
        # with the candidates after it, which are larger
        if got2 is None and b and ctx.get("adm") and D2.lazy and D2.asc and isinstance(w2.iter, ast.Name) and isinstance(w1, ast.For) \
                and isinstance(w1.iter, ast.Name) and w1.iter.id == w2.iter.id and between is not None \
                and not any(_own_stores(x) & {r1, r2, w2.iter.id} for st in between for x in _preorder([st])) \
                and sum(1 for n in ast.walk(fn) if isinstance(n, ast.Name) and n.id == w2.iter.id and isinstance(n.ctx, ast.Load)) == 2:
            got2 = (b, "le", P2, 0)
            out["by_order"] = True
    elif got2 is None and b and first_ok and w1 is not None and w1 in fn.body and w2 in fn.body \
            and not any(_own_stores(x) & {r1, r2} for st in fn.body[fn.body.index(w1) + 1:fn.body.index(w2)] for x in _preorder([st])) \
            and _above_current(fn, w2, a, r1, first):
        # no test of the candidate's quotient, but the candidate is above the current first extent (`a >= r1 + 1` on every path to the
        # acceptance), so its quotient is not above the current second extent, which the first search left within its bound and every
        # acceptance keeps there
        got2 = (b, "le", P2, 0)
        out["by_order"] = True
# ASSUMPTION of the VIOLATED verdict below: `g` is the TIGHTEST bound of the candidate known on the path to the acceptance (all `if`
# tests on the path are collected, a name stored in between drops its facts), so `k > 0` means no test on the path keeps the
# candidate within its bound.
    for g, nm, bound in ((got1, a, f"min({M}, {P1})"), (got2, b, P2)):
        if g is not None and g[3] > 0:
            out["step"] = (False, f"a candidate is accepted when `{nm} <= {_bound_text(g[2], g[3])}`, beyond its bound `{bound}`: "
                                  "a process gets no point of a distributed dimension")
            return out
    if got1 is None or got2 is None:
        miss = f"`{a} <= min({M}, {P1})`" if got1 is None else f"`{b or src(e)} <= {P2}`"
        out["step"] = (None, f"no condition {miss} is known to hold where the candidate is accepted")
        return out
    out["step"] = (True, "a candidate replaces the current grid only where it is known to respect both bounds, and both extents are "
                         "replaced together by a divisor and its exact quotient")
    # monotonicity argument for N3: the candidate's first extent comes from a scan that starts above the current first extent
    for sblk, k, sc in _scans_in(w2.body, M):
        if sblk is not w2.body:
            continue
        al, _ = _aliases_after(sblk, k, sc["var"])
        if a in al and _scan_start(sblk, k, sc["var"]) == (r1, 1):
            out["mono"] = True
    return out


# ---------------------------------------------------------------------------------------------------------
# candidate tables: the divisors of the process count as one sequence (list comprehension, filtered arange)
# ---------------------------------------------------------------------------------------------------------
class _Coll:
    """a sequence of candidate extents: the integers lo..hi (hi = base + k, inclusive) that pass the filters.
    div: every element divides M (or is 1); complete: no filter other than divisibility; asc: increasing order;
    after: (index variable, c) for the part `X[i + c:]` of the table `root`"""

    def __init__(self, lo, hi, text, div=False, complete=True, asc=True, after=None, root=None, start=None, adm=None):
        self.lo, self.hi, self.text, self.div, self.complete, self.asc, self.after, self.root = lo, hi, text, div, complete, asc, after, root
        self.start = start      # (name, c): the integers from `name + c` on (lo is None then)
        self.adm = adm          # (base, k): filtered by `M // n <= base + k`
        self.lazy = False       # a one-pass iterator (generator expression, iter(...)): a second loop goes on where the first one stopped

    def but(self, **kw):
        c = copy.copy(self)
        for k, v in kw.items():
            setattr(c, k, v)
        return c


def _is_div(c, v, M):
    return same_expr(c, f"{M} % {v} == 0") or same_expr(c, f"0 == {M} % {v}") or same_expr(c, f"not {M} % {v}") \
        or same_expr(c, f"{M} % {v} < 1") or same_expr(c, f"not ({M} % {v})")


def _adm_filter(c, v, M):
    """`M // v <= B + k` (any spelling of the comparison) -> (canonical B, k), else None"""
    if not (isinstance(c, ast.Compare) and len(c.ops) == 1):
        return None
    q = ast.Name(id="_q_", ctx=ast.Load())
    l, r = c.left, c.comparators[0]
    if same_expr(l, f"{M} // {v}"):
        f = _cmp(ast.Compare(left=q, ops=c.ops, comparators=[r]), {"_q_"})
    elif same_expr(r, f"{M} // {v}"):
        f = _cmp(ast.Compare(left=l, ops=c.ops, comparators=[q]), {"_q_"})
    else:
        return None
    return (f[2], f[3]) if f and f[1] == "le" else None


def _coll_of(e, env, M):
    if isinstance(e, ast.Name):
        return env.get(e.id)
    if isinstance(e, ast.Call) and not e.keywords:
        fname = src(e.func)
        if fname in ("range", "np.arange", "numpy.arange", "arange") and len(e.args) == 2 and _int_const(e.args[0]):
            base, c = _lin(e.args[1])
            return _Coll(e.args[0].value, (base, c - 1), src(e))
        if fname in ("range", "np.arange", "numpy.arange", "arange") and len(e.args) == 2:
            a0 = e.args[0]
            if isinstance(a0, ast.BinOp) and isinstance(a0.op, ast.Add):
                for x, y in ((a0.left, a0.right), (a0.right, a0.left)):
                    if isinstance(x, ast.Name) and _int_const(y):
                        base, c = _lin(e.args[1])
                        return _Coll(None, (base, c - 1), src(e), start=(x.id, y.value))
            return None
        if fname in ("list", "tuple", "sorted", "np.array", "np.asarray", "np.sort", "numpy.array", "numpy.asarray", "numpy.sort") and len(e.args) == 1:
            r = _coll_of(e.args[0], env, M)
            if r is not None and r.lazy:
                # materialising a one-pass iterator: a table again when the iterator is written in place, not followed when it is a
                # name (elements may have been consumed already)
                return None if isinstance(e.args[0], ast.Name) else r.but(lazy=False)
            return r
        if fname == "iter" and len(e.args) == 1:
            r = _coll_of(e.args[0], env, M)
            return None if r is None or (r.lazy and isinstance(e.args[0], ast.Name)) else r.but(lazy=True, text=src(e))
        return None
    if isinstance(e, (ast.ListComp, ast.GeneratorExp)) and len(e.generators) == 1 and isinstance(e.generators[0].target, ast.Name) \
            and isinstance(e.elt, ast.Name) and e.elt.id == e.generators[0].target.id and not e.generators[0].is_async:
        base = _coll_of(e.generators[0].iter, env, M)
        if base is None:
            return None
        v = e.elt.id
        for c in e.generators[0].ifs:
            af = _adm_filter(c, v, M)
            base = base.but(div=True) if _is_div(c, v, M) else base.but(adm=af) if af and base.adm is None else base.but(complete=False)
        return base.but(text=src(e), lazy=base.lazy or isinstance(e, ast.GeneratorExp))
    if isinstance(e, ast.BinOp) and isinstance(e.op, ast.Add) and isinstance(e.left, ast.List) and len(e.left.elts) == 1 \
            and _int_const(e.left.elts[0]) and e.left.elts[0].value == 1:
        r = _coll_of(e.right, env, M)
        if r is not None and r.lo == 2 and r.after is None:
            return r.but(lo=1, text=src(e))
        return None
    if isinstance(e, ast.Subscript):
        base = _coll_of(e.value, env, M)
        if base is None:
            return None
        sl = e.slice
        if isinstance(sl, ast.Compare) and isinstance(e.value, ast.Name) and _is_div(sl, e.value.id, M):
            return base.but(div=True, text=base.text + f" [{src(sl)}]")
        if isinstance(sl, ast.Compare) and isinstance(e.value, ast.Name) and base.adm is None and _adm_filter(sl, e.value.id, M):
            return base.but(adm=_adm_filter(sl, e.value.id, M), text=base.text + f" [{src(sl)}]")
        if isinstance(sl, ast.Slice) and sl.upper is None and sl.step is None and sl.lower is not None and base.after is None:
            lw = sl.lower
            if _int_const(lw) and lw.value >= 0:
                return base.but(complete=base.complete and lw.value == 0, text=src(e), root=base, after=(None, lw.value))
            if isinstance(lw, ast.BinOp) and isinstance(lw.op, ast.Add):
                for a, b in ((lw.left, lw.right), (lw.right, lw.left)):
                    if isinstance(a, ast.Name) and _int_const(b) and b.value >= 0:
                        return base.but(complete=False, text=src(e), root=base, after=(a.id, b.value))
        return None
    return None


def _coll_env(fn, M):
    """{name: _Coll} for the candidate tables built by the top-level statements of fn; a name stored anywhere else, or changed
    in place, is left out"""
    env, bad = {}, set()
    top = {id(st) for st in fn.body}
    for n in ast.walk(fn):
        if isinstance(n, ast.Call) and isinstance(n.func, ast.Attribute) and n.func.attr in lints.MUTATING_METHODS:
            r = _root_name(n.func.value)
            if r:
                bad.add(r)
        elif isinstance(n, (ast.Subscript, ast.Attribute)) and isinstance(n.ctx, (ast.Store, ast.Del)):
            r = _root_name(n)
            if r:
                bad.add(r)
        elif isinstance(n, ast.Name) and isinstance(n.ctx, (ast.Store, ast.Del)):
            st = _stmt_of(n)
            if not (isinstance(st, ast.Assign) and id(st) in top and len(st.targets) == 1 and st.targets[0] is n):
                bad.add(n.id)
    for st in fn.body:
        if isinstance(st, ast.Assign) and len(st.targets) == 1 and isinstance(st.targets[0], ast.Name):
            nm = st.targets[0].id
            c = _coll_of(st.value, env, M) if nm not in bad else None
            if c is not None:
                env[nm] = c
            else:
                env.pop(nm, None)
    return env


def _elements(fn, e, env, M, seen=None, depth=0):
    """the positions of candidate tables an integer expression can come from: [(table, index text)], None when not followed"""
    seen = set() if seen is None else seen
    if depth > 8:
        return None
    if isinstance(e, ast.Call) and not e.keywords and len(e.args) == 1 and src(e.func) in ("int", "max", "min", "np.max", "np.min", "np.amax", "np.amin"):
        fname = src(e.func).split(".")[-1]
        if fname == "int":
            return _elements(fn, e.args[0], env, M, seen, depth + 1)
        c = _coll_of(e.args[0], env, M)
        if c is not None and c.asc:
            return [(c, "-1" if "max" in fname else "0")]
        return None
    if isinstance(e, ast.Call) and isinstance(e.func, ast.Attribute) and e.func.attr in ("item", "max", "min") and not e.args and not e.keywords:
        if e.func.attr == "item":
            return _elements(fn, e.func.value, env, M, seen, depth + 1)
        c = _coll_of(e.func.value, env, M)
        return [(c, "-1" if e.func.attr == "max" else "0")] if c is not None and c.asc else None
    if isinstance(e, ast.IfExp):
        a, b = _elements(fn, e.body, env, M, seen, depth + 1), _elements(fn, e.orelse, env, M, seen, depth + 1)
        return None if a is None or b is None else a + b
    if isinstance(e, ast.Subscript) and not isinstance(e.slice, (ast.Slice, ast.Compare, ast.Tuple)):
        c = _coll_of(e.value, env, M)
        return [(c, _canon(e.slice))] if c is not None else None
    if isinstance(e, ast.Name):
        if e.id in seen:
            return []
        seen.add(e.id)
        vals, augs = _defs(fn, e.id)
        if augs or not vals or any(v is None for v in vals):
            return None
        out = []
        for v in vals:
            sub = _elements(fn, v, env, M, seen, depth + 1)
            if sub is None:
                return None
            out += sub
        return out
    return None


def _neighbour_choices(fn, env, M):
    """places where the code chooses between two positions `i + c1` / `i + c2` of one table:
    [(deciding test, table, smaller position text, larger position text)]"""
    def one(e):
        el = _elements(fn, e, env, M)
        if not el or len({(id(c), i) for c, i in el}) != 1:
            return None
        c, i = el[0]
        try:
            base, k = _lin(ast.parse(i, mode="eval").body)
        except SyntaxError:
            return None
        return c, base, k, i
    out = []
    for n in ast.walk(fn):
        pair = None
        if isinstance(n, ast.IfExp):
            pair = (n.body, n.orelse)
        elif isinstance(n, ast.If) and len(n.body) == 1 and len(n.orelse) == 1 and all(
                isinstance(x, ast.Assign) and len(x.targets) == 1 and isinstance(x.targets[0], ast.Name) for x in (n.body[0], n.orelse[0])) \
                and n.body[0].targets[0].id == n.orelse[0].targets[0].id:
            pair = (n.body[0].value, n.orelse[0].value)
        if pair is None:
            continue
        a, b = one(pair[0]), one(pair[1])
        if a and b and a[0] is b[0] and a[1] == b[1] and a[2] != b[2] and not _int_const(ast.parse(a[1], mode="eval").body):
            lo_, hi_ = (a, b) if a[2] < b[2] else (b, a)
            out.append((n.test, a[0], lo_[3], hi_[3]))
    return out


def _is_last(c, idx):
    return c.asc and (idx == "-1" or idx.replace(" ", "") in (f"len({c.text})-1",))


def _loop_target(lp, env, M):
    """for c in X / for i, c in enumerate(X) -> (index variable or None, candidate variable, table) ; None"""
    it, tg = lp.iter, lp.target
    if isinstance(it, ast.Call) and isinstance(it.func, ast.Name) and it.func.id == "enumerate" and len(it.args) == 1 and not it.keywords \
            and isinstance(tg, ast.Tuple) and len(tg.elts) == 2 and all(isinstance(x, ast.Name) for x in tg.elts):
        c = _coll_of(it.args[0], env, M)
        return (tg.elts[0].id, tg.elts[1].id, c) if c is not None else None
    if isinstance(tg, ast.Name):
        c = _coll_of(it, env, M)
        return (None, tg.id, c) if c is not None else None
    return None


def _table_search(fn, P1, P2, M, r1, r2):
    """the search written over a table of candidate divisors (no stepping `while`): the same four verdicts as for the loops"""
    und = "the search is neither the stepping `while` loops nor a recognised walk over a table of divisors"
    out = {"w1": None, "scan": None, "guard": (None, und), "fact": (None, und), "step": (None, und), "w2": None, "cand": None,
           "mono": False, "node": fn}
    env = out["env"] = _coll_env(fn, M)
    T = f"min({M}, {P1})"
    want1 = _canon(ast.parse(T, mode="eval").body)
    raises = [n for n in ast.walk(fn) if isinstance(n, ast.Raise)]
    if len(raises) != 1:
        out["guard"] = (None, f"{len(raises)} `raise` statements / {len(env)} candidate tables recognised in {fn.name}: " + und)
        return out
    rs = raises[0]
    tabs = ", ".join(f"`{k} = {v.text[:70]}`" for k, v in env.items())

    def table_verdict(D):
        """None when D is the complete increasing table of the divisors of M in 1..min(M, P1); else (verdict, why)"""
        if not (D.hi[0] == want1 and D.lo is not None) or D.after is not None:
            return None, f"the table `{D.text[:80]}` is not the candidates from 1 to `{T}`: cannot decide which candidates are tried"
# ASSUMPTIONS of the VIOLATED verdicts on the table: the table was read completely by _coll_of (range / arange with literal start,
# filters recognised one by one, anything else -> not a table), it is the ONLY source of candidates (the loop runs over it and
# nothing is appended: names changed in place are left out of the environment), and its upper end is written with the same
# canonical bound `min(M, P1)`.
        if D.hi[1] < 0:
            return False, (f"the table of candidates `{D.text[:80]}` stops at `{_bound_text(T, D.hi[1])}`: a divisor equal to the bound `{T}` is "
                           "admissible but never tried, a valid grid can be refused")
        if D.hi[1] > 0:
            return False, (f"the table of candidates `{D.text[:80]}` runs up to `{_bound_text(T, D.hi[1])}`, beyond the bound `{T}`: a first "
                           "extent larger than the number of points is accepted (a process gets no point of a distributed dimension)")
        # ASSUMPTION of the VIOLATED verdict: the candidate 1 is not handled before the table is walked (checked: an early exit
        # `if M <= P2: return 1, M` taken out above is exactly that candidate; any other early exit is not composed -> undecided)
        if D.lo == 2 and getattr(fn, "_early_covers_one", False) and not getattr(fn, "_early_other", False):
            pass
        elif D.lo > 1 and (getattr(fn, "_early_covers_one", False) or getattr(fn, "_early_other", False)):
            return None, (f"the table of candidates `{D.text[:80]}` starts at {D.lo} and an early exit before the search hands back a grid of its "
                          "own: whether the candidates below the start are all covered by it is not followed")
        elif D.lo > 1:
            return False, (f"the table of candidates `{D.text[:80]}` starts at {D.lo}: the first extent 1 is never tried, so the error is raised "
                           f"when no larger divisor fits although the grid (1, {M}) is valid whenever `{M} <= {P2}`")
        if not D.div:
            return None, f"the table `{D.text[:80]}` is not filtered by `{M} % n == 0`: not known that every candidate divides `{M}`"
        if not (D.complete and D.asc):
            return None, f"the table `{D.text[:80]}` is filtered by a condition that is not followed"
        return True, ""

    par = parent(rs)
    # ---------------- form A: for ... else: raise
    if isinstance(par, ast.For) and par in fn.body and par.orelse and par.orelse[0] is rs:
        L1 = out["w1"] = out["node"] = par
        lt = _loop_target(L1, env, M)
        if lt is None or lt[2].after is not None or lt[2].adm is not None or lt[2].lo is None:
            out["guard"] = out["fact"] = (None, f"the sequence `{src(L1.iter)[:80]}` the first search runs over is not a recognised table of divisors")
            return out
        idx, c, D = lt
        if D.lazy:
            # a one-pass iterator: the loop sees every candidate only when nothing consumed it before
            uses = [n for n in ast.walk(fn) if isinstance(L1.iter, ast.Name) and isinstance(n, ast.Name) and n.id == L1.iter.id
                    and isinstance(n.ctx, ast.Load)]
            iters = [st.iter for st in fn.body if isinstance(st, ast.For)]
            if not isinstance(L1.iter, ast.Name) or any(not any(u is i for i in iters) for u in uses) \
                    or any(st.iter in uses for st in fn.body[:fn.body.index(L1)] if isinstance(st, ast.For)):
                out["guard"] = out["fact"] = (None, f"`{src(L1.iter)[:60]}` is a one-pass iterator that is also used elsewhere than as the sequence of the "
                                                    "search loops: cannot decide which candidates the first search sees")
                return out
        brs = [n for n in _preorder(L1.body) if isinstance(n, ast.Break)]
        inner = [n for n in _preorder(L1.body) if isinstance(n, (ast.For, ast.While))]
        order = _preorder(L1.body)
        pos = {id(s_): p_ for p_, s_ in enumerate(order)}

        def last_def(name, before):
            ds = [s_ for s_ in order[:before] if name in _own_stores(s_)]
            return ds[-1] if ds else None
        if len(brs) != 1 or inner:
            out["guard"] = out["fact"] = (None, f"{len(brs)} `break` statements / {len(inner)} nested loops in the first search loop (one break expected)")
            return out
        br = brs[0]
        facts, _o, _p = _path_facts(L1, br)
        here = pos[id(br)]
        # quotient variables: q = M // c
        quot = {}
        for s_ in order[:here]:
            if isinstance(s_, ast.Assign) and len(s_.targets) == 1 and isinstance(s_.targets[0], ast.Name) and isinstance(s_.value, ast.BinOp) \
                    and isinstance(s_.value.left, ast.Name) and s_.value.left.id == M and isinstance(s_.value.right, ast.Name):
                quot[s_.targets[0].id] = (s_, s_.value.right.id, s_.value.op)
        calias = {c}
        for s_ in order[:here]:
            if isinstance(s_, ast.Assign) and len(s_.targets) == 1 and isinstance(s_.targets[0], ast.Name) and isinstance(s_.value, ast.Name) \
                    and s_.value.id in calias:
                calias.add(s_.targets[0].id)
        adm = None
        for p_, t_, taken in facts or []:
            for t2, tk in _facts(t_, taken):
                f = _cmp(t2, set(quot), tk)
                if f and f[1] == "le" and f[2] == P2 and quot[f[0]][1] in calias and isinstance(quot[f[0]][2], ast.FloorDiv) \
                        and not _stored_between(order, p_, here, {f[0]}) and not _stored_between(order, pos[id(quot[f[0]][0])], here, {f[0], quot[f[0]][1]}):
                    adm = f if adm is None or f[3] < adm[3] else adm
        if not D.div and any((_is_div(t2, x, M) and tk) or (_is_nondiv(t2, x, M) and not tk)
                             for _p, t_, taken in facts or [] for t2, tk in _facts(t_, taken) for x in calias):
            D = D.but(div=True, text=D.text + f" [with `{M} % {c} == 0` tested in the loop]")
        # ASSUMPTION of the "no divisibility test" verdict below: divisibility is tested NOWHERE, in no spelling.  Checked: the table
        # has no filter at all, the loop holds no `%`, no call other than min/max/int/float/abs (divmod, gcd, fmod ...), no product
        # (`c * (M // c) == M`), and every `if` in it is a comparison that was read; otherwise the verdict is left undecided.
        plain_loop = not any(isinstance(n, (ast.Mod, ast.Mult)) or
                             (isinstance(n, ast.Call) and not (isinstance(n.func, ast.Name) and n.func.id in ("min", "max", "int", "float", "abs")))
                             for st_ in L1.body for n in ast.walk(st_)) and \
            all(_cmp(n.test, set(quot) | calias | {r1, r2}) is not None for st_ in L1.body for n in ast.walk(st_) if isinstance(n, ast.If))
        nofilter = not D.div and D.complete and plain_loop
        tv, twhy = table_verdict(D)
        if adm is None:
            out["guard"] = (None, f"no condition `{M} // {c} <= {P2}` is known to hold at the `break` of the first search loop: cannot decide "
                                  "that the loop stops at an admissible candidate and reaches the `raise` only when there is none")
        elif adm[3] != 0:
            out["guard"] = (False, f"the first search stops when `{adm[0]} <= {_bound_text(P2, adm[3])}` instead of `{adm[0]} <= {P2}`: " +
                            ("a second extent beyond its bound is accepted (a process gets no point)" if adm[3] > 0 else
                             "a second extent equal to its bound is admissible but refused (the error can be raised although a valid grid exists)"))
        elif tv is not True:
            out["guard"] = (tv, twhy)
        else:
            out["guard"] = (True, f"the loop visits every divisor of `{M}` from 1 to {T} in increasing order ({tabs}) and stops at the first whose "
                                  f"quotient fits `{P2}`; the `else` branch raises exactly when it ran through all of them without stopping")
        # factorisation: the pair on leaving the loop
        why = None
        verdict = None
        d1 = last_def(r1, here) if r1 != c else None
        if r1 != c and not (isinstance(d1, ast.Assign) and isinstance(d1.value, ast.Name) and d1.value.id in calias):
            why = f"the returned first extent `{r1}` is not the candidate `{c}` of the loop at the `break`"
        if why is None:
            if r2 not in quot or quot[r2][1] not in calias | {r1} or last_def(r2, here) is not quot[r2][0]:
                why = f"the returned second extent `{r2}` is not assigned `{M} // {c}` before the `break`"
            elif isinstance(quot[r2][2], ast.Div):
                verdict, why = False, (f"`{src(quot[r2][0])}` is a true division: the second extent becomes a float, which is no valid number of "
                                       "processes for the cartesian topology")
            elif not isinstance(quot[r2][2], ast.FloorDiv):
                why = f"`{src(quot[r2][0])}` is not the quotient `{M} // {c}`"
        if why is None and nofilter:
            verdict, why = False, (f"the candidates `{D.text[:80]}` are all the integers up to the bound, and neither the table nor the loop tests "
                                   f"`{M} % {c} == 0`: the first candidate whose rounded-down quotient fits is taken even when it does not divide "
                                   f"`{M}`, and the grid does not multiply to the process count")
        elif why is None and not D.div:
            why = f"the table `{D.text[:80]}` is not filtered by `{M} % n == 0`: not known that `{c}` divides `{M}`"
        later = [n for st in fn.body[fn.body.index(L1) + 1:] for n in ast.walk(st) if isinstance(n, ast.Name) and isinstance(n.ctx, ast.Store)
                 and n.id in ({idx} if idx else set())]
        out["fact"] = (True, f"the second extent is the exact quotient `{M} // {c}` by an element of the table of divisors: the grid multiplies "
                             "to the process count") if why is None else (verdict, why)
        out["ctx"] = {"D": D, "idx": idx if not later else None, "adm": adm is not None and adm[3] <= 0 and adm[0] == r2 and r1 == c}
        return out
    # ---------------- form C: the admissible candidates are filtered into a table; `if <table is empty>: raise`
    V = None
    if isinstance(par, ast.If) and par in fn.body and par.body and par.body[0] is rs and not par.orelse:
        t = par.test
        for nm, tb in env.items():
            if any(same_expr(t, x) for x in (f"len({nm}) == 0", f"not len({nm})", f"len({nm}) < 1", f"{nm}.size == 0", f"not {nm}.size",
                                             f"0 == len({nm})", f"not {nm}") if not (x == f"not {nm}" and "arange" in tb.text)):
                V = tb
    if V is not None:
        out["node"] = par
        qdefs = [st for st in fn.body if r2 in _own_stores(st)]
        allq = [n for n in ast.walk(fn) if isinstance(n, ast.Name) and isinstance(n.ctx, ast.Store) and n.id == r2]
        q = qdefs[0] if len(qdefs) == 1 and len(allq) == 1 and fn.body.index(qdefs[0]) > fn.body.index(par) else None
        e = q.value if isinstance(q, ast.Assign) else None
        srcs = _elements(fn, ast.Name(id=r1, ctx=ast.Load()), env, M) if q is not None else None
        stores1 = [n for n in ast.walk(fn) if isinstance(n, ast.Name) and isinstance(n.ctx, ast.Store) and n.id == r1 and _stmt_of(n) is not None
                   and q is not None and _order(fn, q, _stmt_of(n)) != "after"]
        plain = V.but(adm=None)
        tv, twhy = table_verdict(plain)
        if V.adm is None or V.adm[0] != P2:
            out["guard"] = (None, f"the table `{V.text[:80]}` whose emptiness raises the error is not filtered by `{M} // n <= {P2}`")
        elif V.adm[1] != 0:
            out["guard"] = (False, f"the admissible candidates are those with `{M} // n <= {_bound_text(P2, V.adm[1])}` instead of `<= {P2}`: " +
                            ("a second extent beyond its bound is accepted (a process gets no point)" if V.adm[1] > 0 else
                             "a second extent equal to its bound is refused (the error can be raised although a valid grid exists)"))
        elif tv is not True:
            out["guard"] = (tv, twhy)
        else:
            out["guard"] = (True, f"`{V.text[:120]}` holds every divisor of `{M}` from 1 to {T} whose quotient fits `{P2}`; the error is raised exactly "
                                  "when it is empty")
        if not (isinstance(e, ast.BinOp) and isinstance(e.left, ast.Name) and e.left.id == M and isinstance(e.right, ast.Name) and e.right.id == r1) \
                or not srcs or stores1 or any(c_ is not V for c_, _i in srcs):
            out["fact"] = out["step"] = (None, f"the returned pair is not recognised as `{r1}` = an element of `{V.text[:60]}`, `{r2} = {M} // {r1}` "
                                               "assigned once after the emptiness test")
        elif isinstance(e.op, ast.Div):
            out["fact"] = out["step"] = (False, f"`{src(q)}` is a true division: the second extent becomes a float, which is no valid number of processes")
        elif not isinstance(e.op, ast.FloorDiv) or not V.div:
            out["fact"] = out["step"] = (None, f"`{src(q)}` / the table `{V.text[:60]}`: not known that `{r1}` divides `{M}` and `{r2}` is the quotient")
        else:
            out["fact"] = (True, f"the second extent is the exact quotient `{M} // {r1}` by an element of the table of divisors ({tabs}): the grid "
                                 "multiplies to the process count")
            okstep = out["guard"][0] is True
            out["step"] = (True if okstep else None,
                           f"whatever element of `{V.text[:60]}` is chosen, it lies within {T} and its quotient within `{P2}`: the table holds only such "
                           "candidates" if okstep else "the table of admissible candidates is not recognised (see the failure guard)")
        out["single"] = True
        return out
    # ---------------- form B: one candidate selected, then `if quotient > bound: raise`
    if isinstance(par, ast.If) and par in fn.body and par.body and par.body[0] is rs and not par.orelse:
        out["node"] = par
        f = _cmp(par.test, {r2})
        k0 = fn.body.index(par)
        qdefs = [st for st in fn.body[:k0] if r2 in _own_stores(st)]
        loops = [st for st in fn.body if isinstance(st, (ast.For, ast.While))]
        allq = [n for n in ast.walk(fn) if isinstance(n, ast.Name) and isinstance(n.ctx, ast.Store) and n.id == r2]
        if not (f and f[1] == "gt" and f[2] == P2) or len(qdefs) != 1 or len(allq) != 1 or loops:
            out["guard"] = (None, f"`if {src(par.test)[:60]}: raise` is not a test of the single top-level value of `{r2}` against `{P2}` in a "
                                  "function without loops: " + und)
            return out
        q = qdefs[0]
        e = q.value if isinstance(q, ast.Assign) else None
        if not (isinstance(e, ast.BinOp) and isinstance(e.left, ast.Name) and e.left.id == M and isinstance(e.right, ast.Name) and e.right.id == r1):
            out["guard"] = out["fact"] = (None, f"`{src(q)[:80]}` is not the quotient `{M} // {r1}`")
            return out
        srcs = _elements(fn, ast.Name(id=r1, ctx=ast.Load()), env, M)
        stores1 = [n for n in ast.walk(fn) if isinstance(n, ast.Name) and isinstance(n.ctx, ast.Store) and n.id == r1 and _stmt_of(n) is not None
                   and _order(fn, q, _stmt_of(n)) != "after"]
        if not srcs or stores1:
            out["guard"] = out["fact"] = (None, f"the first extent `{r1}` is not followed back to positions of a table of divisors" +
                                          (f" (`{r1}` is stored again after the quotient is taken)" if stores1 else ""))
            return out
        tables = {id(c_): c_ for c_, _i in srcs}
        posn = sorted({i for _c, i in srcs})
        D = next(iter(tables.values()))
        tv, twhy = table_verdict(D) if len(tables) == 1 else (None, "the first extent is taken from several tables")
        if isinstance(e.op, ast.Div):
            out["fact"] = (False, f"`{src(q)}` is a true division: the second extent becomes a float, which is no valid number of processes")
        elif not isinstance(e.op, ast.FloorDiv):
            out["fact"] = (None, f"`{src(q)}` is not the quotient `{M} // {r1}`")
        elif len(tables) == 1 and D.div:
            out["fact"] = (True, f"the second extent is the exact quotient `{M} // {r1}` by an element of the table of divisors ({tabs}): the grid "
                                 "multiplies to the process count")
        else:
            out["fact"] = (None, f"not known that every value `{r1}` can take divides `{M}`")
        if f[3] != 0:
            out["guard"] = (False, f"the error is raised when `{r2} > {_bound_text(P2, f[3])}` instead of `{r2} > {P2}`: " +
                            ("a second extent beyond its bound passes (a process gets no point)" if f[3] > 0 else
                             "a second extent equal to its bound is refused although the grid is valid"))
        elif tv is not True:
            out["guard"] = (tv, twhy)
        elif all(_is_last(c_, i) for c_, i in srcs):
            out["guard"] = (True, f"`{r1}` is the largest divisor of `{M}` within {T} (last element of the increasing table), whose quotient is the "
                                  f"smallest possible second extent: if it exceeds `{P2}` no divisor within the bound fits")
        elif [ch for ch in _neighbour_choices(fn, env, M) if ch[1] is D and ch[2] in posn and ch[3] in posn
              and not any(isinstance(n, ast.Name) and n.id == P2 for n in ast.walk(ch[0]))]:
            test, _d, small, large = [ch for ch in _neighbour_choices(fn, env, M) if ch[1] is D and ch[2] in posn and ch[3] in posn
                                      and not any(isinstance(n, ast.Name) and n.id == P2 for n in ast.walk(ch[0]))][0]
            out["guard"] = (False, f"the error is raised when the quotient of ONE pre-selected divisor exceeds `{P2}` (`if {src(par.test)}: raise`), and "
                                   f"no loop or fallback tries another one. `{r1}` is an element of the table {tabs}; between the neighbouring positions "
                                   f"[{small}] and [{large}] the choice is made by `{src(test)[:80]}` (line {test.lineno}), which does not test the quotient "
                                   f"against `{P2}`: when the smaller divisor [{small}] is preferred and its (larger) quotient exceeds `{P2}`, the larger "
                                   f"divisor [{large}] and those after it, whose quotients are smaller, are never tried, and the error is raised although a "
                                   "valid grid can exist")
        else:
            out["guard"] = (None, f"`{r1}` is the element at position {posn} of the table {tabs}: cannot decide that, when its quotient exceeds `{P2}`, "
                                  "no other divisor fits")
        okstep = tv is True and f[3] == 0 and isinstance(e.op, ast.FloorDiv)
        out["step"] = (True if okstep else None,
                       f"no refinement loop: the pair returned is an element of the table bounded by {T} and its quotient, which passed `{r2} <= {P2}`"
                       if okstep else "no refinement loop, and the single candidate is not known to respect both bounds")
        out["single"] = True
        return out
    out["guard"] = (None, "the `raise` is neither the `else` branch of a top-level `for` over the candidates nor a top-level `if ...: raise`: " + und)
    return out


def _early_exits(chk, fn, P, kw):
    """top-level `if <condition on the process count>: return <pair of 1 / the process count>` before the first loop: judged on
    their own (the pair must multiply to the process count and respect the bound of its direction under the condition), then
    taken out, so that the statements that follow are analysed as the search (for every input, which includes the ones that
    remain)"""
    P1, P2, M = P
    rule = "N2-early-exit"
    if {P1, P2, M} & _written(fn):
        return
    env, neg = {}, []
    k = 0
    while k < len(fn.body):
        st = fn.body[k]
        if isinstance(st, ast.Expr) and isinstance(st.value, ast.Constant):
            k += 1
            continue
        if isinstance(st, ast.Assign) and len(st.targets) == 1 and isinstance(st.targets[0], ast.Name) and \
                ((_int_const(st.value) and st.value.value == 1) or (isinstance(st.value, ast.Name) and st.value.id == M)):
            env[st.targets[0].id] = st.value
            k += 1
            continue
        if not (isinstance(st, ast.If) and not st.orelse and len(st.body) == 1 and isinstance(st.body[0], ast.Return)
                and isinstance(st.body[0].value, (ast.Tuple, ast.List)) and len(st.body[0].value.elts) == 2):
            return
        test, val = copy.deepcopy(st.test), copy.deepcopy(st.body[0].value)
        for nm, v in env.items():
            test, val = _Subst(nm, v).visit(test), _Subst(nm, v).visit(val)
        kinds = ["one" if _int_const(x) and x.value == 1 else "count" if isinstance(x, ast.Name) and x.id == M else None for x in val.elts]
        if None in kinds:
            return
        known, one, unrec = set(), False, []
        for t, taken in [(test, True)] + neg:
            for t2, tk in _facts(t, taken):
                f = _cmp(t2, {M}, tk)
                if f and f[1] == "gt":
                    continue
                if f and f[1] == "le":
                    try:
                        base = ast.parse(f[2], mode="eval").body
                    except SyntaxError:
                        base = None
                    if _int_const(base) and base.value + f[3] <= 1:
                        one = True
                        continue
                    if f[3] <= 0 and base is not None:
                        parts = base.args if isinstance(base, ast.Call) and isinstance(base.func, ast.Name) and base.func.id == "min" \
                            and not base.keywords else [base]
                        hit = {x.id for x in parts if isinstance(x, ast.Name) and x.id in (P1, P2)}
                        if hit and all(isinstance(x, ast.Name) for x in parts):
                            known |= hit
                            continue
                if isinstance(t2, ast.Compare) and len(t2.ops) == 1 and isinstance(t2.ops[0], (ast.Eq, ast.NotEq)) \
                        and isinstance(t2.ops[0], ast.Eq) == tk and {src(t2.left), src(t2.comparators[0])} == {M, "1"}:
                    one = True
                    continue
                unrec.append(t2)
        if unrec:
            return
        ret = st.body[0]
        ok, why = True, (f"`{src(ret)}` under `{src(st.test)}`: the pair multiplies to `{M}` and the extent `{M}` is within the bound of "
                         "its direction under that condition")
# ASSUMPTIONS of the two VIOLATED verdicts below: every condition on the way to the exit was read (an unread one returns above
# without a verdict), the parameters are unchanged, and the pair consists of the literal 1 and the process count only.
        if not one and sorted(kinds) != ["count", "one"]:
            ok, why = False, (f"`{src(ret)}` under `{src(st.test)}`: the pair does not multiply to the process count `{M}` "
                              f"(unless `{M}` is 1, which the condition does not say)")
        for pos_, kind in enumerate(kinds):
            if ok and kind == "count" and not one and P[pos_] not in known:
                ok, why = False, (f"`{src(ret)}` under `{src(st.test)}`: the extent `{M}` is laid on process direction {pos_}, whose bound is "
                                  f"`{P[pos_]}`, but the condition only says `{M}` <= {sorted(known) or 'nothing'}: when `{P[pos_]}` < `{M}` a process "
                                  "gets no point of a distributed dimension")
        chk.ob(rule, st, "early exit hands back a valid grid", ok, why, **kw)
        if not ok:
            return
        # what the exit takes out of the search that follows: `if M <= P2: return 1, M` is exactly the candidate 1 (admissible iff
        # its quotient M fits), so a table of candidates that starts at 2 is complete after it; any other exit is remembered as one
        # the table rules do not compose with
        own = [_cmp(t2, {M}, tk) for t2, tk in _facts(test, True)]
        if not neg and kinds == ["one", "count"] and own == [(M, "le", P2, 0)]:
            fn._early_covers_one = True
        else:
            fn._early_other = True
        neg.append((test, False))
        del fn.body[k]


def _result_table(chk, fn, tree, P, kw):
    """a hand-written table of earlier results (`if key in T: return T[key]` ... `T[key] = (n1, n2)`): the reader and the writer
    must use the same key, and the key must hold every argument the search depends on; then the early return hands back what the
    statements below computed for the same arguments, and the table statements are taken out before the search is analysed"""
    rule = "N4-result-table"
    tables = set()
    for st in tree.body:
        if isinstance(st, (ast.Assign, ast.AnnAssign)) and st.value is not None and \
                (isinstance(st.value, ast.Dict) or (isinstance(st.value, ast.Call) and src(st.value.func).split(".")[-1] in ("dict", "OrderedDict"))):
            tg = st.targets if isinstance(st, ast.Assign) else [st.target]
            tables |= {t.id for t in tg if isinstance(t, ast.Name)}
    if not tables:
        return

    def key_of(e):
        e2, adj = _resolve(fn, e) if isinstance(e, ast.Name) else (e, [])
        return None if e2 is None or adj else e2
    reads, writes = [], []          # (statement(s), table, key expression)
    body = fn.body
    for k, st in enumerate(body):
        if isinstance(st, ast.If) and not st.orelse and len(st.body) == 1 and isinstance(st.body[0], ast.Return):
            t, r = st.test, st.body[0].value
            if isinstance(t, ast.Compare) and len(t.ops) == 1 and isinstance(t.ops[0], ast.In) and isinstance(t.comparators[0], ast.Name) \
                    and t.comparators[0].id in tables and isinstance(r, ast.Subscript) and isinstance(r.value, ast.Name) \
                    and r.value.id == t.comparators[0].id and ast.dump(key_of(r.slice) or r.slice) == ast.dump(key_of(t.left) or t.left):
                reads.append(([st], r.value.id, key_of(t.left)))
                continue
            # hit = T.get(key) ; if hit is not None: return hit
            if isinstance(r, ast.Name) and k > 0 and isinstance(body[k - 1], ast.Assign) and len(body[k - 1].targets) == 1 \
                    and isinstance(body[k - 1].targets[0], ast.Name) and body[k - 1].targets[0].id == r.id \
                    and (same_expr(t, f"{r.id} is not None") or same_expr(t, f"{r.id} != None")):
                g = body[k - 1].value
                if isinstance(g, ast.Call) and isinstance(g.func, ast.Attribute) and g.func.attr == "get" and isinstance(g.func.value, ast.Name) \
                        and g.func.value.id in tables and len(g.args) == 1 and not g.keywords and len(_name_defs(fn, r.id)) == 1:
                    reads.append(([body[k - 1], st], g.func.value.id, key_of(g.args[0])))
                    continue
        if isinstance(st, ast.Assign) and len(st.targets) == 1 and isinstance(st.targets[0], ast.Subscript) \
                and isinstance(st.targets[0].value, ast.Name) and st.targets[0].value.id in tables:
            writes.append(([st], st.targets[0].value.id, key_of(st.targets[0].slice), st.value))
    if not reads and not writes:
        return
    T = (reads or writes)[0][1]
    uses = [n for n in ast.walk(tree) if isinstance(n, ast.Name) and n.id == T]
    mine = [n for grp in reads + writes for st in grp[0] for n in ast.walk(st) if isinstance(n, ast.Name) and n.id == T]
    construct = f"table of earlier results `{T}`: same key written and read, holding every argument"
    if len(reads) != 1 or len(writes) != 1 or reads[0][1] != writes[0][1] or reads[0][2] is None or writes[0][2] is None \
            or len(uses) != len(mine) + 1:
        chk.ob(rule, (reads or writes)[0][0][0], construct, None,
               f"the statements that read and fill `{T}` are not one `if key in {T}: return {T}[key]` and one `{T}[key] = <pair>` "
               f"({len(reads)} reads, {len(writes)} writes, {len(uses) - 1} uses of the name): not followed", **kw)
        return
    rk, wk, wv = reads[0][2], writes[0][2], writes[0][3]
    rst, wst = reads[0][0][0], writes[0][0][0]
# ASSUMPTIONS of the two VIOLATED verdicts below: writer and reader are the only uses of the table (counted above), both keys were
# followed through locals assigned once, and a parameter that is read anywhere in the function influences its result.
    if ast.dump(rk) != ast.dump(wk):
        chk.ob(rule, rst, construct, False,
               f"the table is filled under the key `{src(wk)}` (line {wst.lineno}) but read under `{src(rk)}` (line {rst.lineno}): a call "
               "finds the grid stored by a call with other arguments, which was not checked against its own bounds and process count", **kw)
        return
    elts = rk.elts if isinstance(rk, ast.Tuple) else [rk]
    names = set()
    for x in elts:
        if isinstance(x, ast.Call) and isinstance(x.func, ast.Name) and x.func.id == "int" and len(x.args) == 1:
            x = x.args[0]
        if not isinstance(x, ast.Name):
            chk.ob(rule, rst, construct, None, f"the key `{src(rk)}` is not a tuple of parameters: not followed", **kw)
            return
        names.add(x.id)
    if set(P) & _written(fn):
        chk.ob(rule, rst, construct, None, "a parameter is changed in the function: the key is not followed", **kw)
        return
    used = {n.id for n in ast.walk(fn) if isinstance(n, ast.Name) and isinstance(n.ctx, ast.Load) and n.id in P}
    missing = sorted(used - names)
    if missing:
        chk.ob(rule, rst, construct, False,
               f"the table of earlier results is keyed by `{src(rk)}` only, but the search also depends on {missing}: a later call with the "
               f"same key and another `{missing[0]}` is handed the grid computed for the earlier value, which was not checked against "
               "its own arguments (a process can be left without points, or the pair does not multiply to the process count)", **kw)
        return
    # the stored value: the pair the function returns
    last = body[-1]
    okv = isinstance(last, ast.Return) and isinstance(wv, ast.Tuple) and isinstance(last.value, ast.Tuple) and ast.dump(wv) == ast.dump(last.value) \
        and body.index(wst) == len(body) - 2
    if not okv and isinstance(last, ast.Return) and isinstance(wv, ast.Name) and isinstance(last.value, ast.Name) and wv.id == last.value.id:
        d = _name_defs(fn, wv.id)
        if len(d) == 1 and isinstance(d[0][0], ast.Tuple) and d[0][1] in body and body.index(d[0][1]) < body.index(wst):
            okv = True
            last.value = d[0][0]
            body.remove(d[0][1])
    if not okv:
        chk.ob(rule, wst, construct, None,
               f"`{src(wst)[:70]}` is not followed by the return of the same (immutable) pair: cannot decide what a later call reads", **kw)
        return
    chk.ob(rule, rst, construct, True,
           f"`{T}` is filled and read under the same key `{src(rk)}`, which holds every argument; the value stored is the tuple returned: "
           "a later call with the same arguments gets the result of the same computation", **kw)
    for st in reads[0][0] + writes[0][0]:
        body.remove(st)


# ---------------------------------------------------------------------------------------------------------
# N2-bound-on-every-path: the first extent handed back has been compared with its bound on EVERY path
# ---------------------------------------------------------------------------------------------------------
class _Undecidable(Exception):
    pass


def _first_extent_paths(fn, P1, M, r1):
    """Abstract walk over the structured code of the search.  Per path class and per local (checked, dep, gid, base):
      checked  the value is known to be within the bound of direction 0: it is the literal 1, `min(.., P1, ..)`, a copy of a checked
               value, or a test `v <= P1 + k` / `v <= min(M, P1) + k` (k <= 0) holds on the path for it or for a value that is at least
               as large (`base`);
      dep      the value depends on P1 through data or control (a statement that computes it, or a test that decides whether it is
               computed, reads P1);
      gid      the store that produced the value (copies share it);   base  the value this one is >= (`x = y + c`, `x += c`, c >= 0).
    Per path class `ctl`: the path took a decision that depends on P1 and that is not known to leave the first extent unbounded.  A
    decision is known to be harmless when what it establishes on the path is a LOWER bound `x > P1-bound` of a value x >= the first
    extent (it cannot bound the first extent from above); a test that establishes an upper bound with k <= 0 makes the value checked;
    every other P1-dependent decision (an unread test, an upper bound with k > 0, a test on an unrelated value), and every call of
    foreign code, sets `ctl`.
    -> [(return statement, [(checked, dep, ctl, store that produced the value)])] ; raises _Undecidable on code outside the fragment"""
    stores = {}
    NONE = (False, False, None, None)

    def gid(node):
        stores[id(node)] = node
        return id(node)

    def reads(e):
        return {n.id for n in ast.walk(e) if isinstance(n, ast.Name) and isinstance(n.ctx, ast.Load)}

    def dep_of(e, env):
        return any(n == P1 or (n in env and env[n][1]) for n in reads(e))

    def bounded_expr(e):
        return isinstance(e, ast.Call) and isinstance(e.func, ast.Name) and e.func.id == "min" and not e.keywords and \
            any((isinstance(a, ast.Name) and a.id == P1) or bounded_expr(a) for a in e.args)

    def p1_bound(text):
        try:
            be = ast.parse(text, mode="eval").body
        except SyntaxError:
            return False
        return (isinstance(be, ast.Name) and be.id == P1) or bounded_expr(be)

    def refine(cls, test, taken):
        """the class after the test came out `taken`: values then known to be within the bound become checked"""
        ctl, envt = cls
        env = dict(envt)
        for t2, tk in _facts(test, taken):
            f = _cmp(t2, set(env), tk)
            if not f or f[1] != "le" or f[3] > 0 or not p1_bound(f[2]):
                continue
            g, base = env[f[0]][2], env[f[0]][3]
            for nm, (c_, d_, g_, b_) in list(env.items()):
                if g_ == g or (base is not None and g_ == base):
                    env[nm] = (True, True, g_, b_)         # its range now depends on P1
        return (ctl, tuple(sorted(env.items(), key=lambda kv: kv[0])))

    def harmless(cls, test, taken):
        """does the decision leave the first extent unbounded from above, whatever P1 is?  (see the docstring)"""
        env = dict(cls[1])
        if isinstance(test, ast.UnaryOp) and isinstance(test.op, ast.Not):
            return harmless(cls, test.operand, not taken)
        if isinstance(test, ast.BoolOp):
            return all(harmless(cls, v, taken) for v in test.values)
        if not dep_of(test, env):
            return True
        f = _cmp(test, set(env), taken)
        if not f or not p1_bound(f[2]):
            return False
        cur = env.get(r1, NONE)
        same = cur[2] is not None and (env[f[0]][2] == cur[2] or env[f[0]][3] == cur[2])
        if f[1] == "gt":
            return same                      # a lower bound of a value >= the first extent
        return f[3] <= 0                     # an upper bound within the bound: `refine` made the value checked

    def mk(env):
        return tuple(sorted(env.items(), key=lambda kv: kv[0]))

    def plus_const(v):
        """`y + c` / `c + y` with c >= 0 -> y"""
        if isinstance(v, ast.BinOp) and isinstance(v.op, ast.Add):
            for x, y in ((v.left, v.right), (v.right, v.left)):
                if isinstance(x, ast.Name) and _int_const(y) and y.value >= 0:
                    return x.id
        return None

    def assign(cls, st, ctx):
        ctl, envt = cls
        env = dict(envt)
        if isinstance(st, ast.Assign):
            v = st.value
            for t in st.targets:
                if isinstance(t, ast.Name):
                    g = gid(st)
                    if isinstance(v, ast.Name) and v.id in env:
                        c_, d_, g_, b_ = env[v.id]
                        env[t.id] = (c_, d_ or ctx, g_, b_)
                    elif _int_const(v) and v.value == 1:
                        env[t.id] = (True, ctx, g, g)
                    elif bounded_expr(v):
                        env[t.id] = (True, True, g, g)
                    elif plus_const(v) in env:
                        c_, d_, g_, b_ = env[plus_const(v)]
                        env[t.id] = (False, d_ or ctx, g, b_ if b_ is not None else g_)
                    else:
                        env[t.id] = (False, dep_of(v, env) or ctx, g, g)
                elif isinstance(t, (ast.Tuple, ast.List)) and all(isinstance(x, ast.Name) for x in t.elts):
                    for x in t.elts:
                        env[x.id] = (False, dep_of(v, env) or ctx, gid(st), gid(st))
                else:
                    raise _Undecidable(f"`{src(st)[:60]}` stores into an object")
        elif isinstance(st, ast.AugAssign):
            if not isinstance(st.target, ast.Name):
                raise _Undecidable(f"`{src(st)[:60]}` stores into an object")
            old = env.get(st.target.id, NONE)
            g = gid(st)
            up = isinstance(st.op, ast.Add) and _int_const(st.value) and st.value.value >= 0 and old[2] is not None
            env[st.target.id] = (False, old[1] or dep_of(st.value, env) or ctx, g, (old[3] if old[3] is not None else old[2]) if up else g)
        elif isinstance(st, ast.AnnAssign):
            if not isinstance(st.target, ast.Name) or st.value is None:
                raise _Undecidable(f"`{src(st)[:60]}`")
            env[st.target.id] = (False, dep_of(st.value, env) or ctx, gid(st), gid(st))
        return (ctl, mk(env))

    def decided(cls, test, taken):
        """the class after the decision: refined, and marked when the decision is not known to be harmless"""
        c2 = refine(cls, test, taken)
        return (c2[0] or not harmless(cls, test, taken), c2[1])

    returns = []
    budget = [6000]

    def run(stmts, classes, ctx):
        """-> (classes falling through, classes at break, classes at continue)"""
        brk, cont = set(), set()
        cur = set(classes)
        for st in stmts:
            budget[0] -= 1
            if budget[0] < 0 or len(cur) > 200:
                raise _Undecidable("too many path classes")
            if not cur:
                break
            if isinstance(st, (ast.Assign, ast.AugAssign, ast.AnnAssign)):
                foreign = [n for n in ast.walk(st) if isinstance(n, ast.Call) and not (isinstance(n.func, ast.Name) and n.func.id in _N3_PURE)]
                cur = {assign(c, st, bool(ctx)) for c in cur}
                if foreign:
                    cur = {(True, e_) for _c, e_ in cur}       # a call of unknown code may give up (raise) on its own conditions
            elif isinstance(st, ast.If):
                nxt = set()
                for c in cur:
                    d = dep_of(st.test, dict(c[1]))
                    for branch, taken in ((st.body, True), (st.orelse, False)):
                        f_, b_, k_ = run(branch, {decided(c, st.test, taken)}, ctx or d)
                        nxt |= f_
                        brk |= b_
                        cont |= k_
                cur = nxt
            elif isinstance(st, ast.Assert):
                cur = {decided(c, st.test, True) for c in cur}
            elif isinstance(st, (ast.While, ast.For)):
                if st.orelse:
                    raise _Undecidable("a loop with an `else` branch")
                is_for = isinstance(st, ast.For)
                const_true = not is_for and isinstance(st.test, ast.Constant) and bool(st.test.value)
                head, seen_exit = set(cur), set()
                for _round in range(40):
                    body_in = set()
                    for c in head:
                        env = dict(c[1])
                        if is_for:
                            d = dep_of(st.iter, env)
                            for x in [n for n in ast.walk(st.target) if isinstance(n, ast.Name)]:
                                env[x.id] = (False, d or bool(ctx), gid(st), gid(st))
                            body_in.add(((c[0] or d, mk(env)), d))        # how often the body runs depends on the sequence
                            seen_exit.add((c[0] or d, c[1]))
                        else:
                            d = dep_of(st.test, env)
                            body_in.add((decided(c, st.test, True), d))
                            if not const_true:
                                seen_exit.add(decided(c, st.test, False))
                    new_head = set(head)
                    for c2, d in body_in:
                        f_, b_, k_ = run(st.body, {c2}, ctx or d)
                        new_head |= f_ | k_
                        seen_exit |= b_
                    if new_head == head:
                        break
                    head = new_head
                    if len(head) > 200:
                        raise _Undecidable("too many path classes in a loop")
                else:
                    raise _Undecidable("no fixed point")
                cur = seen_exit
            elif isinstance(st, ast.Return):
                returns.append((st, set(cur)))
                cur = set()
            elif isinstance(st, ast.Raise):
                cur = set()
            elif isinstance(st, ast.Break):
                brk |= cur
                cur = set()
            elif isinstance(st, ast.Continue):
                cont |= cur
                cur = set()
            elif isinstance(st, ast.Expr) and isinstance(st.value, ast.Constant):
                continue
            elif isinstance(st, ast.Pass):
                continue
            elif isinstance(st, ast.Expr):
                cur = {(True, e_) for _c, e_ in cur}           # a bare call: may be a validation that gives up
            else:
                raise _Undecidable(f"`{src(st).splitlines()[0][:60]}` (line {st.lineno})")
        return cur, brk, cont
    fall, b_, k_ = run(fn.body, {(False, ())}, False)
    out = []
    for ret, classes in returns:
        vals = []
        for ctl, envt in classes:
            env = dict(envt)
            c_, d_, g_, _b = env.get(r1, NONE)
            vals.append((c_, d_, ctl, stores.get(g_)))
        out.append((ret, vals))
    return out, bool(fall)


def bound_on_every_path(chk, fn, P1, P2, M, r1, kw):
    """HOLDS when every value of the first extent that reaches a `return` was compared with its bound; VIOLATED when a path exists on
    which (1) it never is, (2) the value does not depend on that bound in any way (data or control: no statement that computes it, and
    no test that decides whether it is computed, reads `P1`), and (3) the path passes no place where the function gives up under a
    condition depending on `P1`.  Then the same path is taken, with the same first extent, whatever `P1` is: for a `P1` below that value
    the grid exceeds the bound and no error is raised.  (Assumed, not proved: some arguments follow the path with a first extent
    above 1 - the diagnosis names the path.)  Anything else: silent, the rules on the shape of the search decide."""
    rule = "N2-bound-on-every-path"
    construct = f"`{r1}` is within `min({M}, {P1})` on every path to the return"
    if {P1, P2, M} & _written(fn):
        return
    try:
        rets, falls = _first_extent_paths(fn, P1, M, r1)
    except (_Undecidable, RecursionError):
        return
    if falls or not rets:
        return
    allv = [(ret, v) for ret, vals in rets for v in vals]
    if allv and all(v[0] for _r, v in allv):
        chk.ob(rule, rets[0][0], construct, True,
               f"on every path to a `return` the value of `{r1}` is the literal 1 or has passed a comparison with `{P1}` "
               f"({len(allv)} path classes examined)", **kw)
        return
    bad = [(ret, v) for ret, v in allv if not v[0] and not v[1] and not v[2] and v[3] is not None]
    if not bad:
        return
    ret, (c_, d_, ctl, origin) = bad[0]
    guards = sorted({n.lineno for n in ast.walk(fn) if isinstance(n, (ast.If, ast.While)) and P1 in {x.id for x in ast.walk(n.test) if isinstance(x, ast.Name)}})
    gives = sorted({n.lineno for n in ast.walk(fn) if isinstance(n, (ast.Raise, ast.Assert))})
    chk.ob(rule, origin, construct, False,
           f"`{src(origin).splitlines()[0][:70]}` (line {origin.lineno}) gives `{r1}` a value that does not depend on `{P1}`, and a path leads from "
           f"there to `{src(ret)[:40]}` (line {ret.lineno}) on which `{r1}` is never compared with `{P1}` and which passes none of the places "
           f"where the function gives up (lines {gives or 'none'}; tests that read `{P1}`: lines {guards or 'none'} - they lie inside loops this path "
           f"does not enter, or concern other values): on that path the same grid is handed back whatever `{P1}` is, so for a `{P1}` below "
           f"`{r1}` a process gets no point of a dimension distributed along direction 0 and the error required when no valid factorisation "
           "exists is not raised", **kw)


# ---------------------------------------------------------------------------------------------------------
# N3: what a "stuck iteration" diagnosis assumes, and how each assumption is checked
# ---------------------------------------------------------------------------------------------------------
# lints.stuck_iterations returns the paths through one iteration that store none of the loop-carried NAMES.  "The same iteration
# repeats forever" follows only when
#  (S1) the names are the whole state: nothing the iteration reads lives in an object (attribute, element), an iterator (`next`), or
#       behind a call.  Checked by `_state_model_gaps`: the loop may contain only names, literals, arithmetic, comparisons and calls of
#       pure builtins; anything else -> UNDECIDED.
#  (S2) the path can be taken: its decisions (with what the inner loops executed on the way establish on leaving) are jointly
#       satisfiable.  Checked by `_path_feasible`, a small decision procedure over atoms `v <= B + k`, `v > B + k` (B a parameter or a
#       number; `min`/`max` bounds split) and `M % v == 0` / `!= 0`: feasible -> VIOLATED with the atoms quoted; contradictory -> the
#       path does not exist; an atom outside that fragment, two related variables, a bound that is a local -> UNDECIDED.
_N3_PURE = {"min", "max", "abs", "int", "float", "len", "round", "bool"}


def _state_model_gaps(lp):
    """constructs in the loop that the name-based model of the loop-carried state does not cover -> [description]"""
    gaps = []
    for n in ast.walk(lp):
        if isinstance(n, ast.Call):
            if not (isinstance(n.func, ast.Name) and n.func.id in _N3_PURE) or n.keywords or any(isinstance(a, ast.Starred) for a in n.args):
                gaps.append(f"the call `{src(n)[:50]}` (line {n.lineno})")
        elif isinstance(n, (ast.Attribute, ast.Subscript)):
            gaps.append(f"`{src(n)[:50]}` (line {n.lineno}): state read from or kept in an object")
        elif isinstance(n, (ast.NamedExpr, ast.Yield, ast.YieldFrom, ast.Await, ast.Lambda, ast.ListComp, ast.SetComp, ast.DictComp, ast.GeneratorExp,
                            ast.Starred, ast.Try, ast.With, ast.For, ast.FunctionDef, ast.Global, ast.Nonlocal, ast.Delete)):
            gaps.append(f"`{src(n).splitlines()[0][:50]}` (line {getattr(n, 'lineno', '?')})")
    return gaps


def _path_items(lp, dec):
    """the statements executed and the decisions taken, in order, on the iteration path described by `dec` -> list of
    ('stmt', statement) / ('dec', test, taken); None when the path cannot be replayed"""
    taken = {id(t): v for t, v in dec}
    items = []

    def walk(stmts):
        for st in stmts:
            if isinstance(st, ast.If):
                if id(st.test) not in taken:
                    return None
                items.append(("dec", st.test, taken[id(st.test)]))
                r = walk(st.body if taken[id(st.test)] else st.orelse)
                if r is not True:
                    return r
            elif isinstance(st, (ast.Break, ast.Return, ast.Raise)):
                return None
            elif isinstance(st, ast.Continue):
                return "back"
            else:
                items.append(("stmt", st))
        return True
    r = walk(lp.body)
    return items if r in (True, "back") else None


def _div_atom(t):
    """`A % B != 0`, `A % B == 0`, `A % B`, `A % B > 0`, `A % B < 1` with names A, B -> (A, B, divisible when the test is true)"""
    def mod(e):
        return (e.left.id, e.right.id) if isinstance(e, ast.BinOp) and isinstance(e.op, ast.Mod) and isinstance(e.left, ast.Name) \
            and isinstance(e.right, ast.Name) else None
    if mod(t):
        return mod(t) + (False,)
    if isinstance(t, ast.Compare) and len(t.ops) == 1:
        l, op, r = t.left, t.ops[0], t.comparators[0]
        if mod(r) and _int_const(l):
            l, r = r, l
            op = {ast.Lt: ast.Gt, ast.Gt: ast.Lt, ast.LtE: ast.GtE, ast.GtE: ast.LtE}.get(type(op), type(op))()
        if mod(l) and _int_const(r):
            c = r.value
            if (isinstance(op, ast.Eq) and c == 0) or (isinstance(op, ast.Lt) and c == 1) or (isinstance(op, ast.LtE) and c == 0):
                return mod(l) + (True,)
            if (isinstance(op, ast.NotEq) and c == 0) or (isinstance(op, ast.Gt) and c == 0) or (isinstance(op, ast.GtE) and c == 1):
                return mod(l) + (False,)
    return None


def _dnf(test, taken, ver, local_names):
    """the decision as a disjunction of conjunctions of atoms; None when a part is outside the fragment.
    atoms: ('cmp', (name, version), 'le' | 'gt', base text, k)   /   ('div', (A, version), (B, version), divisible)"""
    if isinstance(test, ast.UnaryOp) and isinstance(test.op, ast.Not):
        return _dnf(test.operand, not taken, ver, local_names)
    if isinstance(test, ast.BoolOp):
        subs = [_dnf(v, taken, ver, local_names) for v in test.values]
        if any(s is None for s in subs):
            return None
        if isinstance(test.op, ast.And) == taken:        # conjunction
            out = [[]]
            for s in subs:
                out = [a + b for a in out for b in s]
                if len(out) > 64:
                    return None
            return out
        return [c for s in subs for c in s]
    if isinstance(test, ast.Constant):
        return [[]] if bool(test.value) == taken else []
    d = _div_atom(test)
    if d is not None:
        A, B, divisible = d
        return [[("div", (A, ver.get(A, 0)), (B, ver.get(B, 0)), divisible == taken)]]
    f = _cmp(test, local_names, taken)
    if f is None:
        return None
    nm, kind, base, k = f
    try:
        be = ast.parse(base, mode="eval").body
    except SyntaxError:
        return None
    key = (nm, ver.get(nm, 0))

    def atom(b, kk):
        if _int_const(b):
            return ("cmp", key, kind, "", kk + b.value)
        if isinstance(b, ast.Name):
            return ("cmp", key, kind, (b.id, ver.get(b.id, 0)), kk)
        return None
    if isinstance(be, ast.Call) and isinstance(be.func, ast.Name) and be.func.id in ("min", "max") and not be.keywords and be.args \
            and not any(isinstance(a, ast.Starred) for a in be.args):
        parts = [atom(a, k) for a in be.args]
        if any(p is None for p in parts):
            return None
        # v <= min(a, b): both ; v > min(a, b): one of them ; max: the other way round
        conj = (be.func.id == "min") == (kind == "le")
        return [parts] if conj else [[p] for p in parts]
    a = atom(be, k)
    return [[a]] if a is not None else None


def _path_feasible(fn, lp, dec):
    """can the iteration path be taken?  -> (True, atoms quoted) / (False, why) / (None, what is not modelled)"""
    items = _path_items(lp, dec)
    if items is None:
        return None, "the path could not be replayed statement by statement"
    params = set(_params(fn)) | {a.arg for a in fn.args.kwonlyargs}
    local_names = {n.id for n in ast.walk(fn) if isinstance(n, ast.Name) and isinstance(n.ctx, ast.Store)} - params
    if params & {n.id for n in ast.walk(fn) if isinstance(n, ast.Name) and isinstance(n.ctx, ast.Store)}:
        return None, "a parameter is changed in the function"
    ver = {}
    clauses = []                        # each a DNF
    first = _dnf(lp.test, True, ver, local_names)
    if first is None:
        return None, f"the loop test `{src(lp.test)[:60]}` is outside the modelled fragment"
    clauses.append(first)
    for it in items:
        if it[0] == "dec":
            d = _dnf(it[1], it[2], ver, local_names)
            if d is None:
                return None, f"the decision `{src(it[1])[:60]}` is outside the modelled fragment (comparisons of a local with a parameter, " \
                             "divisibility tests)"
            clauses.append(d)
            continue
        st = it[1]
        for nm in {n.id for n in ast.walk(st) if isinstance(n, ast.Name) and isinstance(n.ctx, (ast.Store, ast.Del))}:
            ver[nm] = ver.get(nm, 0) + 1
        if isinstance(st, ast.While) and not st.orelse and not any(isinstance(n, (ast.Break, ast.Return)) for n in ast.walk(st)):
            # on leaving an inner loop its test is false (for the values the names have then)
            d = _dnf(st.test, False, ver, local_names)
            if d is not None:
                clauses.append(d)
    conjs = [[]]
    for d in clauses:
        conjs = [a + b for a in conjs for b in d]
        if len(conjs) > 256:
            return None, "too many cases"
    unknown = None
    for c in conjs:
        verdict, text = _conj_consistent(c, local_names)
        if verdict is True:
            return True, text
        if verdict is None:
            unknown = text
    if unknown is not None:
        return None, unknown
    return False, "the decisions on the path contradict each other"


def _conj_consistent(atoms, local_names):
    """one conjunction of atoms: True (satisfiable for suitable arguments, with the atoms as text) / False / None (not modelled)"""
    def show(a):
        if a[0] == "cmp":
            b = a[3][0] if a[3] else ""
            rhs = (_bound_text(b, a[4]) if b else str(a[4]))
            return f"{a[1][0]} {'<=' if a[2] == 'le' else '>'} {rhs}"
        return f"{a[1][0]} % {a[2][0]} {'==' if a[3] else '!='} 0"
    text = ", ".join(dict.fromkeys(show(a) for a in atoms)) or "no condition"
    lo, hi = {}, {}
    for a in atoms:
        if a[0] != "cmp":
            continue
        key = (a[1], a[3])
        if a[2] == "le":
            hi[key] = min(hi.get(key, a[4]), a[4])
        else:
            lo[key] = max(lo.get(key, a[4]), a[4])
    for key in lo:
        if key in hi and lo[key] >= hi[key]:
            return False, text
    divs = {}
    for a in atoms:
        if a[0] == "div":
            if divs.setdefault((a[1], a[2]), a[3]) != a[3]:
                return False, text
    # beyond this point the conjunction is not contradictory on its face; it is SATISFIABLE only inside the fragment where the
    # quantities are independent: one local variable, compared with parameters (free) and numbers
    variables = {a[1] for a in atoms if a[0] == "cmp"} | {a[2] for a in atoms if a[0] == "div"}
    if len(variables) > 1:
        return None, f"the decisions concern several values ({sorted(v[0] for v in variables)}) whose relation is not modelled"
    for a in atoms:
        if a[0] == "cmp" and a[3] and a[3][0] in local_names:
            return None, f"`{show(a)}` compares with the local `{a[3][0]}`, whose value is not modelled"
        if a[0] == "div" and a[1][0] in local_names:
            return None, f"`{show(a)}` divides the local `{a[1][0]}`, whose value is not modelled"
    for (var, base), k in hi.items():
        if not base and k < 2 and any(a[0] == "div" and a[2] == var and not a[3] for a in atoms):
            return False, text           # v <= 1 divides everything
        if not base and k < 1:
            return None, f"`{var[0]} <= {k}`: outside the admissible range of extents"
    return True, text


def search_rules(chk, fn, nf_tree):
    kw = dict(file=U.PROCGRID, func=FROM_MAX)
    P = _params(fn)
    # ASSUMPTION of every rule below: the three parameters are (bound of direction 0, bound of direction 1, process count) in that
    # order.  Checked by role: the process count is the one parameter that is divided (`M % v`, `M // v`); the bounds never are.  (Which
    # of the two bounds belongs to which direction is fixed by the comparisons: the quotient is compared with the second.)
    divided = {n.left.id for n in ast.walk(fn) if isinstance(n, ast.BinOp) and isinstance(n.op, (ast.Mod, ast.FloorDiv))
               and isinstance(n.left, ast.Name) and n.left.id in P}
    roles_ok = len(P) == 3 and (divided == {P[2]} or not divided)
    if len(P) == 3 and not roles_ok:
        P = P + ["<roles of the parameters not recognised>"]          # no rule below applies to a function of four parameters
    if len(P) == 3:
        _result_table(chk, fn, nf_tree, P, kw)
        _early_exits(chk, fn, P, kw)
    rets = [n for n in ast.walk(fn) if isinstance(n, ast.Return)]
    pair = None
    rets.sort(key=lambda r: (r.lineno, r.col_offset))
    early = []
    if len(P) == 3 and rets and rets[-1] is fn.body[-1] and isinstance(rets[-1].value, (ast.Tuple, ast.List)) and len(rets[-1].value.elts) == 2 \
            and all(isinstance(x, ast.Name) for x in rets[-1].value.elts) and rets[-1].value.elts[0].id != rets[-1].value.elts[1].id \
            and all(isinstance(r.value, (ast.Tuple, ast.List)) and [ast.dump(x) for x in r.value.elts] == [ast.dump(x) for x in rets[-1].value.elts]
                    for r in rets):
        # several `return <the same pair>`: the early ones leave the search like a `break` followed by the final return; they are
        # accepted inside the refinement loop only (checked below)
        pair = tuple(x.id for x in rets[-1].value.elts)
        early = rets[:-1]
        rets = rets[-1:]
    first = second = None
    order_bad = None
    if pair:
        P1, P2, M = P
        r1, r2 = pair
        first = _first_loop(fn, P1, P2, M, r1, r2)
        if first["fact"][0] is None and first["scan"] is not None:
            # are the roles of the returned names the other way round?
            swapped = _first_loop(fn, P1, P2, M, r2, r1)
            if swapped["fact"][0] is True:
                order_bad = (f"`{src(rets[0])}`: `{r1}` is the quotient `{M} // {r2}` bounded by `{P2}` (process direction 1) and `{r2}` the "
                             f"divisor bounded by `{P1}` (direction 0): the pair is returned in the wrong order, each extent is laid on the "
                             "direction whose bound it was not checked against")
                first, (r1, r2) = swapped, (r2, r1)
        if first["w1"] is None:
            # no stepping loop: the search may be written over a table of candidate divisors
            first = _table_search(fn, P1, P2, M, r1, r2)
            if first.get("single"):
                second = {"step": first["step"], "w2": None, "cand": None, "mono": False}
            else:
                second = _second_loop(fn, first["w1"], P1, P2, M, r1, r2, ctx=first.get("ctx") or {}, env=first.get("env") or {})
        else:
            second = _second_loop(fn, first["w1"], P1, P2, M, r1, r2, first_ok=first["fact"][0] is True)
        stray = [r for r in early if second.get("w2") is None or not any(x is r for x in ast.walk(second["w2"]))]
        if stray:
            why = (f"`{src(stray[0])}` (line {stray[0].lineno}) leaves the function outside the refinement loop: the pair handed back there is "
                   "not followed")
            second = dict(second, step=(None, why) if second["step"][0] is not False else second["step"])
            if first["fact"][0] is True:
                first = dict(first, fact=(None, why))
    # The order of the returned pair is a contract between the search, compute_2d_process_grid and the set-up functions that lay the
    # pair on the layout handler: it is decided END TO END (see `_site`), after the call sites have been looked at.  ASSUMPTION of the
    # VIOLATED verdict: the swap is not undone on the way to getLayoutHandler (checked there by composing the three places).
    def emit_order(site_parities):
        """site_parities: per call site True (the pair arrives in (direction 0, direction 1) order) / False / None"""
        node = rets[0] if rets else fn
        construct = "return nprocs1, nprocs2"
        if not pair or not order_bad:
            chk.pat("N2-factorisation", node, construct, bool(pair), "the pair is returned in (direction 0, direction 1) order", None,
                    nontrivial=False, **kw)
        elif site_parities and all(p is True for p in site_parities):
            chk.ob("N2-factorisation", node, construct, True,
                   "the pair is returned in (direction 1, direction 0) order and every call site that lays it on a layout handler swaps it "
                   "back: each extent reaches the direction whose bound it was checked against", nontrivial=False, **kw)
        elif any(p is False for p in site_parities):
            chk.ob("N2-factorisation", node, construct, False, order_bad, nontrivial=False, **kw)
        else:
            chk.ob("N2-factorisation", node, construct, None,
                   order_bad + " - unless the callers swap the pair back, which could not be followed", nontrivial=False, **kw)
    chk._c20_order = (emit_order, bool(pair) and bool(order_bad))
    und = "the function does not end in `return <first extent>, <second extent>` of two local names (or has not three parameters)"
    g_ok, g_why = first["guard"] if first else (None, und)
    f_ok, f_why = first["fact"] if first else (None, und)
    s_ok, s_why = second["step"] if second else (None, und)
    w1 = first["w1"] if first else None
    w2 = second["w2"] if second else None
    import builtins
    own = {st.name for st in nf_tree.body if isinstance(st, ast.FunctionDef)} | set(dir(builtins))
    closed = not any(isinstance(n, (ast.Raise, ast.Assert)) or
                     (isinstance(n, ast.Call) and not (isinstance(n.func, ast.Name) and n.func.id in own)) for n in ast.walk(nf_tree))
    # ASSUMPTION of the "true division" verdicts: the float quotient is handed back as it is.  Checked: no conversion (int, round,
    # floor, trunc, `// 1`) is applied to any value anywhere in the function; with one present the verdict is left undecided.
    converts = [n for n in ast.walk(fn) if isinstance(n, ast.Call) and src(n.func).split(".")[-1] in ("int", "round", "floor", "trunc", "ceil", "int64", "intp", "astype")]
    if converts:
        if f_ok is False and "true division" in f_why:
            f_ok, f_why = None, f_why + f" - unless `{src(converts[0])[:40]}` (line {converts[0].lineno}) converts it back, which is not followed"
        if s_ok is False and "true division" in s_why:
            s_ok, s_why = None, s_why + f" - unless `{src(converts[0])[:40]}` (line {converts[0].lineno}) converts it back, which is not followed"
    # ASSUMPTION of the "raises no error at all" verdict: giving up can only be expressed in process_grid.py by raise / assert / a call
    # of foreign code (all three counted in `closed`), and the pair is the only thing the function hands back (every `return` returns
    # the same two names: no sentinel a caller could turn into the error).
    if g_ok is None and closed and first and first["scan"] is not None:
        g_ok, g_why = False, ("process_grid.py raises no error at all (no raise, assert, or call of foreign code): when no divisor within the bound exists the scan result is returned "
                              "as if it were a valid grid")
    node = (first["scan"]["loop"] if first and first["scan"] else None) or (first.get("node") if first else None) or w1 or fn
    chk.ob("N2-failure-guard", node, "raise exactly when no divisor <= bound exists", g_ok, g_why, **kw)
    chk.ob("N2-factorisation", w1 or fn, "nprocs2 = mpi_size // nprocs1 for a divisor nprocs1", f_ok, f_why, **kw)
    chk.ob("N2-improvement-step", w2 or fn, "candidate accepted only within both bounds, as a pair", s_ok, s_why, **kw)
    if pair:
        bound_on_every_path(chk, fn, P1, P2, M, r1, kw)

    # N3: no iteration of a search loop can leave the loop-carried state unchanged (it would repeat forever)
    mono = bool(second and second["mono"] and f_ok is True and s_ok is True and second["cand"] and second["cand"][1])
    for lp in [n for n in ast.walk(fn) if isinstance(n, ast.While)]:
        carried, stuck, npaths = lints.stuck_iterations(lp)
        stored = {n.id for n in ast.walk(lp) if isinstance(n, ast.Name) and isinstance(n.ctx, ast.Store)}
        for sp in stuck:
            dec, end = sp
            # a path that takes a constant test against its value does not exist
            if any(isinstance(t, ast.Constant) and bool(t.value) != taken for t, taken in dec):
                continue
            # a state-preserving path that decides `new_n2 > max_proc2` is infeasible: new_n1 > nprocs1, so
            # new_n2 = mpi_size // new_n1 <= mpi_size // nprocs1 = nprocs2 <= max_proc2 (exit condition of the first loop, kept by every
            # acceptance); accepted only while the statements carrying that argument are in place.  Whether the argument is
            # recognised or not, a path of that shape is never reported as a violation: its feasibility is what is undecided.
            shape = discharged = False
            for t, taken in dec:
                for t2, tk in _facts(t, taken):
                    f = _cmp(t2, stored, tk)
                    if f and f[1] == "gt" and f[3] >= 0 and (len(P) != 3 or f[2] == P[1]):
                        shape = True
                        if mono and lp is w2 and f[0] == second["cand"][1]:
                            discharged = True
            if discharged:
                continue
            path_text = "the path " + " / ".join(f"`{src(t)}` is {v}" for t, v in dec) + f" reaches the next iteration ({end}) without " \
                f"changing any of the loop-carried names {sorted(carried)}"
            if shape:
                verdict, why = None, (
                    "the state-preserving path of the refinement loop is infeasible only because new_n2 <= nprocs2 <= max_proc2; the statements "
                    "carrying that argument (first search loop, candidate scan starting at nprocs1 + 1, new_n2 = mpi_size // new_n1, acceptance "
                    "within both bounds) were not all recognised")
            else:
                # see the comment above `_state_model_gaps`: (S1) the names are the whole state, (S2) the path can be taken
                gaps = _state_model_gaps(lp)
                feasible, ftext = (None, "") if gaps else _path_feasible(fn, lp, dec)
                if gaps:
                    verdict, why = None, (f"{path_text}; but the loop holds {gaps[0]}" + (f" and {len(gaps) - 1} more such constructs" if len(gaps) > 1 else "") +
                                          ": the names are not known to be the whole state of the iteration, and the decisions are not "
                                          "modelled, so neither that the path repeats nor that it can be taken is established")
                elif feasible is False:
                    continue
                elif feasible is None:
                    verdict, why = None, f"{path_text}; cannot decide that the path can be taken: {ftext}"
                elif getattr(sp, "verdict", False) is not False:
                    # the engine's own check of (S1) / (S2) did not establish the path: both have to agree for a violation
                    verdict, why = None, f"{path_text}; not established by the path analysis of the lint: {getattr(sp, 'why', '')}"
                else:
                    verdict, why = False, (f"{path_text}, and its decisions can hold together ({ftext}; the bounds are arguments of the "
                                           "function): the same iteration repeats forever, the search does not terminate")
            chk.ob("N3-no-stuck-iteration", dec[-1][0] if dec else lp, f"iteration path ending at {end}", verdict, why, **kw)
        chk.ob("N3-no-stuck-iteration", lp, f"while {src(lp.test)[:60]}", True, f"{npaths} iteration paths to the back edge examined; "
               f"loop-carried values {sorted(carried)}", nontrivial=False, **kw)
    # a `for` loop ends when its sequence does: the sequence must be a finite one that the body does not extend
    loops = [n for n in ast.walk(fn) if isinstance(n, (ast.While, ast.For))]
    for lp in [n for n in loops if isinstance(n, ast.For)]:
        it = lp.iter
        while isinstance(it, ast.Call) and isinstance(it.func, ast.Name) and it.func.id in ("enumerate", "reversed", "sorted", "list", "tuple") and it.args:
            it = it.args[0]
        root = _root_name(it) if isinstance(it, (ast.Name, ast.Attribute)) else None
        grown = [n for n in ast.walk(lp) if isinstance(n, ast.Call) and isinstance(n.func, ast.Attribute)
                 and n.func.attr in ("append", "extend", "insert") and _root_name(n.func.value) == root] if root else []
        finite = isinstance(it, (ast.Name, ast.Tuple, ast.List, ast.ListComp)) or (isinstance(it, ast.Subscript) and isinstance(it.slice, ast.Slice)) \
            or (isinstance(it, ast.Call) and src(it.func) in ("range", "zip", "np.arange", "numpy.arange") and not
                any(isinstance(a, ast.Call) and src(a.func).split(".")[-1] in ("count", "cycle", "repeat") for a in it.args))
        if grown:
            chk.ob("N3-no-stuck-iteration", grown[0], f"for {src(lp.target)} in {src(lp.iter)[:60]}", None,
                   f"`{src(grown[0])[:60]}` extends the sequence the loop runs over: cannot decide that the loop ends", **kw)
        else:
            chk.ob("N3-no-stuck-iteration", lp, f"for {src(lp.target)} in {src(lp.iter)[:60]}", True if finite else None,
                   "the loop runs once over a finite sequence (a list, slice, range or table built before it) that its body does not extend"
                   if finite else f"`{src(lp.iter)[:60]}` is not recognised as a finite sequence", nontrivial=False, **kw)
    if not loops:
        chk.ob("N3-no-stuck-iteration", fn, "no loop in the search", True,
               f"{fn.name} contains no `while` or `for` statement: every statement is executed at most once", nontrivial=False, **kw)


# ---------------------------------------------------------------------------------------------------------
# N3: the search does not recurse with a depth proportional to an input
# ---------------------------------------------------------------------------------------------------------
def _literal_step(e, p):
    """`p + c` / `c + p` / `p - c` with a non-zero integer literal c -> c (signed); None otherwise"""
    if isinstance(e, ast.BinOp) and isinstance(e.op, (ast.Add, ast.Sub)):
        l, r = e.left, e.right
        if isinstance(l, ast.Name) and l.id == p and _int_const(r) and r.value != 0:
            return r.value if isinstance(e.op, ast.Add) else -r.value
        if isinstance(e.op, ast.Add) and isinstance(r, ast.Name) and r.id == p and _int_const(l) and l.value != 0:
            return l.value
    return None


def bounded_recursion(chk, tree):
    """A helper of the search that calls itself once per candidate has a call depth equal to the distance it walks; that distance is
    an input (gap to the next divisor / to the bound), the interpreter's recursion limit is a constant: RecursionError - a subclass
    of RuntimeError, the class of the search's own 'no valid combination' error - is raised for inputs that have a valid grid.
    HOLDS: no function reachable from the search is on a cycle of the module's call graph.  VIOLATED: see ASSUMPTIONS below.
    Any other recursion is UNDECIDED."""
    rule, kw = "N3-bounded-recursion", dict(file=U.PROCGRID)
    funcs = {st.name: st for st in tree.body if isinstance(st, (ast.FunctionDef, ast.AsyncFunctionDef))}
    refs = {name: {n.id for n in ast.walk(g) if isinstance(n, ast.Name) and isinstance(n.ctx, ast.Load) and n.id in funcs}
            for name, g in funcs.items()}

    def closure(start):
        seen, work = set(), list(start)
        while work:
            x = work.pop()
            for y in refs.get(x, ()):
                if y not in seen:
                    seen.add(y)
                    work.append(y)
        return seen
    roots = [q for q in (GRID, FROM_MAX) if q in funcs]
    reach = set(roots) | closure(roots)
    cyclic = sorted(g for g in reach if g in closure([g]))
    if not cyclic:
        chk.ob(rule, tree, "call depth of the search", True,
               f"no function reachable from {', '.join(roots)} in {U.PROCGRID} refers to itself (directly or through another function of the "
               "module): the call depth does not depend on the arguments", nontrivial=False, func="<module>", **kw)
        return
    limit_set = [n for n in ast.walk(tree) if isinstance(n, ast.Attribute) and n.attr == "setrecursionlimit"]
    for name in cyclic:
        g = funcs[name]
        construct = f"call depth of {name}"
        okw = dict(func=name, **kw)
        rcs = [n for n in ast.walk(g) if isinstance(n, ast.Call) and isinstance(n.func, ast.Name) and n.func.id == name]
        params = _params(g)

        def und(why, node=None):
            chk.ob(rule, node or g, construct, None, f"{name} is reachable from the search and on a cycle of the call graph: {why}", **okw)
        if not rcs:
            und("it calls itself through another function of the module; the depth of that recursion is not followed")
            continue
        if limit_set:
            und("the module changes the interpreter's recursion limit; the depth is not compared with it", limit_set[0])
            continue
        a_ = g.args
        inner = [n for n in ast.walk(g) if n is not g and isinstance(n, (ast.FunctionDef, ast.AsyncFunctionDef, ast.Lambda, ast.ClassDef, ast.Try,
                                                                        ast.Raise, ast.While, ast.For, ast.Yield, ast.YieldFrom))]
        if a_.vararg or a_.kwarg or a_.kwonlyargs or inner or g.decorator_list:
            und("the function has constructs (starred parameters, decorators, nested scopes, loops, try / raise, generators) under which "
                "the progress of one call to the next is not modelled")
            continue
        other_calls = [n for n in ast.walk(g) if isinstance(n, ast.Call) and n not in rcs and
                       not (isinstance(n.func, ast.Name) and n.func.id in _N3_PURE and not n.keywords)]
        if other_calls:
            und(f"`{src(other_calls[0])[:60]}` may end the recursion in a way that is not followed", other_calls[0])
            continue
        stores = {}
        for n in ast.walk(g):
            if isinstance(n, ast.Name) and isinstance(n.ctx, (ast.Store, ast.Del)):
                stores.setdefault(n.id, []).append(_stmt_of(n))
        stepped, decided = {}, True
        for rc in rcs:
            b = _bind(rc, params) if not any(isinstance(x, ast.Starred) for x in rc.args) and not any(k.arg is None for k in rc.keywords) else None
            if b is None or set(b) != set(params):
                decided = False
                break
            for p in params:
                a = b[p]
                if isinstance(a, ast.Name) and a.id == p and p not in stores:
                    continue                                    # handed on unchanged
                step = _literal_step(a, p) if p not in stores else None
                if step is None and isinstance(a, ast.Name) and a.id == p and len(stores.get(p, [])) == 1:
                    # `p += c` / `p = p + c` at the top level of the body, before the recursive call
                    st = stores[p][0]
                    if st in g.body and _order(g, st, _stmt_of(rc)) == "before":
                        if isinstance(st, ast.AugAssign) and isinstance(st.op, (ast.Add, ast.Sub)) and _int_const(st.value) and st.value.value != 0:
                            step = st.value.value if isinstance(st.op, ast.Add) else -st.value.value
                        elif isinstance(st, ast.Assign) and len(st.targets) == 1 and isinstance(st.targets[0], ast.Name):
                            step = _literal_step(st.value, p)
                if step is None or stepped.setdefault(p, step) != step:
                    decided = False
                    break
            if not decided:
                break
        if not decided or len(stepped) != 1:
            und("the arguments of the recursive call are not `one parameter moved by an integer literal, the others handed on unchanged`; "
                "the depth is not followed", rcs[0])
            continue
        (p, step), = stepped.items()
        # ASSUMPTIONS of the VIOLATED verdict: (1) the function is reached from the search (call graph of the module) with arguments that
        # are not all literals; (2) each call moves exactly one integer parameter by a literal step and hands the others on unchanged
        # (checked above: no other store, no loop, no other call, no raise / try); (3) nothing in the function bounds the number of
        # steps by a constant: every comparison is between expressions over the parameters, the only literal allowed being the 0 a
        # remainder is compared with - the recursion ends where the parameter meets another ARGUMENT or divides one, so the depth is
        # |stop - start| / |step| resp. the gap between divisors, which the caller chooses; (4) the recursion limit is not raised in
        # the module (checked above).
        consts = []
        for cmp_ in [n for n in ast.walk(g) if isinstance(n, ast.Compare)]:
            sides = [cmp_.left] + list(cmp_.comparators)
            has_mod = any(isinstance(x, ast.BinOp) and isinstance(x.op, ast.Mod) for s_ in sides for x in ast.walk(s_))
            for s_ in sides:
                for x in ast.walk(s_):
                    if isinstance(x, ast.Constant) and not (has_mod and s_ is x and x.value == 0 and not isinstance(x.value, bool)) and \
                            not (isinstance(parent(x), ast.BinOp) and isinstance(parent(x).op, (ast.Add, ast.Sub)) and _int_const(x) and abs(x.value) <= 1):
                        consts.append(x)
                    elif isinstance(x, ast.Name) and x.id not in params:
                        consts.append(x)
        tests = [n.test for n in ast.walk(g) if isinstance(n, (ast.If, ast.IfExp))]
        if consts or not tests:
            und(f"a comparison against `{src(consts[0])}` may bound the number of steps by a constant; the depth is not followed" if consts else
                "no test ends the recursion", consts[0] if consts else rcs[0])
            continue
        ext = [n for q, h in funcs.items() if q != name and q in reach for n in ast.walk(h)
               if isinstance(n, ast.Call) and isinstance(n.func, ast.Name) and n.func.id == name]
        if not ext or all(all(isinstance(x, ast.Constant) for x in list(n.args) + [k.value for k in n.keywords]) for n in ext):
            und("no call from the search with arguments that depend on its inputs was found", rcs[0])
            continue
        chk.ob(rule, rcs[0], construct, False,
               f"{name} calls itself (`{src(rcs[0])[:60]}`) with `{p}` moved by {step:+d} and the other arguments unchanged until "
               f"{' / '.join('`' + src(t)[:50] + '`' for t in tests[:2])}: one stack frame per candidate, so the call depth is the distance to "
               f"the next divisor resp. to the stop value - both chosen by the caller (`{src(ext[0])[:60]}`, line {ext[0].lineno}), no constant "
               "bounds them. Beyond the interpreter's recursion limit (1000 by default; e.g. a process count with a prime factor above "
               "it, or a large grid on few processes) RecursionError is raised - a subclass of RuntimeError, the class of the search's "
               "own 'no valid combination' error - although a valid process grid exists", **okw)


def run(chk):
    chk.explanation = (
        "Narrow structural claim: for each process-grid direction the dimensions under the min() that bounds it are exactly the "
        "dimensions the standard layout dictionaries of setups.py distribute along that direction; both set-up functions pass "
        "constants.npts and the layout communicator's size and use the result as the handler's grid; the failure test after the "
        "divisor scan is the negation of the scan's bound condition; the second extent is the exact quotient by a divisor; an "
        "improved candidate is accepted only where both bounds are known to hold, both extents together; no iteration path of a "
        "search loop reaches the back edge with the loop-carried state unchanged (a necessary condition of termination); no call "
        "changes a memoised or module-level table in place. The grid sizes handed to the search and the ones the layouts' grids "
        "are computed from are reads of the same state of the constants object. A search written over a table of candidate "
        "divisors (list comprehension, masked arange) is decided by the contents of the table (range, divisibility and "
        "admissibility filters, order) and the place of the raise (else of the walk, empty table, largest candidate). "
        "The rules work on a local normal form (tuple assignments split, loop "
        "invariants written back, comparisons as `v <= B + k`). Termination in general, optimality and 'raises exactly when none "
        "exists' over the whole input space quantify over divisor arithmetic and are not decided.")
    chk.in_file(U.PROCGRID)
    mod = chk.mod(U.PROCGRID)
    chk.func(U.PROCGRID, FROM_MAX)
    try:
        callers = [chk.mod(U.SETUPS).tree]
    except AnalysisError:
        callers = []
    nf_tree, nf = _normal_form(mod.tree, (GRID, FROM_MAX), callers)
    # the purity rule needs no recognition of the search: it runs first, so its verdict stands whatever the other rules can decide
    pure_search(chk, mod.tree, mod.func(FROM_MAX))
    # the search is analysed first: the order in which it returns the pair is needed where the pair is laid on the layout handler
    search_rules(chk, nf[FROM_MAX], nf_tree)
    bounded_recursion(chk, mod.tree)
    if GRID in nf:
        layout_params, comm_param = bounds_vs_layouts(chk, nf, nf_tree) or (set(), False)
    else:
        # the two-step entry point is gone: the call sites are looked at for a direct call of the search with their own bounds
        layout_params, comm_param = set(), False
        if any(isinstance(n, ast.Call) and isinstance(n.func, ast.Name) and n.func.id == GRID for t in callers for n in ast.walk(t)):
            chk.ob("N1-bounds-cover-layouts", mod.tree, f"bounds of the two process directions in {GRID}", None,
                   f"{GRID} is called by the set-up code but not defined in {U.PROCGRID}: the bounds it hands to the search cannot be read",
                   file=U.PROCGRID, func="<module>")
    call_sites(chk, layout_params, comm_param)
    chk._c20_order[0](getattr(chk, "_c20_site_parities", []))
    chk.floor("N1-", 4)
    chk.floor("N2-", 4)
    chk.floor("N3-", 1)
    chk.floor("N4-", 2)
