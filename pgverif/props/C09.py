"""C09 - spline quadrature weights (narrow claim: the mechanism clause).

weights = A^{-T} I with the *same* factorisation A used for interpolation and I = the stored
basis integrals (transposed solve on both paths); on the periodic path the integrals of the
wrapped copies are folded onto the first p entries (because c[n+i] = c[i]) on a *copy*; the
stored integrals are never mutated; interior integrals of the uniform cubic case are dx and the
auxiliary construction of its boundary integrals is translation invariant.  Given correct
integrals, int S = c.I = (A^{-1}u).I = u.(A^{-T}I).  Correctness of _build_integrals itself
(the two defects named in the property text) is numerical and is NOT claimed.
"""
from __future__ import annotations

import ast

import sympy as sp

from ..core import src, AnalysisError, parent, same_expr, contains
from .. import units as U
from .. import lints
from ..npsym import NpSym
from ..symx import alg_equal, Undecided


def weights_mechanism(chk):
    fn = chk.func(U.INTERP, "SplineInterpolator1D.get_quadrature_coefficients")
    ifs = [n for n in fn.body if isinstance(n, ast.If)]
    if len(ifs) != 1 or src(ifs[0].test) != "self._basis.periodic":
        raise AnalysisError("C09: periodic/clamped dispatch of get_quadrature_coefficients not found")
    per, cla = ifs[0].body, ifs[0].orelse
    okc = contains(cla, "c, self._sinfo = self._solveFunc(self._bmat, self._l, self._u, self._basis.integrals, self._ipiv, trans=True)\nreturn c")
    chk.ob("Q1-transposed-solve", ifs[0], "clamped: solve(A, integrals, trans=True)", okc,
           "the weights solve the transposed collocation system with the interpolation factors and the stored basis integrals"
           if okc else "clamped weights are not A^{-T} I with the interpolation factors", file=U.INTERP,
           func="SplineInterpolator1D.get_quadrature_coefficients")
    okp = contains(per, "return self._splu.solve(basis_quads, trans='T')")
    chk.ob("Q1-transposed-solve", ifs[0], "periodic: splu.solve(folded integrals, trans='T')", okp,
           "the periodic weights solve the transposed system with the interpolation LU" if okp else
           "periodic weights are not the transposed solve with the interpolation LU", file=U.INTERP,
           func="SplineInterpolator1D.get_quadrature_coefficients")
    okf = contains(per, "basis_quads = self._basis.integrals[:n].copy()\nbasis_quads[:p] += self._basis.integrals[n:]") and \
        contains(fn, "n = self._basis.nbasis\np = self._basis.degree")
    chk.ob("Q2-periodic-fold", ifs[0], "I[:n] (copy) with I[n:] added onto the first p entries", okf,
           "because c[n+i] = c[i], the integrals of the p wrapped copies are added to the first p basis integrals, on a copy"
           if okf else "the wrapped integrals are not folded onto the first p entries of a copy", file=U.INTERP,
           func="SplineInterpolator1D.get_quadrature_coefficients")
    muts = lints.shared_state_mutations(fn, lambda s: s.endswith(".integrals") or s.endswith("._integrals"))
    chk.ob("G2-no-shared-mutation", fn, "get_quadrature_coefficients vs basis.integrals", not muts,
           "the stored basis integrals are only read" if not muts else "; ".join(d for _, d in muts) +
           " - a second request (or another interpolator on the same basis) gets wrong weights", file=U.INTERP,
           func="SplineInterpolator1D.get_quadrature_coefficients")
    # the factorisation used here is the one compute_interpolant uses (same attributes)
    sn = chk.func(U.INTERP, "SplineInterpolator1D._solve_system_nonperiodic")
    sp_ = chk.func(U.INTERP, "SplineInterpolator1D._solve_system_periodic")
    oks = contains(sn, "self._solveFunc(self._bmat, self._l, self._u, ug, self._ipiv)") and contains(sp_, "self._splu.solve(ug)")
    chk.ob("Q1-same-factorisation", fn, "interpolation and quadrature share (bmat, l, u, ipiv) / splu", oks,
           "interpolation solves A c = u and quadrature A^T w = I with one factorisation" if oks else
           "interpolation no longer uses the same factors", file=U.INTERP, func="SplineInterpolator1D.get_quadrature_coefficients")
    pr = chk.func(U.SPLINES, "BSplines.integrals")
    okr = contains(pr, "return self._integrals")
    chk.ob("Q1-same-factorisation", pr, "BSplines.integrals returns the stored integrals", okr, "", file=U.SPLINES, func="BSplines.integrals",
           nontrivial=False)


def uniform_cubic_integrals(chk):
    fn = chk.func(U.SPLINES, "BSplines._build_integrals")
    ifs = [n for n in fn.body if isinstance(n, ast.If) and src(n.test) == "self.cubic_uniform"]
    if len(ifs) != 1:
        raise AnalysisError("C09: cubic-uniform branch of _build_integrals not found")
    cu = ifs[0].body
    okh = contains(fn, "self._integrals = np.empty(self.ncells + d)") and contains(fn, "n = self.nbasis\nd = self.degree")
    chk.ob("Q3-integrals-storage", fn, "integrals array has ncells + degree entries (unwrapped basis functions)", okh, "", file=U.SPLINES,
           func="BSplines._build_integrals", nontrivial=False)
    okper = contains(cu, "if self.periodic:\n    self._integrals[:] = dx\n    self._integrals[n:] = 0")
    chk.ob("Q3-uniform-cubic", ifs[0], "periodic uniform cubic: dx for the n functions, 0 for the wrapped copies", okper,
           "every periodic uniform cubic B-spline integrates to dx; the wrapped copies carry nothing extra" if okper else
           "periodic uniform-cubic integrals changed", file=U.SPLINES, func="BSplines._build_integrals")
    # clamped uniform cubic: every function starts from the full integral dx and loses what lies outside the domain, at both ends
    okint = contains(cu, "self._integrals[:] = dx")
    old_int = contains(cu, "self._integrals[d:-d] = dx")
    chk.pat("Q3-uniform-cubic", ifs[0], "clamped uniform cubic: all integrals start from dx", okint,
            "a cardinal cubic B-spline integrates to dx; boundary functions lose the part outside the domain (next rule)",
            ("only the interior entries `[d:-d]` are set to dx: with fewer than three cells there is no interior and a function that "
             "reaches both boundaries gets one end's value only") if old_int and not okint else None,
            file=U.SPLINES, func="BSplines._build_integrals")
    # auxiliary construction: knots = linspace(x0, x0 + 11 dx, 12), test point = x0 + 4 dx  (same origin x0)
    xmin, dx = sp.symbols("xmin dx", real=True)
    kn = [n for st in cu for n in ast.walk(st) if isinstance(n, ast.Assign) and src(n.targets[0]) == "knots"]
    tp = [n for st in cu for n in ast.walk(st) if isinstance(n, ast.Assign) and src(n.targets[0]) == "test_pt"]
    ok = None
    why = "auxiliary knot vector / test point not found"
    def affine_knots(v, n_):
        """(first knot, spacing) of a uniform knot vector expression, or None"""
        if isinstance(v, ast.Call) and src(v.func) == "np.linspace" and len(v.args) == 3:
            a, b, cnt = n_.ev(v.args[0]), n_.ev(v.args[1]), n_.ev(v.args[2])
            return a, (b - a) / (cnt - 1)
        if isinstance(v, ast.Call) and src(v.func) == "np.arange" and len(v.args) == 1:
            return sp.Integer(0), sp.Integer(1)
        if isinstance(v, ast.BinOp) and isinstance(v.op, ast.Mult):
            for x, y in ((v.left, v.right), (v.right, v.left)):
                k = affine_knots(y, n_)
                if k is not None:
                    f = n_.ev(x)
                    return k[0] * f, k[1] * f
        if isinstance(v, ast.BinOp) and isinstance(v.op, (ast.Add, ast.Sub)):
            kl = affine_knots(v.left, n_)
            if kl is not None:
                o = n_.ev(v.right)
                return (kl[0] + o, kl[1]) if isinstance(v.op, ast.Add) else (kl[0] - o, kl[1])
            kr = affine_knots(v.right, n_)
            if kr is not None and isinstance(v.op, ast.Add):
                return kr[0] + n_.ev(v.left), kr[1]
        return None

    if kn and tp:
        n_ = NpSym(env={"xmin": xmin, "dx": dx})
        try:
            ak = affine_knots(kn[0].value, n_)
            if ak is None:
                raise Undecided(f"knot vector `{src(kn[0].value)}` is not a recognised uniform construction")
            a, step_ = ak
            b, cnt = a + 11 * step_, sp.Integer(12)
            t = n_.ev(tp[0].value)
            spacing = alg_equal(step_, dx)
            rel = alg_equal(t - a, 4 * dx)
            ok = bool(spacing and rel)
            why = ("the auxiliary uniform knot vector has spacing dx and the evaluation point is 4 cells from ITS first knot: the "
                   "boundary integrals do not depend on where the domain starts") if ok else \
                (f"auxiliary knots start at {a} with spacing {(b - a) / (cnt - 1)}, evaluation point {t}: the point is {sp.simplify(t - a)} "
                 "from the first knot instead of 4 dx - for a domain that does not start at the knot origin the boundary integrals are wrong")
        except Undecided as e:
            why = f"not extractable: {e}"
    chk.ob("Q3-uniform-cubic", kn[0] if kn else ifs[0], "auxiliary knots and test point share one origin", ok, why, file=U.SPLINES,
           func="BSplines._build_integrals")
    okb = contains(cu, "for i in range(3):\n    outside = dx * sum(values[:3 - i])\n    self._integrals[i] -= outside\n    self._integrals[-i - 1] -= outside")
    old_b_form = contains(cu, "for i in range(3):\n    step = dx * (1 - sum(values[:3 - i]))\n    self._integrals[i] = step\n    self._integrals[-i - 1] = step")
    chk.pat("Q3-uniform-cubic", ifs[0], "boundary functions lose the part outside the domain, symmetrically, by subtraction", okb,
            "the three functions cut by each boundary lose dx x (the mass outside), subtracted at both ends so that a function cut by "
            "both boundaries (1 or 2 cells) loses both parts",
            ("the boundary integrals are assigned, not reduced: with one or two cells the assignments of the two ends overwrite each "
             "other and the stored integrals (hence the weights) are wrong") if old_b_form and not okb else None,
            file=U.SPLINES, func="BSplines._build_integrals")
    # general branch: one formula for every unwrapped function, the wrapped copies of a periodic space included
    gen = ifs[0].orelse
    loops = [n for n in gen if isinstance(n, ast.For)]
    okw, badw = False, None
    if loops and isinstance(loops[0].iter, ast.Call) and src(loops[0].iter.func) == "range" and len(loops[0].iter.args) == 1:
        from ..core import same_expr
        rng = loops[0].iter.args[0]
        stores = [n for n in ast.walk(loops[0]) if isinstance(n, ast.Assign) and src(n.targets[0]) == "self._integrals[i]"]
        if same_expr(rng, "self.ncells + d") and len(stores) == 1:
            okw = True
        elif src(rng) in ("n", "self.nbasis"):
            mirror = [n for st in gen for n in ast.walk(st) if isinstance(n, ast.Assign) and isinstance(n.targets[0], ast.Subscript)
                      and src(n.targets[0].value) == "self._integrals" and isinstance(n.value, ast.Subscript)
                      and src(n.value.value) == "self._integrals"]
            if mirror:
                badw = (f"`{src(mirror[0])}` copies the integrals of the wrapped functions from the first ones in reverse order: that "
                        "is their value only when the break points are symmetric (uniform grids); on a periodic non-uniform space "
                        "the stored integrals, and the quadrature weights, are wrong (weights do not sum to the domain length)")
            else:
                badw = ("only the first nbasis integrals are computed: on a periodic space the wrapped functions ncells..ncells+d-1 "
                        "keep uninitialised values")
    chk.pat("Q3-integrals-storage", loops[0] if loops else ifs[0], "general: for i in range(self.ncells + d) with one formula", okw,
            "every unwrapped basis function, the wrapped copies of a periodic space included, is integrated by the same antiderivative "
            "identity", badw, file=U.SPLINES, func="BSplines._build_integrals")


def integrals_not_memoised_on_summary(chk):
    """the stored integrals are a function of ALL break points: a memo table may not be keyed on a summary of them"""
    fn = chk.func(U.SPLINES, "BSplines._build_integrals")
    hits = []
    for n in ast.walk(fn):
        if isinstance(n, ast.If) and isinstance(n.test, ast.Compare) and len(n.test.ops) == 1 and isinstance(n.test.ops[0], ast.In) \
                and any(isinstance(x, ast.Return) for x in n.body):
            key = n.test.left
            if isinstance(key, ast.Name):
                d = [a for a in ast.walk(fn) if isinstance(a, ast.Assign) and src(a.targets[0]) == key.id]
                key = d[0].value if len(d) == 1 else key
            # entries of the key that pick single elements of an array of break points / knots
            picks = [x for x in ast.walk(key) if isinstance(x, ast.Subscript) and isinstance(x.slice, (ast.Constant, ast.UnaryOp))
                     and src(x.value).split(".")[-1] in ("breaks", "knots", "_knots", "_breaks")]
            whole = [x for x in ast.walk(key) if isinstance(x, ast.Call) and src(x.func) in ("tuple", "bytes") or
                     (isinstance(x, ast.Call) and isinstance(x.func, ast.Attribute) and x.func.attr in ("tobytes", "tostring"))]
            hits.append((n, key, picks, whole))
    bad = [(n, key, picks) for n, key, picks, whole in hits if picks and not whole]
    chk.ob("Q3-integrals-not-memoised", bad[0][0] if bad else fn, "no memo table keyed on a summary of the break points",
           (not bad) if (not hits or bad or all(w for _, _, _, w in hits)) else None,
           "the integrals are computed from the knots of this very space" if not bad else
           f"the integrals are taken from a table keyed on `{src(bad[0][1])[:90]}`: the key holds only {[src(p_) for p_ in bad[0][2]]} of the "
           "break points, so a non-uniform space built after another one with the same ends, first cell and cell count receives that "
           "other space's integrals and its quadrature weights no longer integrate its splines",
           file=U.SPLINES, func="BSplines._build_integrals", nontrivial=False)


def run(chk):
    chk.explanation = (
        "Narrow mechanism claim: quadrature weights are the transposed solve, with the interpolation factorisation, of the stored "
        "basis integrals (periodic: integrals of the wrapped copies folded onto the first p entries of a copy); the stored integrals "
        "are not mutated; uniform-cubic interior integrals are dx and the auxiliary construction of the boundary integrals is "
        "translation invariant; boundary integrals of the clamped uniform cubic case are reduced (not assigned) at both ends; the "
        "general branch integrates every unwrapped function, wrapped copies included, by one formula. The antiderivative identity "
        "itself is numerical and is not re-derived.")
    chk.in_file(U.INTERP)
    weights_mechanism(chk)
    uniform_cubic_integrals(chk)
    integrals_not_memoised_on_summary(chk)
    chk.floor("Q", 9)
