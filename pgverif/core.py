"""Plumbing shared by all checks: source model, obligations, evidence, exit codes.

Exit codes: 0 all obligations HOLD (known findings printed), 1 an unlisted
violation (one ``VIOLATION property=<id> replay=<path>`` line each),
2 ANALYSIS-ERROR (anchor vanished, floor not met, idiom not recognised,
internal error).  A check never passes silently when it could not analyse.
"""
from __future__ import annotations

import ast
import hashlib
import json
import os
import re
import sys
import time
import traceback
from dataclasses import dataclass, field
from pathlib import Path
import warnings

VERIF = Path(__file__).resolve().parent.parent
REPO = Path(os.environ.get("PGVERIF_REPO", "/repo")).resolve()
EVIDENCE_DIR = Path(os.environ.get("PGVERIF_EVIDENCE_DIR", str(VERIF / "evidence")))
KNOWN_FILE = VERIF / "known_findings.json"

HOLDS, VIOLATED, UNDECIDED = "HOLDS", "VIOLATED", "UNDECIDED"


class AnalysisError(Exception):
    """The analysis cannot decide (anchor vanished, unknown idiom)."""


# --------------------------------------------------------------------------
# source model
# --------------------------------------------------------------------------

class Module:
    def __init__(self, rel: str, path: Path):
        self.rel = rel
        self.path = path
        try:
            self.src = path.read_text()
        except OSError as e:
            raise AnalysisError(f"unit missing: {rel} ({e})")
        try:
            with warnings.catch_warnings():
                warnings.simplefilter('ignore')
                self.tree = ast.parse(self.src, filename=str(path))
        except SyntaxError as e:
            raise AnalysisError(f"unit does not parse: {rel}: {e}")
        # `pass` next to other statements does nothing: dropped before any rule looks at a block
        for node in ast.walk(self.tree):
            for f in ("body", "orelse", "finalbody"):
                b = getattr(node, f, None)
                if isinstance(b, list) and len(b) > 1 and any(isinstance(x, ast.Pass) for x in b):
                    kept = [x for x in b if not isinstance(x, ast.Pass)]
                    setattr(node, f, kept if kept else [b[0]])
        # helper functions the reference tree does not have are written back at their call sites (undoes "extract method")
        self.inlined_helpers = []
        if os.environ.get("PGVERIF_NO_ALPHA") != "1":
            from . import alpha
            alpha.lower_simple_match(self.tree)          # simple `match` statements are if/elif chains
            self.inlined_helpers = alpha.inline_new_helpers(self.tree, rel)
            if self.inlined_helpers:
                ast.fix_missing_locations(self.tree)
        self._link()
        self._index: dict[str, ast.AST] = {}
        self._build(self.tree.body, "")
        # locals renamed back to the reference names (a valid alpha-renaming: see alpha.py)
        self.renamed: dict[str, dict] = {}
        if os.environ.get("PGVERIF_NO_ALPHA") != "1":
            from . import alpha
            for q, n in list(self._index.items()):
                if isinstance(n, (ast.FunctionDef, ast.AsyncFunctionDef)):
                    m = alpha.normalise(rel, n, q)
                    if m:
                        self.renamed[q] = m
        # temporaries the reference tree does not have, defined right before their single use, are written back in place
        self.inlined: dict[str, list] = {}
        if os.environ.get("PGVERIF_NO_ALPHA") != "1":
            from . import alpha
            for q, n in list(self._index.items()):
                if isinstance(n, (ast.FunctionDef, ast.AsyncFunctionDef)):
                    got = alpha.inline_new_temps(rel, n, q)
                    if got:
                        self.inlined[q] = got
            if self.inlined:
                ast.fix_missing_locations(self.tree)
                self._link()

    def _link(self):
        for node in ast.walk(self.tree):
            for ch in ast.iter_child_nodes(node):
                ch._parent = node  # type: ignore[attr-defined]
        self.tree._parent = None  # type: ignore[attr-defined]

    def _build(self, body, prefix):
        for st in body:
            if isinstance(st, (ast.FunctionDef, ast.AsyncFunctionDef, ast.ClassDef)):
                q = prefix + st.name
                # property getter/setter share a name: keep getter under q and
                # the setter under q + ".setter"
                if q in self._index and isinstance(st, ast.FunctionDef):
                    decs = [ast.unparse(d) for d in st.decorator_list]
                    if any(d.endswith(".setter") for d in decs):
                        q = q + ".setter"
                self._index[q] = st
                st._qual = q  # type: ignore[attr-defined]
                if isinstance(st, ast.ClassDef):
                    self._build(st.body, q + ".")
                else:
                    nested = []
                    stack = list(st.body)
                    while stack:
                        x = stack.pop()
                        if isinstance(x, (ast.FunctionDef, ast.AsyncFunctionDef, ast.ClassDef)):
                            nested.append(x)
                            continue
                        for f in ("body", "orelse", "finalbody", "handlers"):
                            for y in getattr(x, f, []) or []:
                                if isinstance(y, ast.AST):
                                    stack.append(y)
                    nested.sort(key=lambda n: n.lineno)
                    self._build(nested, q + ".")

    def has(self, qual: str) -> bool:
        return qual in self._index

    def get(self, qual: str) -> ast.AST:
        if qual not in self._index:
            raise AnalysisError(f"anchor vanished: {self.rel}:{qual}")
        return self._index[qual]

    def func(self, qual: str) -> ast.FunctionDef:
        n = self.get(qual)
        if not isinstance(n, (ast.FunctionDef, ast.AsyncFunctionDef)):
            raise AnalysisError(f"anchor is not a function: {self.rel}:{qual}")
        return n

    def cls(self, qual: str) -> ast.ClassDef:
        n = self.get(qual)
        if not isinstance(n, ast.ClassDef):
            raise AnalysisError(f"anchor is not a class: {self.rel}:{qual}")
        return n

    def functions(self):
        return {q: n for q, n in self._index.items() if isinstance(n, ast.FunctionDef)}

    def classes(self):
        return {q: n for q, n in self._index.items() if isinstance(n, ast.ClassDef)}

    def methods(self, cls: str):
        c = self.cls(cls)
        out = {}
        for st in c.body:
            if isinstance(st, ast.FunctionDef):
                out.setdefault(st.name, st)
        return out


class Repo:
    def __init__(self, root: Path = REPO):
        self.root = root
        self._mods: dict[str, Module] = {}

    def mod(self, rel: str) -> Module:
        if rel not in self._mods:
            self._mods[rel] = Module(rel, self.root / rel)
        return self._mods[rel]

    def exists(self, rel: str) -> bool:
        return (self.root / rel).exists()

    def text(self, rel: str) -> str:
        try:
            return (self.root / rel).read_text()
        except OSError as e:
            raise AnalysisError(f"unit missing: {rel} ({e})")


# --------------------------------------------------------------------------
# small AST helpers used everywhere
# --------------------------------------------------------------------------

def src(node) -> str:
    """Normalised source of a node (whitespace/parentheses canonical)."""
    if node is None:
        return "None"
    if isinstance(node, str):
        return node
    return ast.unparse(node)


def flat(node_or_src) -> str:
    """canonical one-line text of code: ast.unparse formatting, lines stripped and joined by ';'"""
    if isinstance(node_or_src, str):
        import textwrap
        node_or_src = ast.parse(textwrap.dedent(node_or_src))
    if isinstance(node_or_src, list):
        text = "\n".join(ast.unparse(n) for n in node_or_src)
    else:
        text = ast.unparse(node_or_src)
    return ";".join(l.strip() for l in text.splitlines() if l.strip())


# ---- structural matching with metavariables -------------------------------------------------
_IGNORED_FIELDS = {"lineno", "col_offset", "end_lineno", "end_col_offset", "ctx", "type_comment", "kind"}


def _match(pat, tgt, bind, metas):
    """structural equality of two AST nodes; Name ids listed in `metas` (or starting with `_`+upper? no)
    are metavariables bound consistently (injectively) to names of the target; `a*b` matches `b*a`."""
    if isinstance(pat, ast.Name) and pat.id in metas:
        if not isinstance(tgt, ast.Name):
            return False
        if pat.id in bind:
            return bind[pat.id] == tgt.id
        if tgt.id in bind.values():
            return False
        bind[pat.id] = tgt.id
        return True
    if type(pat) is not type(tgt):
        return False
    if isinstance(pat, ast.BinOp) and isinstance(tgt, ast.BinOp) and type(pat.op) is type(tgt.op) and (
            isinstance(pat.op, ast.Mult) or (isinstance(pat.op, ast.Add) and not any(
                isinstance(x, (ast.List, ast.Tuple, ast.JoinedStr)) or (isinstance(x, ast.Constant) and isinstance(x.value, str))
                for x in (pat.left, pat.right)))):
        saved = dict(bind)
        if _match(pat.left, tgt.left, bind, metas) and _match(pat.right, tgt.right, bind, metas):
            return True
        bind.clear()
        bind.update(saved)
        if _match(pat.left, tgt.right, bind, metas) and _match(pat.right, tgt.left, bind, metas):
            return True
        bind.clear()
        bind.update(saved)
        return False
    if isinstance(pat, ast.arg):
        if pat.arg in metas:
            if pat.arg in bind:
                return bind[pat.arg] == tgt.arg
            bind[pat.arg] = tgt.arg
            return True
        return pat.arg == tgt.arg
    for f in pat._fields:
        if f in _IGNORED_FIELDS:
            continue
        a, b = getattr(pat, f, None), getattr(tgt, f, None)
        if isinstance(a, list) and f in ("body", "orelse", "finalbody") and (not a or isinstance(a[0], ast.stmt)):
            # statement lists: the pattern's statements occur consecutively in the target's block; an empty list or a
            # single `pass` matches any block
            if not isinstance(b, list):
                return False
            if not a or (len(a) == 1 and isinstance(a[0], ast.Pass)):
                continue
            tb = [x for x in b if not _is_doc(x)]
            okk = False
            for i in range(len(tb) - len(a) + 1):
                trial = dict(bind)
                if all(_match(x, y, trial, metas) for x, y in zip(a, tb[i:i + len(a)])):
                    bind.clear()
                    bind.update(trial)
                    okk = True
                    break
            if not okk:
                return False
            continue
        if isinstance(a, list):
            if not isinstance(b, list) or len(a) != len(b):
                return False
            for x, y in zip(a, b):
                if isinstance(x, ast.AST):
                    if not _match(x, y, bind, metas):
                        return False
                elif x != y:
                    return False
        elif isinstance(a, ast.AST):
            if not isinstance(b, ast.AST) or not _match(a, b, bind, metas):
                return False
        else:
            if a != b:
                return False
    return True


def _blocks(node):
    """every statement list under node (incl. the node itself when it is a list)"""
    if isinstance(node, list):
        yield node
        for st in node:
            yield from _blocks(st)
        return
    for f in ("body", "orelse", "finalbody"):
        b = getattr(node, f, None)
        if isinstance(b, list) and b and isinstance(b[0], ast.stmt):
            yield b
            for st in b:
                yield from _blocks(st)
    for h in getattr(node, "handlers", []) or []:
        yield from _blocks(h)


def _is_doc(st):
    return isinstance(st, ast.Expr) and isinstance(st.value, ast.Constant) and isinstance(st.value.value, str)


def _context_literals(node):
    """names that denote the same thing whatever the locals of the enclosing function are called: builtins, module-level
    names, names imported inside the function, parameters of the enclosing function(s), self/cls.  None when the node
    carries no parent links (cloned fragments): then only the declared metavariables are free."""
    import builtins
    n = node[0] if isinstance(node, list) and node else node
    if not isinstance(n, ast.AST):
        return None
    lit = set(dir(builtins)) | {"self", "cls"}
    seen_fn = False
    p = n
    top = None
    while p is not None:
        if isinstance(p, (ast.FunctionDef, ast.AsyncFunctionDef, ast.Lambda)):
            seen_fn = True
            a = p.args
            for x in a.args + a.kwonlyargs + a.posonlyargs:
                lit.add(x.arg)
            if a.vararg:
                lit.add(a.vararg.arg)
            if a.kwarg:
                lit.add(a.kwarg.arg)
            if not isinstance(p, ast.Lambda):
                for q in ast.walk(p):
                    if isinstance(q, (ast.Import, ast.ImportFrom)):
                        for al in q.names:
                            lit.add((al.asname or al.name).split(".")[0])
                    elif isinstance(q, (ast.FunctionDef, ast.ClassDef)) and q is not p:
                        lit.add(q.name)
        top = p
        p = getattr(p, "_parent", None)
    if not isinstance(top, ast.Module) or not seen_fn:
        return None
    for st in top.body:
        if isinstance(st, (ast.Import, ast.ImportFrom)):
            for al in st.names:
                lit.add((al.asname or al.name).split(".")[0])
        elif isinstance(st, (ast.FunctionDef, ast.ClassDef)):
            lit.add(st.name)
        elif isinstance(st, ast.Assign):
            for t in st.targets:
                for q in ast.walk(t):
                    if isinstance(q, ast.Name):
                        lit.add(q.id)
    return lit


def _metas_for(node, ptree, vars):
    metas = set(vars or ())
    for n in ast.walk(ptree):
        if isinstance(n, ast.Name) and isinstance(n.ctx, ast.Store):
            metas.add(n.id)
    # locals used but not assigned by the fragment stay literal: renamed locals are mapped back to the reference names
    # before any rule runs (alpha.py), and a literal name keeps the identity of the variable across rules
    return metas


def find(node, fragment: str, vars=None, bind=None):
    """find the statements of `fragment` as consecutive statements of some block under `node`.
    Names assigned inside the fragment (and those listed in `vars`) are metavariables: the match is up to a
    consistent renaming of these locals; multiplication operands may be commuted; formatting is irrelevant.
    -> binding dict or None"""
    import textwrap
    ptree = ast.parse(textwrap.dedent(fragment))
    pst = [s_ for s_ in ptree.body]
    metas = _metas_for(node, ptree, vars)
    if isinstance(node, ast.expr):
        if len(pst) == 1 and isinstance(pst[0], ast.Expr):
            b = dict(bind or {})
            return b if _match(pst[0].value, node, b, metas) else None
        return None
    if len(pst) == 1 and isinstance(pst[0], ast.Expr) and not isinstance(pst[0].value, ast.Constant):
        roots = node if isinstance(node, list) else [node]
        for r in roots:
            for sub in ast.walk(r):
                if isinstance(sub, ast.expr) and type(sub) is type(pst[0].value):
                    b = dict(bind or {})
                    if _match(pst[0].value, sub, b, metas):
                        return b
    for blk in _blocks(node if not isinstance(node, ast.Module) else node.body):
        stmts = [s_ for s_ in blk if not _is_doc(s_)]
        for i in range(len(stmts) - len(pst) + 1):
            b = dict(bind or {})
            if all(_match(p_, t_, b, metas) for p_, t_ in zip(pst, stmts[i:i + len(pst)])):
                return b
    return None


def contains(node, fragment: str, vars=None, bind=None) -> bool:
    """does the code of `node` contain the statements of `fragment` (consecutively, in one block), up to renaming of
    the fragment's locals, commuted products, quotes, parentheses and spacing?"""
    return find(node, fragment, vars, bind) is not None


def same_expr(node, expected: str, vars=None, bind=None) -> bool:
    """structural equality of an expression node with an expected source string (same tolerances as `contains`)"""
    try:
        e = ast.parse(expected, mode="eval").body
        t = ast.parse(ast.unparse(node), mode="eval").body
    except SyntaxError:
        return False
    return _match(e, t, dict(bind or {}), _metas_for(node, e, vars))


def increment_of(st):
    """`x += v` / `x = x + v` / `x = v + x` on a plain name -> (x, v node), else None"""
    if isinstance(st, ast.AugAssign) and isinstance(st.op, ast.Add) and isinstance(st.target, ast.Name):
        return st.target.id, st.value
    if isinstance(st, ast.Assign) and len(st.targets) == 1 and isinstance(st.targets[0], ast.Name) and isinstance(st.value, ast.BinOp) \
            and isinstance(st.value.op, ast.Add):
        x = st.targets[0].id
        if isinstance(st.value.left, ast.Name) and st.value.left.id == x:
            return x, st.value.right
        if isinstance(st.value.right, ast.Name) and st.value.right.id == x:
            return x, st.value.left
    return None


def clone(node):
    """private copy of a syntax (sub)tree: positions kept, no parent links shared with the module's tree (copy.deepcopy would
    follow `_parent` into the whole module)"""
    if isinstance(node, list):
        return [clone(x) for x in node]
    import copy as _copy
    memo = {}

    def strip(n):
        for x in ast.walk(n):
            p_ = getattr(x, "_parent", None)
            if p_ is not None:
                memo[id(x)] = p_
                del x._parent
    strip(node)
    try:
        new = _copy.deepcopy(node)
    finally:
        for x in ast.walk(node):
            if id(x) in memo:
                x._parent = memo[id(x)]
    for x in ast.walk(new):
        for ch in ast.iter_child_nodes(x):
            ch._parent = x
    return new


def assigned_names(fn) -> set:
    out = set()
    for n in ast.walk(fn):
        if isinstance(n, ast.Name) and isinstance(n.ctx, ast.Store):
            out.add(n.id)
        elif isinstance(n, ast.arg):
            out.add(n.arg)
    return out


def need_locals(fn, names, what=""):
    """the rules of this function are written against these local names: if one of them is gone the idiom changed and
    the analysis cannot decide (ANALYSIS-ERROR), which is not a violation"""
    have = assigned_names(fn)
    missing = [n for n in names if n not in have]
    if missing:
        raise AnalysisError(f"idiom changed in {getattr(fn, '_qual', getattr(fn, 'name', '?'))}: local name(s) {missing} "
                            f"the rule {what} is written against are not defined any more")


def parent(node):
    return getattr(node, "_parent", None)


def enclosing_function(node):
    p = parent(node)
    while p is not None and not isinstance(p, (ast.FunctionDef, ast.AsyncFunctionDef)):
        p = parent(p)
    return p


def enclosing_stmt(node):
    p = node
    while p is not None and not isinstance(p, ast.stmt):
        p = parent(p)
    return p


def qual(node) -> str:
    f = node if isinstance(node, (ast.FunctionDef, ast.ClassDef)) else enclosing_function(node)
    return getattr(f, "_qual", "<module>") if f is not None else "<module>"


def calls_in(node, name: str | None = None, attr: str | None = None):
    """All Call nodes under node; filter by bare function name or attribute name."""
    out = []
    for n in ast.walk(node):
        if isinstance(n, ast.Call):
            f = n.func
            if name is not None and isinstance(f, ast.Name) and f.id == name:
                out.append(n)
            elif attr is not None and isinstance(f, ast.Attribute) and f.attr == attr:
                out.append(n)
            elif name is None and attr is None:
                out.append(n)
    out.sort(key=lambda c: (c.lineno, c.col_offset))
    return out


def call_name(call: ast.Call) -> str:
    f = call.func
    if isinstance(f, ast.Name):
        return f.id
    if isinstance(f, ast.Attribute):
        return f.attr
    return src(f)


def is_self_attr(node, attr: str | None = None) -> bool:
    return (isinstance(node, ast.Attribute) and isinstance(node.value, ast.Name)
            and node.value.id == "self" and (attr is None or node.attr == attr))


def names_in(node) -> set[str]:
    return {n.id for n in ast.walk(node) if isinstance(n, ast.Name)}


def guards_of(node, stop=None):
    """Conditions the node is control dependent on inside its function:
    list of (test_node, polarity, kind) from innermost to outermost."""
    out = []
    ch = node
    p = parent(node)
    while p is not None and p is not stop and not isinstance(p, (ast.FunctionDef, ast.ClassDef, ast.Module)):
        if isinstance(p, ast.If):
            if ch in p.body:
                out.append((p.test, True, "if"))
            elif ch in p.orelse:
                out.append((p.test, False, "if"))
        elif isinstance(p, ast.While):
            if ch in p.body:
                out.append((p.test, True, "while"))
        elif isinstance(p, ast.For):
            if ch in p.body:
                out.append((p.iter, True, "for"))
        elif isinstance(p, ast.IfExp):
            if ch is p.body:
                out.append((p.test, True, "ifexp"))
            elif ch is p.orelse:
                out.append((p.test, False, "ifexp"))
        ch = p
        p = parent(p)
    return out


# --------------------------------------------------------------------------
# obligations / evidence
# --------------------------------------------------------------------------

@dataclass
class Ob:
    rule: str
    file: str
    func: str
    construct: str
    status: str
    msg: str = ""
    line: int | None = None
    facts: dict = field(default_factory=dict)
    nontrivial: bool = True

    @property
    def key(self):
        return (self.rule, self.file, self.func, re.sub(r"\s+", " ", self.construct).strip())

    def as_json(self):
        return {"rule": self.rule, "file": self.file, "function": self.func,
                "construct": self.construct, "status": self.status, "msg": self.msg,
                "line": self.line, "facts": self.facts}


class Check:
    def __init__(self, pid: str, tier: str = "quick", level: str = "other"):
        self.pid = pid
        self.tier = tier
        self.level = level
        self.repo = Repo()
        self.obs: list[Ob] = []
        self._seen: set = set()
        self.floors: dict[str, int] = {}
        self.units: set[str] = set()
        self.functions: set[str] = set()
        self.notes: list[str] = []
        self.assumptions: list[str] = []
        self.trusted: list[str] = ["CPython ast parser", "pgverif resolver/engines"]
        self.explanation = ""
        self.extra: dict = {}
        self.t0 = time.time()

    # -- source access that records coverage
    def mod(self, rel: str) -> Module:
        self.units.add(rel)
        return self.repo.mod(rel)

    def func(self, rel: str, q: str) -> ast.FunctionDef:
        f = self.mod(rel).func(q)
        self.functions.add(f"{rel}:{q}")
        return f

    # -- obligations
    def ob(self, rule, node_or_loc, construct, ok, msg="", facts=None, nontrivial=True, file=None, func=None):
        """Record an obligation. ok: True/False/None (None = undecided)."""
        line = None
        if isinstance(node_or_loc, ast.AST):
            line = getattr(node_or_loc, "lineno", None)
            if func is None:
                func = qual(node_or_loc)
        if file is None:
            file = getattr(self, "_cur_file", "?")
        status = HOLDS if ok is True else VIOLATED if ok is False else UNDECIDED
        if not isinstance(construct, str):
            construct = src(construct)
        o = Ob(rule, file, func or "<module>", construct, status, msg, line, facts or {}, nontrivial)
        k = (o.key, o.status, o.line)
        if k in self._seen:
            return o
        self._seen.add(k)
        self.obs.append(o)
        return o

    def pat(self, rule, node, construct, ok, good, bad=None, **kw):
        """obligation of an idiom-recognising rule: HOLDS when the expected idiom is found, VIOLATED only when
        a recognised wrong form is found (`bad` = its diagnosis), otherwise UNDECIDED (the idiom changed: the
        analysis cannot decide, which is an ANALYSIS-ERROR, never an alarm)"""
        if ok:
            return self.ob(rule, node, construct, True, good, **kw)
        if bad:
            return self.ob(rule, node, construct, False, bad, **kw)
        return self.ob(rule, node, construct, None, "idiom not recognised (statement rewritten?): cannot decide `" +
                       (construct if isinstance(construct, str) else src(construct))[:80] + "`", **kw)

    def need(self, fn, names, rule, file=None):
        """False (and an UNDECIDED obligation) when local names a rule is written against are gone"""
        have = assigned_names(fn)
        missing = [n for n in names if n not in have]
        if missing:
            self.ob(rule, fn, f"locals {missing} of {getattr(fn, '_qual', '?')}", None,
                    f"idiom changed: the rule is written against local name(s) {missing}, which are no longer defined",
                    file=file, func=getattr(fn, "_qual", None))
            return False
        return True

    def in_file(self, rel):
        self._cur_file = rel
        return self

    def require(self, cond, what: str):
        if not cond:
            raise AnalysisError(what)

    def floor(self, rule_prefix: str, n: int):
        self.floors[rule_prefix] = n

    def note(self, s: str):
        self.notes.append(s)

    # -- finishing
    def _known(self):
        try:
            data = json.loads(KNOWN_FILE.read_text())
        except FileNotFoundError:
            return []
        return [e for e in data.get("findings", []) if e.get("property") == self.pid]

    def finish(self) -> int:
        for pref, n in ({} if getattr(self, "skip_floors", False) else self.floors).items():
            got = sum(1 for o in self.obs if o.rule.startswith(pref))
            if got < n:
                raise AnalysisError(f"instance floor not met for rule {pref}: {got} < {n} "
                                    f"(a rule that matches too few sites would pass vacuously)")
        known = self._known()
        known_keys = {}
        for e in known:
            if e.get("status") == "known":
                known_keys[(e["rule"], e["file"], e["function"], re.sub(r"\s+", " ", e["construct"]).strip())] = e
        viol = [o for o in self.obs if o.status == VIOLATED]
        undec = [o for o in self.obs if o.status == UNDECIDED]
        new_viol, known_hit = [], []
        for o in viol:
            if o.key in known_keys:
                known_hit.append((o, known_keys[o.key]))
            else:
                new_viol.append(o)
        print(f"[{self.pid}] tier={self.tier} units={len(self.units)} functions={len(self.functions)} "
              f"obligations={len(self.obs)} holds={sum(1 for o in self.obs if o.status == HOLDS)} "
              f"violated={len(viol)} undecided={len(undec)}")
        by_rule: dict[str, list[int]] = {}
        for o in self.obs:
            r = by_rule.setdefault(o.rule, [0, 0, 0])
            r[0 if o.status == HOLDS else 1 if o.status == VIOLATED else 2] += 1
        for r in sorted(by_rule):
            h, v, u = by_rule[r]
            print(f"  rule {r}: holds={h} violated={v} undecided={u}")
        for o, e in known_hit:
            print(f"KNOWN-FINDING: property={self.pid} {o.rule} {o.file}:{o.func} `{o.construct}` {e.get('what', o.msg)}")
        code = 0
        if undec:
            for o in undec:
                print(f"ANALYSIS-ERROR property={self.pid} undecided obligation {o.rule} at {o.file}:{o.line} "
                      f"{o.func} `{o.construct}`: {o.msg}")
            code = 2
        replay_dir = EVIDENCE_DIR / "replay"
        if new_viol:
            replay_dir.mkdir(parents=True, exist_ok=True)
            for o in new_viol:
                h = hashlib.sha1(repr(o.key).encode()).hexdigest()[:10]
                rp = replay_dir / f"{self.pid}-{h}.json"
                rp.write_text(json.dumps({"property": self.pid, "obligation": o.as_json(),
                                          "replay": f"/venv/bin/python -m pgverif check {self.pid} --only-key {h}"},
                                         indent=1))
                print(f"  {o.file}:{o.line} in {o.func}: rule {o.rule} VIOLATED at `{o.construct}`: {o.msg}")
                print(f"VIOLATION property={self.pid} replay={rp}")
            code = 1 if code == 0 else code
            if code == 2:
                code = 1  # a definite violation outranks an undecided one
        self._write_evidence(viol, undec, known_hit, new_viol)
        return code

    def _write_evidence(self, viol, undec, known_hit, new_viol):
        EVIDENCE_DIR.mkdir(parents=True, exist_ok=True)
        distinct = {o.key for o in self.obs if o.nontrivial}
        samples = []
        seen_rules = set()
        for o in self.obs:
            if o.rule not in seen_rules and len(samples) < 12:
                seen_rules.add(o.rule)
                samples.append(o.as_json())
        by_rule = {}
        for o in self.obs:
            r = by_rule.setdefault(o.rule, {"holds": 0, "violated": 0, "undecided": 0})
            r["holds" if o.status == HOLDS else "violated" if o.status == VIOLATED else "undecided"] += 1
        ev = {
            "property_id": self.pid,
            "tier": self.tier,
            "seed": int(os.environ.get("VERIF_SEED", "0") or 0),
            "level": self.level,
            "coverage": {
                "explanation": self.explanation or "static rule discharge over the syntax tree",
                "evaluations": len(self.obs),
                "distinct_nontrivial": len(distinct),
                "rule": "one evaluation = one obligation (rule instance anchored at a construct); "
                        "distinct = distinct (rule,file,function,construct) keys; non-trivial = the "
                        "obligation required a dataflow/normal-form/typestate argument, not an existence test",
                "obligations": len(self.obs),
                "discharged": sum(1 for o in self.obs if o.status == HOLDS),
                "violated": len(viol),
                "undecided": len(undec),
                "known_findings_hit": [o.as_json() for o, _ in known_hit],
                "new_violations": [o.as_json() for o in new_viol],
                "per_rule": by_rule,
                "units_parsed": sorted(self.units),
                "functions_analysed": sorted(self.functions),
                "samples": samples,
                "checker_cmd": f"/venv/bin/python -m pgverif check {self.pid} --tier {self.tier}",
                "trusted_base": self.trusted,
                "notes": self.notes,
                "repo_root": str(self.repo.root),
                **self.extra,
            },
            "assumptions": self.assumptions,
            "wall_s": round(time.time() - self.t0, 3),
            "violations": len(new_viol),
        }
        (EVIDENCE_DIR / f"{self.pid}.json").write_text(json.dumps(ev, indent=1, default=str))


def run_check(pid: str, fn, tier: str) -> int:
    # rules copy expressions with copy.deepcopy; the nodes carry parent links, so a copy walks up to the module: the default limit of
    # 1000 frames was met within a few frames on advection.py
    if sys.getrecursionlimit() < 6000:
        sys.setrecursionlimit(6000)
    chk = Check(pid, tier)
    try:
        fn(chk)
        return chk.finish()
    except AnalysisError as e:
        print(f"ANALYSIS-ERROR property={pid} {e}")
        return _finish_partial(chk, str(e))
    except Exception as e:  # internal error: never a silent pass, never a violation
        traceback.print_exc()
        print(f"ANALYSIS-ERROR property={pid} internal error: {type(e).__name__}: {e}")
        return _finish_partial(chk, f"internal error {type(e).__name__}: {e}")


def _finish_partial(chk: "Check", msg: str) -> int:
    """the run stopped early: violations established before the stop are still violations (exit 1); otherwise exit 2"""
    try:
        viol = [o for o in chk.obs if o.status == VIOLATED]
    except Exception:
        viol = []
    if viol:
        try:
            chk.skip_floors = True
            code = chk.finish()
            if code == 1:
                return 1
        except Exception:
            pass
    _write_error_evidence(chk, msg)
    return 2


def _write_error_evidence(chk: Check, msg: str):
    try:
        EVIDENCE_DIR.mkdir(parents=True, exist_ok=True)
        ev = {"property_id": chk.pid, "tier": chk.tier, "seed": 0, "level": chk.level,
              "coverage": {"explanation": "ANALYSIS-ERROR: " + msg, "evaluations": len(chk.obs),
                           "distinct_nontrivial": 0, "samples": [o.as_json() for o in chk.obs[:3]]},
              "assumptions": [], "wall_s": round(time.time() - chk.t0, 3), "violations": 0}
        (EVIDENCE_DIR / f"{chk.pid}.json").write_text(json.dumps(ev, indent=1, default=str))
    except Exception:
        pass
